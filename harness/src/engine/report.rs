//! Report, violation collection, evidence files, known findings.
use serde_json::{json, Map, Value};
use std::collections::BTreeMap;
use std::sync::Mutex;
use std::time::Instant;

#[derive(Debug, Clone, Copy, PartialEq, Eq)]
pub enum Tier {
    Quick,
    Thorough,
}

impl Tier {
    pub fn name(self) -> &'static str {
        match self {
            Tier::Quick => "quick",
            Tier::Thorough => "thorough",
        }
    }
    pub fn pick<T>(self, quick: T, thorough: T) -> T {
        match self {
            Tier::Quick => quick,
            Tier::Thorough => thorough,
        }
    }
}

#[derive(Clone)]
pub struct Ctx {
    pub prop: &'static str,
    pub tier: Tier,
    pub seed: u64,
    pub threads: usize,
    pub start: Instant,
    /// wall-clock cap (seconds) after which engines stop expanding and report `capped`
    pub wall_cap_s: f64,
    /// resident-set cap in MiB
    pub rss_cap_mb: u64,
}

impl Ctx {
    pub fn elapsed(&self) -> f64 {
        self.start.elapsed().as_secs_f64()
    }
    pub fn over_cap(&self) -> bool {
        self.elapsed() > self.wall_cap_s || super::util::rss_mb() > self.rss_cap_mb
    }
}

#[derive(Debug, Clone)]
pub struct Violation {
    /// finding key: canonical, narrow identification of the witness (see DESIGN §2.5)
    pub key: String,
    /// one-line human description
    pub what: String,
    /// replayable witness (input / operation list / schedule)
    pub witness: Value,
}

/// Concurrent, deduplicating violation collector. Keeps, per key, the smallest witness
/// (by serialized length, then lexicographically) so output is deterministic.
pub struct Violations {
    inner: Mutex<BTreeMap<String, Violation>>,
    raw: std::sync::atomic::AtomicU64,
    cap: usize,
}

impl Default for Violations {
    fn default() -> Self {
        Self::new()
    }
}

impl Violations {
    pub fn new() -> Self {
        Self {
            inner: Mutex::new(BTreeMap::new()),
            raw: std::sync::atomic::AtomicU64::new(0),
            cap: 400,
        }
    }

    pub fn push(&self, v: Violation) {
        self.raw.fetch_add(1, std::sync::atomic::Ordering::Relaxed);
        let mut g = self.inner.lock().unwrap();
        match g.get_mut(&v.key) {
            Some(old) => {
                let a = old.witness.to_string();
                let b = v.witness.to_string();
                if (b.len(), &b) < (a.len(), &a) {
                    *old = v;
                }
            }
            None => {
                if g.len() < self.cap {
                    g.insert(v.key.clone(), v);
                }
            }
        }
    }

    pub fn add(&self, key: impl Into<String>, what: impl Into<String>, witness: Value) {
        self.push(Violation {
            key: key.into(),
            what: what.into(),
            witness,
        })
    }

    pub fn raw_count(&self) -> u64 {
        self.raw.load(std::sync::atomic::Ordering::Relaxed)
    }

    pub fn is_empty(&self) -> bool {
        self.inner.lock().unwrap().is_empty()
    }

    pub fn len(&self) -> usize {
        self.inner.lock().unwrap().len()
    }

    pub fn into_vec(self) -> Vec<Violation> {
        self.inner.into_inner().unwrap().into_values().collect()
    }

    pub fn extend(&self, other: Vec<Violation>) {
        for v in other {
            self.push(v);
        }
    }
}

/// Keeps a handful of actual cases for the evidence file: the first few and a few more
/// chosen by hash (rotated by seed) so that they are spread over the space.
pub struct Samples {
    inner: Mutex<(Vec<Value>, Vec<(u64, Value)>)>,
    seed: u64,
}

impl Samples {
    pub fn new(seed: u64) -> Self {
        Self {
            inner: Mutex::new((Vec::new(), Vec::new())),
            seed,
        }
    }

    /// cheap pre-filter so hot loops do not build JSON for every case
    pub fn wants(&self, index: u64) -> bool {
        index < 3 || (index ^ self.seed).wrapping_mul(0x9e3779b97f4a7c15) >> 54 == 0
    }

    pub fn offer(&self, index: u64, make: impl FnOnce() -> Value) {
        if !self.wants(index) {
            return;
        }
        let mut g = self.inner.lock().unwrap();
        if index < 3 {
            if g.0.len() < 3 {
                g.0.push(make());
            }
        } else {
            let h = (index ^ self.seed).wrapping_mul(0x9e3779b97f4a7c15);
            if g.1.len() < 5 {
                g.1.push((h, make()));
            } else if let Some((mi, _)) = g.1.iter().enumerate().max_by_key(|(_, (hh, _))| *hh) {
                if g.1[mi].0 > h {
                    g.1[mi] = (h, make());
                }
            }
        }
    }

    pub fn force(&self, v: Value) {
        let mut g = self.inner.lock().unwrap();
        if g.0.len() < 8 {
            g.0.push(v);
        }
    }

    pub fn into_vec(self) -> Vec<Value> {
        let (a, mut b) = self.inner.into_inner().unwrap();
        b.sort_by_key(|(h, _)| *h);
        a.into_iter().chain(b.into_iter().map(|(_, v)| v)).collect()
    }
}

pub struct Report {
    pub level: &'static str,
    pub coverage: Map<String, Value>,
    pub assumptions: Vec<String>,
    pub violations: Vec<Violation>,
}

impl Report {
    pub fn new(level: &'static str) -> Self {
        Self {
            level,
            coverage: Map::new(),
            assumptions: Vec::new(),
            violations: Vec::new(),
        }
    }
    pub fn set(&mut self, k: &str, v: impl Into<Value>) -> &mut Self {
        self.coverage.insert(k.to_string(), v.into());
        self
    }
    pub fn assume(&mut self, s: &str) -> &mut Self {
        self.assumptions.push(s.to_string());
        self
    }
}

#[derive(Debug, Clone)]
pub struct KnownFinding {
    pub property: String,
    pub key: String,
    pub what: String,
}

pub fn load_known_findings(path: &str) -> Result<Vec<KnownFinding>, String> {
    let text = match std::fs::read_to_string(path) {
        Ok(t) => t,
        Err(_) => return Ok(vec![]),
    };
    let v: Value = serde_json::from_str(&text).map_err(|e| format!("{path}: {e}"))?;
    let mut out = vec![];
    if let Some(open) = v.get("open").and_then(|o| o.as_array()) {
        for e in open {
            out.push(KnownFinding {
                property: e["property"].as_str().unwrap_or("").to_string(),
                key: e["key"].as_str().unwrap_or("").to_string(),
                what: e["what"].as_str().unwrap_or("").to_string(),
            });
        }
    }
    Ok(out)
}

/// Finalise a run: classify violations, write replays and evidence, print lines, return exit code.
pub fn finish(ctx: &Ctx, verif_dir: &str, report: Report) -> i32 {
    let known = match load_known_findings(&format!("{verif_dir}/known_findings.json")) {
        Ok(k) => k,
        Err(e) => {
            eprintln!("MACHINERY: cannot read known_findings.json: {e}");
            return 2;
        }
    };
    let mut unknown = 0usize;
    let mut known_seen = 0usize;
    // one violation per finding key: the smallest witness
    let dedup = Violations::new();
    dedup.extend(report.violations.clone());
    let raw_reported = report.violations.len();
    let mut viols = dedup.into_vec();
    viols.sort_by(|a, b| {
        (a.witness.to_string().len(), &a.key).cmp(&(b.witness.to_string().len(), &b.key))
    });
    let _ = std::fs::create_dir_all(format!("{verif_dir}/replays"));
    let mut viol_list = vec![];
    for v in &viols {
        if let Some(k) = known
            .iter()
            .find(|k| k.property == ctx.prop && k.key == v.key)
        {
            known_seen += 1;
            println!("KNOWN-FINDING: property={} {} [key={}]", ctx.prop, k.what, v.key);
            continue;
        }
        unknown += 1;
        let h = super::util::hash64(&v.key);
        let path = format!("{verif_dir}/replays/{}-{:016x}.json", ctx.prop, h);
        let body = json!({
            "property": ctx.prop,
            "key": v.key,
            "what": v.what,
            "witness": v.witness,
            "replay_cmd": format!("./check {} --replay {}", ctx.prop, path),
        });
        if unknown <= 60 {
            if let Err(e) = std::fs::write(&path, serde_json::to_string_pretty(&body).unwrap()) {
                eprintln!("MACHINERY: cannot write replay {path}: {e}");
                return 2;
            }
            println!("VIOLATION property={} replay={}", ctx.prop, path);
            println!("  what: {}", v.what);
            println!("  key:  {}", v.key);
        }
        viol_list.push(json!({"key": v.key, "what": v.what}));
    }
    if unknown > 60 {
        println!(
            "... {} further distinct violations not written (cap 60 replay files per run)",
            unknown - 60
        );
    }

    let mut coverage = report.coverage.clone();
    coverage.insert("known_findings_seen".into(), json!(known_seen));
    coverage.insert("violation_reports_before_dedup".into(), json!(raw_reported));
    if !viol_list.is_empty() {
        viol_list.truncate(60);
        coverage.insert("violation_keys".into(), Value::Array(viol_list));
    }
    let evidence = json!({
        "property_id": ctx.prop,
        "tier": ctx.tier.name(),
        "seed": ctx.seed,
        "level": report.level,
        "coverage": coverage,
        "assumptions": report.assumptions,
        "wall_s": (ctx.elapsed() * 1000.0).round() / 1000.0,
        "violations": unknown,
    });
    let _ = std::fs::create_dir_all(format!("{verif_dir}/evidence"));
    let epath = format!("{verif_dir}/evidence/{}.json", ctx.prop);
    if let Err(e) = std::fs::write(&epath, serde_json::to_string_pretty(&evidence).unwrap()) {
        eprintln!("MACHINERY: cannot write evidence {epath}: {e}");
        return 2;
    }
    let summary = |k: &str| coverage.get(k).map(|v| v.to_string()).unwrap_or_default();
    println!(
        "{} {} level={} states={} transitions={} evaluations={} distinct={} exhaustive={} violations={} known={} wall={:.1}s",
        ctx.prop,
        ctx.tier.name(),
        report.level,
        summary("states"),
        summary("transitions"),
        summary("evaluations"),
        summary("distinct_nontrivial"),
        summary("exhaustive"),
        unknown,
        known_seen,
        ctx.elapsed()
    );
    if unknown > 0 {
        1
    } else {
        0
    }
}
