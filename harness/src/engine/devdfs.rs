//! Deviation-bounded stateless exploration (iterative context bounding, generalised to
//! environment answers): run with a prefix of recorded choices, default choice 0 afterwards;
//! for every later choice point and every alternative whose cumulative deviation count stays
//! within the bound, recurse. Executions always run to completion.
//!
//! An out-of-range choice or a different number of alternatives while replaying a prefix is
//! a machinery error (panic with "DIVERGENCE"), never a verdict.

#[derive(Debug, Clone, PartialEq, Eq)]
pub struct ChoicePoint {
    pub chosen: u16,
    pub alts: u16,
    /// label of the point, used for divergence detection and reporting
    pub label: &'static str,
}

pub struct Choices {
    prefix: Vec<u16>,
    /// expected (alts,label) for the prefix part, if known (for divergence detection)
    expect: Vec<(u16, &'static str)>,
    pub trace: Vec<ChoicePoint>,
}

impl Choices {
    pub fn new(prefix: Vec<u16>, expect: Vec<(u16, &'static str)>) -> Self {
        Self {
            prefix,
            expect,
            trace: Vec::new(),
        }
    }

    pub fn replay(prefix: Vec<u16>) -> Self {
        Self::new(prefix, vec![])
    }

    /// A choice point with `alts` alternatives; alternative 0 is the cooperative default.
    pub fn choose(&mut self, alts: usize, label: &'static str) -> usize {
        assert!(alts >= 1 && alts < u16::MAX as usize);
        let i = self.trace.len();
        let chosen = if i < self.prefix.len() {
            let c = self.prefix[i];
            if c as usize >= alts {
                panic!("DIVERGENCE: choice {} out of range {} at point {} ({})", c, alts, i, label);
            }
            if let Some((ea, el)) = self.expect.get(i) {
                if *ea as usize != alts || *el != label {
                    panic!(
                        "DIVERGENCE: point {} was ({},{}) now ({},{})",
                        i, ea, el, alts, label
                    );
                }
            }
            c
        } else {
            0
        };
        self.trace.push(ChoicePoint {
            chosen,
            alts: alts as u16,
            label,
        });
        chosen as usize
    }

    /// move the recorded prefix out (the callee owns the choice stream for one execution)
    pub fn take(&mut self) -> Choices {
        std::mem::replace(self, Choices::replay(vec![]))
    }

    pub fn chosen(&self) -> Vec<u16> {
        self.trace.iter().map(|c| c.chosen).collect()
    }

    pub fn deviations(&self) -> usize {
        self.trace.iter().filter(|c| c.chosen != 0).count()
    }
}

#[derive(Debug, Default, Clone)]
pub struct DevStats {
    /// executions per number of deviations actually taken
    pub by_deviations: Vec<u64>,
    pub executions: u64,
    pub max_points: usize,
    pub capped: bool,
}

/// Explore all executions with at most `bound` deviations. `run` executes once under the
/// given `Choices` and returns `true` to keep exploring below this execution (false prunes
/// its subtree, e.g. after a violation). `budget` caps the number of executions.
pub fn explore<F>(bound: usize, budget: u64, mut run: F) -> DevStats
where
    F: FnMut(&mut Choices) -> bool,
{
    let mut stats = DevStats::default();
    stats.by_deviations = vec![0; bound + 1];
    let mut stack: Vec<(Vec<u16>, Vec<(u16, &'static str)>)> = vec![(vec![], vec![])];
    while let Some((prefix, expect)) = stack.pop() {
        if stats.executions >= budget {
            stats.capped = true;
            break;
        }
        let plen = prefix.len();
        let mut ch = Choices::new(prefix, expect);
        let expand = run(&mut ch);
        stats.executions += 1;
        let devs = ch.deviations();
        if devs <= bound {
            stats.by_deviations[devs] += 1;
        }
        stats.max_points = stats.max_points.max(ch.trace.len());
        if ch.trace.len() < plen {
            panic!("DIVERGENCE: execution shorter ({}) than its prefix ({})", ch.trace.len(), plen);
        }
        if !expand {
            continue;
        }
        // children: deviate at any later point
        let mut dev_before: usize = ch.trace[..plen].iter().filter(|c| c.chosen != 0).count();
        let mut children = vec![];
        for i in plen..ch.trace.len() {
            let p = &ch.trace[i];
            if dev_before + 1 <= bound {
                for alt in 1..p.alts {
                    let mut pre: Vec<u16> = ch.trace[..i].iter().map(|c| c.chosen).collect();
                    pre.push(alt);
                    let exp: Vec<(u16, &'static str)> =
                        ch.trace[..=i].iter().map(|c| (c.alts, c.label)).collect();
                    children.push((pre, exp));
                }
            }
            if p.chosen != 0 {
                dev_before += 1;
            }
        }
        // push in reverse so that exploration order is by earliest deviation first
        for c in children.into_iter().rev() {
            stack.push(c);
        }
    }
    stats
}

#[cfg(test)]
mod tests {
    use super::*;

    #[test]
    fn counts_match_binomials() {
        // 4 binary points, bound 2 => 1 + 4 + 6 executions
        let st = explore(2, 1000, |c| {
            for _ in 0..4 {
                c.choose(2, "p");
            }
            true
        });
        assert_eq!(st.executions, 11);
        assert_eq!(st.by_deviations, vec![1, 4, 6]);
    }

    #[test]
    fn finds_seeded_two_deviation_bug() {
        // bug needs alt 1 at point 1 and alt 2 at point 3
        let mut found = None;
        explore(2, 10_000, |c| {
            let v: Vec<usize> = (0..5).map(|_| c.choose(3, "p")).collect();
            if v[1] == 1 && v[3] == 2 {
                found = Some(c.trace.iter().map(|p| p.chosen).collect::<Vec<_>>());
                return false;
            }
            true
        });
        assert_eq!(found, Some(vec![0, 1, 0, 2, 0]));
    }

    #[test]
    #[should_panic(expected = "DIVERGENCE")]
    fn divergence_is_hard_error() {
        let mut n = 0;
        explore(1, 100, |c| {
            n += 1;
            // nondeterministic harness: number of alternatives changes between runs
            c.choose(if n == 1 { 3 } else { 2 }, "p");
            c.choose(2, "q");
            true
        });
    }
}
