//! Exploration engines and the evidence / findings plumbing shared by all properties.
pub mod bfs;
pub mod devdfs;
pub mod logging;
pub mod panics;
pub mod report;
pub mod util;
pub mod workers;

pub use panics::catch;
pub use report::{Ctx, Report, Samples, Tier, Violation, Violations};
