//! Subprocess sharding for sweeps that may abort the process (non-unwinding panics such as
//! the `from_u32_unchecked` precondition check, allocation failure, stack overflow) or hang.
//!
//! The parent re-executes its own binary with `--worker i/n`. A child publishes the case it
//! is about to execute in a small memory-mapped progress file (no system call per case),
//! streams violations and counter checkpoints on stdout, and exits 0. If a child dies or
//! stalls, the parent reads the published case, confirms it by re-running that single case
//! in a fresh child (`--replay`), reports it as a violation of the library, and restarts the
//! shard after that case. A death that does not reproduce is a machinery failure (exit 2).
use super::report::{Tier, Violation};
use serde_json::{json, Value};
use std::collections::BTreeMap;
use std::io::{BufRead, BufReader, Write};
use std::process::{Command, Stdio};
use std::sync::mpsc;
use std::time::{Duration, Instant};

const PROGRESS_SIZE: usize = 8192;

/// Child-side handle to the progress file.
pub struct Progress {
    ptr: *mut u8,
}

unsafe impl Send for Progress {}

impl Progress {
    pub fn from_env() -> Option<Self> {
        let path = std::env::var("SNT_PROGRESS").ok()?;
        let cpath = std::ffi::CString::new(path).ok()?;
        unsafe {
            let fd = libc::open(cpath.as_ptr(), libc::O_RDWR);
            if fd < 0 {
                return None;
            }
            let ptr = libc::mmap(
                std::ptr::null_mut(),
                PROGRESS_SIZE,
                libc::PROT_READ | libc::PROT_WRITE,
                libc::MAP_SHARED,
                fd,
                0,
            );
            libc::close(fd);
            if ptr == libc::MAP_FAILED {
                return None;
            }
            Some(Self { ptr: ptr as *mut u8 })
        }
    }

    /// Publish the case about to be executed.
    #[inline]
    pub fn set(&self, case_index: u64, descriptor: &[u8]) {
        let n = descriptor.len().min(PROGRESS_SIZE - 32);
        unsafe {
            let p = self.ptr;
            std::ptr::copy_nonoverlapping(descriptor.as_ptr(), p.add(24), n);
            std::ptr::write_volatile(p.add(16) as *mut u32, n as u32);
            std::ptr::write_volatile(p.add(8) as *mut u64, case_index);
            let seq = std::ptr::read_volatile(p as *const u64);
            std::ptr::write_volatile(p as *mut u64, seq.wrapping_add(1));
        }
    }
}

fn read_progress(path: &str) -> Option<(u64, u64, Vec<u8>)> {
    let data = std::fs::read(path).ok()?;
    if data.len() < 24 {
        return None;
    }
    let seq = u64::from_le_bytes(data[0..8].try_into().ok()?);
    let idx = u64::from_le_bytes(data[8..16].try_into().ok()?);
    let n = u32::from_le_bytes(data[16..20].try_into().ok()?) as usize;
    Some((seq, idx, data[24..24 + n.min(data.len() - 24)].to_vec()))
}

/// Child-side context.
pub struct WorkerCtx {
    pub shard: usize,
    pub shards: usize,
    /// skip (do not execute) cases with index < resume
    pub resume: u64,
    pub progress: Option<Progress>,
    out: std::io::Stdout,
    pub counters: BTreeMap<String, u64>,
    since_checkpoint: u64,
}

impl WorkerCtx {
    pub fn new(shard: usize, shards: usize, resume: u64) -> Self {
        Self {
            shard,
            shards,
            resume,
            progress: Progress::from_env(),
            out: std::io::stdout(),
            counters: BTreeMap::new(),
            since_checkpoint: 0,
        }
    }

    #[inline]
    pub fn begin_case(&mut self, case_index: u64, descriptor: &[u8]) {
        if let Some(p) = &self.progress {
            p.set(case_index, descriptor);
        }
        self.since_checkpoint += 1;
        if self.since_checkpoint >= 200_000 {
            self.checkpoint();
        }
    }

    pub fn count(&mut self, name: &str, n: u64) {
        *self.counters.entry(name.to_string()).or_insert(0) += n;
    }

    pub fn violation(&mut self, v: &Violation) {
        let line = json!({"key": v.key, "what": v.what, "witness": v.witness});
        let mut o = self.out.lock();
        let _ = writeln!(o, "VIOL {}", line);
        let _ = o.flush();
    }

    pub fn sample(&mut self, v: Value) {
        let mut o = self.out.lock();
        let _ = writeln!(o, "SAMPLE {}", v);
    }

    pub fn note(&mut self, k: &str, v: Value) {
        let mut o = self.out.lock();
        let _ = writeln!(o, "NOTE {}", json!({"k": k, "v": v}));
    }

    pub fn checkpoint(&mut self) {
        self.since_checkpoint = 0;
        if self.counters.is_empty() {
            return;
        }
        let c = std::mem::take(&mut self.counters);
        let mut o = self.out.lock();
        let _ = writeln!(o, "COUNT {}", serde_json::to_string(&c).unwrap());
        let _ = o.flush();
    }

    pub fn finish(mut self) {
        self.checkpoint();
        let mut o = self.out.lock();
        let _ = writeln!(o, "DONE");
        let _ = o.flush();
    }
}

#[derive(Default, Debug)]
pub struct Merged {
    pub counters: BTreeMap<String, u64>,
    pub violations: Vec<Violation>,
    pub samples: Vec<Value>,
    pub notes: BTreeMap<String, Vec<Value>>,
    pub crashes: u64,
    pub restarts: u64,
    pub capped: bool,
}

pub struct Spec<'a> {
    pub prop: &'a str,
    pub tier: Tier,
    pub seed: u64,
    pub shards: usize,
    pub parallel: usize,
    pub extra_args: Vec<String>,
    /// a child whose progress record does not change for this long is killed (hang)
    pub stall_timeout: Duration,
    pub max_restarts_per_shard: usize,
    pub deadline: Instant,
}

enum ChildEnd {
    Done,
    Died { status: String },
    Stalled,
    Deadline,
}

struct ShardRun {
    end: ChildEnd,
    merged: Merged,
}

fn run_child(spec: &Spec, shard: usize, resume: u64, progress_path: &str) -> Result<ShardRun, String> {
    // fresh progress file
    std::fs::write(progress_path, vec![0u8; PROGRESS_SIZE]).map_err(|e| e.to_string())?;
    let exe = std::env::current_exe().map_err(|e| e.to_string())?;
    let mut cmd = Command::new(exe);
    cmd.arg(spec.prop)
        .arg("--tier")
        .arg(spec.tier.name())
        .arg("--worker")
        .arg(format!("{}/{}", shard, spec.shards))
        .arg("--resume")
        .arg(resume.to_string())
        .args(&spec.extra_args)
        .env("SNT_PROGRESS", progress_path)
        .env("VERIF_SEED", spec.seed.to_string())
        .stdin(Stdio::null())
        .stdout(Stdio::piped())
        .stderr(Stdio::null());
    let mut child = cmd.spawn().map_err(|e| format!("spawn worker: {e}"))?;
    let stdout = child.stdout.take().unwrap();
    let (tx, rx) = mpsc::channel::<Option<String>>();
    std::thread::spawn(move || {
        let r = BufReader::new(stdout);
        for line in r.lines() {
            match line {
                Ok(l) => {
                    if tx.send(Some(l)).is_err() {
                        return;
                    }
                }
                Err(_) => break,
            }
        }
        let _ = tx.send(None);
    });
    let mut merged = Merged::default();
    let mut done = false;
    let mut last_seq = 0u64;
    let mut last_change = Instant::now();
    let end;
    loop {
        match rx.recv_timeout(Duration::from_millis(200)) {
            Ok(Some(line)) => {
                if let Some(rest) = line.strip_prefix("VIOL ") {
                    if let Ok(v) = serde_json::from_str::<Value>(rest) {
                        merged.violations.push(Violation {
                            key: v["key"].as_str().unwrap_or("").to_string(),
                            what: v["what"].as_str().unwrap_or("").to_string(),
                            witness: v["witness"].clone(),
                        });
                    }
                } else if let Some(rest) = line.strip_prefix("COUNT ") {
                    if let Ok(c) = serde_json::from_str::<BTreeMap<String, u64>>(rest) {
                        for (k, n) in c {
                            *merged.counters.entry(k).or_insert(0) += n;
                        }
                    }
                } else if let Some(rest) = line.strip_prefix("SAMPLE ") {
                    if let Ok(v) = serde_json::from_str::<Value>(rest) {
                        if merged.samples.len() < 4 {
                            merged.samples.push(v);
                        }
                    }
                } else if let Some(rest) = line.strip_prefix("NOTE ") {
                    if let Ok(v) = serde_json::from_str::<Value>(rest) {
                        merged
                            .notes
                            .entry(v["k"].as_str().unwrap_or("").to_string())
                            .or_default()
                            .push(v["v"].clone());
                    }
                } else if line == "DONE" {
                    done = true;
                }
                last_change = Instant::now();
            }
            Ok(None) => {
                let status = child.wait().map_err(|e| e.to_string())?;
                end = if done && status.success() {
                    ChildEnd::Done
                } else {
                    ChildEnd::Died {
                        status: format!("{status}"),
                    }
                };
                break;
            }
            Err(mpsc::RecvTimeoutError::Timeout) => {
                if let Some((seq, _, _)) = read_progress(progress_path) {
                    if seq != last_seq {
                        last_seq = seq;
                        last_change = Instant::now();
                    }
                }
                if Instant::now() > spec.deadline {
                    let _ = child.kill();
                    let _ = child.wait();
                    end = ChildEnd::Deadline;
                    break;
                }
                if last_change.elapsed() > spec.stall_timeout {
                    let _ = child.kill();
                    let _ = child.wait();
                    end = ChildEnd::Stalled;
                    break;
                }
            }
            Err(mpsc::RecvTimeoutError::Disconnected) => {
                let status = child.wait().map_err(|e| e.to_string())?;
                end = if done && status.success() {
                    ChildEnd::Done
                } else {
                    ChildEnd::Died {
                        status: format!("{status}"),
                    }
                };
                break;
            }
        }
    }
    Ok(ShardRun { end, merged })
}

/// Re-run a single case in a fresh child; returns how it ended.
pub fn confirm_case(prop: &str, witness: &Value, timeout: Duration) -> Result<String, String> {
    let dir = tmp_dir();
    let path = format!("{dir}/confirm-{}-{}.json", std::process::id(), super::util::hash64(&witness.to_string()));
    std::fs::write(&path, json!({"property": prop, "witness": witness}).to_string())
        .map_err(|e| e.to_string())?;
    let exe = std::env::current_exe().map_err(|e| e.to_string())?;
    let mut child = Command::new(exe)
        .arg(prop)
        .arg("--replay")
        .arg(&path)
        .stdin(Stdio::null())
        .stdout(Stdio::null())
        .stderr(Stdio::null())
        .spawn()
        .map_err(|e| e.to_string())?;
    let start = Instant::now();
    let res = loop {
        match child.try_wait().map_err(|e| e.to_string())? {
            Some(st) => {
                use std::os::unix::process::ExitStatusExt;
                break if let Some(sig) = st.signal() {
                    format!("signal {sig}")
                } else {
                    format!("exit {}", st.code().unwrap_or(-1))
                };
            }
            None => {
                if start.elapsed() > timeout {
                    let _ = child.kill();
                    let _ = child.wait();
                    break "timeout".to_string();
                }
                std::thread::sleep(Duration::from_millis(20));
            }
        }
    };
    let _ = std::fs::remove_file(&path);
    Ok(res)
}

pub fn tmp_dir() -> String {
    let d = std::env::var("SNT_TMP").unwrap_or_else(|_| "/verif/harness/target/tmp".to_string());
    let _ = std::fs::create_dir_all(&d);
    d
}

/// Run all shards; `describe_crash` turns the published descriptor of the case a child died
/// in into (key, what, witness) for the violation report.
pub fn run_shards(
    spec: &Spec,
    describe_crash: &(dyn Fn(&[u8], &str) -> (String, String, Value) + Sync),
) -> Result<Merged, String> {
    use rayon::prelude::*;
    let pool = rayon::ThreadPoolBuilder::new()
        .num_threads(spec.parallel.max(1))
        .build()
        .map_err(|e| e.to_string())?;
    let dir = tmp_dir();
    let results: Vec<Result<Merged, String>> = pool.install(|| {
        (0..spec.shards)
            .into_par_iter()
            .map(|shard| {
                let ppath = format!("{dir}/progress-{}-{}-{}", spec.prop, std::process::id(), shard);
                let mut total = Merged::default();
                let mut resume = 0u64;
                loop {
                    let run = run_child(spec, shard, resume, &ppath)?;
                    for (k, n) in run.merged.counters {
                        *total.counters.entry(k).or_insert(0) += n;
                    }
                    total.violations.extend(run.merged.violations);
                    for s in run.merged.samples {
                        if total.samples.len() < 4 {
                            total.samples.push(s);
                        }
                    }
                    for (k, v) in run.merged.notes {
                        total.notes.entry(k).or_default().extend(v);
                    }
                    let how = match run.end {
                        ChildEnd::Done => break,
                        ChildEnd::Deadline => {
                            total.capped = true;
                            break;
                        }
                        ChildEnd::Died { status } => status,
                        ChildEnd::Stalled => "stalled (no progress)".to_string(),
                    };
                    let (_, idx, desc) = read_progress(&ppath)
                        .ok_or_else(|| format!("worker {shard} ended ({how}) without progress record"))?;
                    if desc.is_empty() {
                        return Err(format!(
                            "worker {shard} ended ({how}) before publishing any case (machinery failure)"
                        ));
                    }
                    let (key, what, witness) = describe_crash(&desc, &how);
                    // confirm in a fresh process
                    let confirm = confirm_case(spec.prop, &witness, spec.stall_timeout)?;
                    if confirm.starts_with("exit 0") || confirm.starts_with("exit 2") {
                        return Err(format!(
                            "worker {shard} ended ({how}) at case {idx} but the case does not reproduce ({confirm}): machinery failure"
                        ));
                    }
                    total.crashes += 1;
                    total.violations.push(Violation {
                        key,
                        what: format!("{what} [worker {how}; confirmed: {confirm}]"),
                        witness,
                    });
                    total.restarts += 1;
                    if total.restarts as usize > spec.max_restarts_per_shard {
                        total.capped = true;
                        break;
                    }
                    resume = idx + 1;
                }
                let _ = std::fs::remove_file(&ppath);
                Ok(total)
            })
            .collect()
    });
    let mut all = Merged::default();
    for r in results {
        let m = r?;
        for (k, n) in m.counters {
            *all.counters.entry(k).or_insert(0) += n;
        }
        all.violations.extend(m.violations);
        for s in m.samples {
            if all.samples.len() < 8 {
                all.samples.push(s);
            }
        }
        for (k, v) in m.notes {
            all.notes.entry(k).or_default().extend(v);
        }
        all.crashes += m.crashes;
        all.restarts += m.restarts;
        all.capped |= m.capped;
    }
    Ok(all)
}
