//! The library logs through `tracing`; log arguments are evaluated (and formatted) only when a
//! subscriber is interested. `with_logging` runs a closure with a subscriber that is interested in
//! everything and formats every field into a counting sink, so that whatever a log line computes is
//! computed - the environment "an application that has logging switched on".
use std::fmt::Write as _;
use std::sync::atomic::{AtomicU64, Ordering};
use tracing::field::{Field, Visit};
use tracing::span::{Attributes, Id, Record};
use tracing::{Event, Metadata, Subscriber};

pub static EVENTS: AtomicU64 = AtomicU64::new(0);
pub static BYTES: AtomicU64 = AtomicU64::new(0);

struct Sink(u64);

impl std::fmt::Write for Sink {
    fn write_str(&mut self, s: &str) -> std::fmt::Result {
        self.0 += s.len() as u64;
        Ok(())
    }
}

impl Visit for Sink {
    fn record_debug(&mut self, field: &Field, value: &dyn std::fmt::Debug) {
        let _ = write!(self, "{}={:?}", field.name(), value);
    }
}

pub struct LogAll;

impl Subscriber for LogAll {
    fn enabled(&self, _metadata: &Metadata<'_>) -> bool {
        true
    }
    fn new_span(&self, span: &Attributes<'_>) -> Id {
        let mut s = Sink(0);
        span.record(&mut s);
        BYTES.fetch_add(s.0, Ordering::Relaxed);
        Id::from_u64(1)
    }
    fn record(&self, _span: &Id, values: &Record<'_>) {
        let mut s = Sink(0);
        values.record(&mut s);
        BYTES.fetch_add(s.0, Ordering::Relaxed);
    }
    fn record_follows_from(&self, _span: &Id, _follows: &Id) {}
    fn event(&self, event: &Event<'_>) {
        let mut s = Sink(0);
        event.record(&mut s);
        EVENTS.fetch_add(1, Ordering::Relaxed);
        BYTES.fetch_add(s.0, Ordering::Relaxed);
    }
    fn enter(&self, _span: &Id) {}
    fn exit(&self, _span: &Id) {}
}

/// run `f` on this thread with every log line of the library evaluated and formatted
pub fn with_logging<R>(f: impl FnOnce() -> R) -> R {
    // `tracing` caches per call site whether anybody is interested; the cache is not recomputed when a subscriber
    // goes away, so it is rebuilt here (also on unwind) - otherwise log arguments keep being evaluated in the silent
    // runs that follow
    struct Rebuild;
    impl Drop for Rebuild {
        fn drop(&mut self) {
            tracing::callsite::rebuild_interest_cache();
        }
    }
    let _rebuild = Rebuild;
    tracing::subscriber::with_default(LogAll, f)
}
