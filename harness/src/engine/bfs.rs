//! Level-synchronous breadth-first search over operation histories.
//!
//! A node is an operation history. `step` receives the full history (the real object is
//! rebuilt by replaying it on a fresh instance -- the objects of interest are not `Clone`,
//! and replay keeps the harness honest about determinism), evaluates the invariants /
//! reference model (reporting violations itself) and returns the canonical key of the state
//! reached, or `None` when the state must not be expanded (operation disabled, or violation).
//! Levels are expanded in parallel; insertion into the visited set is sequential in a fixed
//! order, so counts are reproducible.
use super::report::Ctx;
use rayon::prelude::*;
use std::collections::HashSet;

#[derive(Debug, Clone, Default)]
pub struct BfsStats {
    pub states: u64,
    pub transitions: u64,
    pub max_depth: usize,
    pub fixpoint: bool,
    pub capped: bool,
    pub levels: Vec<u64>,
    pub pruned: u64,
}

pub fn bfs<Op, F>(ctx: &Ctx, ops: &[Op], max_depth: usize, step: F) -> BfsStats
where
    Op: Clone + Send + Sync,
    F: Fn(&[Op]) -> Option<u128> + Sync,
{
    bfs_with(ctx, max_depth, |_| (0..ops.len()).collect::<Vec<_>>(), |h: &[usize]| {
        let hist: Vec<Op> = h.iter().map(|i| ops[*i].clone()).collect();
        step(&hist)
    })
}

/// Variant where histories are index lists and the set of enabled operation indices may
/// depend on the history.
pub fn bfs_with<E, F>(ctx: &Ctx, max_depth: usize, enabled: E, step: F) -> BfsStats
where
    E: Fn(&[usize]) -> Vec<usize> + Sync,
    F: Fn(&[usize]) -> Option<u128> + Sync,
{
    let mut stats = BfsStats::default();
    let mut visited: HashSet<u128> = HashSet::new();
    let mut frontier: Vec<Vec<usize>> = Vec::new();
    // initial state
    match step(&[]) {
        Some(k) => {
            visited.insert(k);
            frontier.push(vec![]);
            stats.states = 1;
            stats.levels.push(1);
        }
        None => {
            stats.pruned = 1;
            return stats;
        }
    }
    let mut depth = 0;
    while !frontier.is_empty() {
        if depth >= max_depth {
            break;
        }
        if ctx.over_cap() {
            stats.capped = true;
            break;
        }
        depth += 1;
        let results: Vec<Vec<(usize, Option<u128>)>> = frontier
            .par_iter()
            .map(|hist| {
                let mut out = Vec::new();
                let mut h = hist.clone();
                for op in enabled(hist) {
                    h.push(op);
                    out.push((op, step(&h)));
                    h.pop();
                }
                out
            })
            .collect();
        let mut next = Vec::new();
        for (hist, res) in frontier.iter().zip(results) {
            for (op, key) in res {
                stats.transitions += 1;
                match key {
                    Some(k) => {
                        if visited.insert(k) {
                            let mut h = hist.clone();
                            h.push(op);
                            next.push(h);
                        }
                    }
                    None => stats.pruned += 1,
                }
            }
        }
        stats.states += next.len() as u64;
        if !next.is_empty() {
            stats.max_depth = depth;
            stats.levels.push(next.len() as u64);
        }
        frontier = next;
    }
    stats.fixpoint = frontier.is_empty();
    stats
}

#[cfg(test)]
mod tests {
    use super::*;
    use crate::engine::report::{Ctx, Tier};

    fn ctx() -> Ctx {
        Ctx {
            prop: "T",
            tier: Tier::Quick,
            seed: 0,
            threads: 2,
            start: std::time::Instant::now(),
            wall_cap_s: 60.0,
            rss_cap_mb: 4096,
        }
    }

    #[test]
    fn counter_mod_closes() {
        // state = sum of ops mod 7; ops {1,2}; reachable = 7 states, fixpoint
        let st = bfs(&ctx(), &[1u32, 2u32], 50, |h| Some((h.iter().sum::<u32>() % 7) as u128));
        assert_eq!(st.states, 7);
        assert!(st.fixpoint);
        assert_eq!(st.transitions, 14);
    }

    #[test]
    fn seeded_bug_found_at_min_depth() {
        // "bug": history sum == 5 ; shortest witness has 3 ops (2,2,1)
        let found = std::sync::Mutex::new(Vec::new());
        bfs(&ctx(), &[1u32, 2u32], 10, |h| {
            let s: u32 = h.iter().sum();
            if s == 5 {
                found.lock().unwrap().push(h.len());
                return None;
            }
            Some(s as u128)
        });
        assert_eq!(found.lock().unwrap().iter().min(), Some(&3));
    }
}
