//! Panic capture: a silent hook that records message and location, and `catch`.
use std::cell::RefCell;
use std::panic::{catch_unwind, AssertUnwindSafe};

#[derive(Debug, Clone, PartialEq, Eq, Hash)]
pub struct PanicInfo {
    pub message: String,
    pub file: String,
    pub line: u32,
}

impl PanicInfo {
    /// Key that survives unrelated edits: message (digits squashed) + file, no line number.
    pub fn key(&self) -> String {
        let mut msg = String::new();
        let mut last_digit = false;
        for c in self.message.chars() {
            if c.is_ascii_digit() {
                if !last_digit {
                    msg.push('#');
                }
                last_digit = true;
            } else {
                last_digit = false;
                msg.push(c);
            }
        }
        if msg.len() > 120 {
            let mut end = 120;
            while !msg.is_char_boundary(end) {
                end -= 1;
            }
            msg.truncate(end);
        }
        let file = self.file.rsplit("/src/").next().unwrap_or(&self.file).to_string();
        format!("panic[{}]@{}", msg, file)
    }
}

thread_local! {
    static LAST: RefCell<Option<PanicInfo>> = const { RefCell::new(None) };
}

pub fn install_hook() {
    std::panic::set_hook(Box::new(|info| {
        let message = if let Some(s) = info.payload().downcast_ref::<&str>() {
            s.to_string()
        } else if let Some(s) = info.payload().downcast_ref::<String>() {
            s.clone()
        } else {
            "<non-string panic payload>".to_string()
        };
        let (file, line) = info
            .location()
            .map(|l| (l.file().to_string(), l.line()))
            .unwrap_or_default();
        let pi = PanicInfo { message, file, line };
        if std::env::var_os("SNT_PANIC_VERBOSE").is_some() {
            eprintln!("[panic] {:?}", pi);
        }
        LAST.with(|l| *l.borrow_mut() = Some(pi));
    }));
}

/// Run `f`, converting a panic into `Err(PanicInfo)`.
pub fn catch<T>(f: impl FnOnce() -> T) -> Result<T, PanicInfo> {
    LAST.with(|l| *l.borrow_mut() = None);
    match catch_unwind(AssertUnwindSafe(f)) {
        Ok(v) => Ok(v),
        Err(_) => Err(LAST.with(|l| l.borrow_mut().take()).unwrap_or(PanicInfo {
            message: "<unknown panic>".into(),
            file: String::new(),
            line: 0,
        })),
    }
}
