//! Small helpers: hashing, partitions, mixed radix enumeration.
use std::hash::{Hash, Hasher};

pub fn hash64<T: Hash + ?Sized>(v: &T) -> u64 {
    let mut h = fnv::FnvHasher::default();
    v.hash(&mut h);
    h.finish()
}

pub fn hash128<T: Hash + ?Sized>(v: &T) -> u128 {
    let mut h1 = fnv::FnvHasher::default();
    v.hash(&mut h1);
    let a = h1.finish();
    let mut h2 = fnv::FnvHasher::with_key(0x9e37_79b9_7f4a_7c15);
    v.hash(&mut h2);
    a.hash(&mut h2);
    ((a as u128) << 64) | h2.finish() as u128
}

/// All compositions of `n` (ordered partitions into positive parts), encoded as a
/// bit mask over the n-1 possible cut positions; `mask` bit i set = cut after byte i.
pub fn cuts_from_mask(n: usize, mask: u64) -> Vec<usize> {
    let mut parts = Vec::new();
    let mut start = 0;
    for i in 0..n.saturating_sub(1) {
        if mask >> i & 1 == 1 {
            parts.push(i + 1 - start);
            start = i + 1;
        }
    }
    if n > start {
        parts.push(n - start);
    }
    parts
}

/// Split data according to part lengths.
pub fn split_by<'a>(data: &'a [u8], parts: &[usize]) -> Vec<&'a [u8]> {
    let mut out = Vec::with_capacity(parts.len());
    let mut off = 0;
    for p in parts {
        out.push(&data[off..off + p]);
        off += p;
    }
    out
}

/// All partitions with at most `max_cuts` cuts (as lists of part lengths).
pub fn partitions_upto_cuts(n: usize, max_cuts: usize) -> Vec<Vec<usize>> {
    let mut out = vec![];
    if n == 0 {
        return vec![vec![]];
    }
    out.push(vec![n]);
    if max_cuts >= 1 {
        for a in 1..n {
            out.push(vec![a, n - a]);
        }
    }
    if max_cuts >= 2 {
        for a in 1..n {
            for b in a + 1..n {
                out.push(vec![a, b - a, n - b]);
            }
        }
    }
    out
}

/// Decode `index` in mixed radix `radices` (least significant first).
pub fn mixed_radix(mut index: u64, radices: &[u64], out: &mut [u64]) {
    for (i, r) in radices.iter().enumerate() {
        out[i] = index % r;
        index /= r;
    }
}

pub fn product(radices: &[u64]) -> u64 {
    radices.iter().product()
}

pub fn hex(bytes: &[u8]) -> String {
    let mut s = String::with_capacity(bytes.len() * 2);
    for b in bytes {
        s.push_str(&format!("{:02x}", b));
    }
    s
}

pub fn unhex(s: &str) -> Vec<u8> {
    (0..s.len() / 2)
        .map(|i| u8::from_str_radix(&s[2 * i..2 * i + 2], 16).unwrap_or(0))
        .collect()
}

/// Printable rendering of a byte string for reports.
pub fn esc(bytes: &[u8]) -> String {
    let mut s = String::new();
    for &b in bytes {
        match b {
            0x1b => s.push_str("\\e"),
            b'\\' => s.push_str("\\\\"),
            0x20..=0x7e => s.push(b as char),
            _ => s.push_str(&format!("\\x{:02x}", b)),
        }
    }
    s
}

pub fn rss_mb() -> u64 {
    if let Ok(s) = std::fs::read_to_string("/proc/self/statm") {
        if let Some(v) = s.split_whitespace().nth(1) {
            if let Ok(pages) = v.parse::<u64>() {
                return pages * 4096 / (1024 * 1024);
            }
        }
    }
    0
}
