#![allow(dead_code, unused_imports)]
//! snt-mc: bounded exhaustive checks of surf-n-term properties C01..C20.
//!
//! usage: snt-mc <ID> --tier quick|thorough
//!        snt-mc <ID> --replay <file>
//!        snt-mc <ID> --tier T --worker i/n --resume k     (internal)
mod engine;
mod model;
mod prop;

use engine::report::{finish, Ctx, Tier};
use std::time::Instant;

fn main() {
    let args: Vec<String> = std::env::args().collect();
    if args.len() < 2 {
        eprintln!("usage: snt-mc <ID> --tier quick|thorough | --replay <file>");
        std::process::exit(2);
    }
    let id = args[1].to_uppercase();
    let mut tier = match std::env::var("VERIF_TIER").as_deref() {
        Ok("thorough") => Tier::Thorough,
        _ => Tier::Quick,
    };
    let mut replay: Option<String> = None;
    let mut worker: Option<(usize, usize)> = None;
    let mut resume = 0u64;
    let mut extra: Vec<String> = vec![];
    let mut i = 2;
    while i < args.len() {
        match args[i].as_str() {
            "--tier" => {
                i += 1;
                tier = match args.get(i).map(|s| s.as_str()) {
                    Some("quick") => Tier::Quick,
                    Some("thorough") => Tier::Thorough,
                    other => {
                        eprintln!("bad tier {:?}", other);
                        std::process::exit(2);
                    }
                };
            }
            "quick" => tier = Tier::Quick,
            "thorough" => tier = Tier::Thorough,
            "--replay" => {
                i += 1;
                replay = args.get(i).cloned();
            }
            "--worker" => {
                i += 1;
                let s = args.get(i).cloned().unwrap_or_default();
                let mut it = s.split('/');
                let a = it.next().and_then(|x| x.parse().ok());
                let b = it.next().and_then(|x| x.parse().ok());
                match (a, b) {
                    (Some(a), Some(b)) => worker = Some((a, b)),
                    _ => {
                        eprintln!("bad --worker");
                        std::process::exit(2);
                    }
                }
            }
            "--resume" => {
                i += 1;
                resume = args.get(i).and_then(|x| x.parse().ok()).unwrap_or(0);
            }
            other => extra.push(other.to_string()),
        }
        i += 1;
    }
    let seed: u64 = std::env::var("VERIF_SEED")
        .ok()
        .and_then(|s| s.parse::<i64>().ok())
        .map(|v| v as u64)
        .unwrap_or(0);
    let threads = std::env::var("SNT_THREADS")
        .ok()
        .and_then(|s| s.parse().ok())
        .unwrap_or_else(|| std::thread::available_parallelism().map(|n| n.get()).unwrap_or(4));
    engine::panics::install_hook();
    let entry = match prop::lookup(&id) {
        Some(e) => e,
        None => {
            eprintln!("unknown property {id}");
            std::process::exit(2);
        }
    };
    let ctx = Ctx {
        prop: entry.id,
        tier,
        seed,
        threads,
        start: Instant::now(),
        wall_cap_s: std::env::var("SNT_WALL_CAP")
            .ok()
            .and_then(|s| s.parse().ok())
            .unwrap_or(tier.pick(100.0, 2400.0)),
        rss_cap_mb: std::env::var("SNT_RSS_CAP_MB")
            .ok()
            .and_then(|s| s.parse().ok())
            .unwrap_or(24_000),
    };
    let verif_dir = std::env::var("VERIF_DIR").unwrap_or_else(|_| "/verif".to_string());

    if extra.iter().any(|a| a == "--successive") && entry.id == "C17" {
        prop::c17::successive_main();
        std::process::exit(0);
    }
    if extra.iter().any(|a| a == "--terminal") && entry.id == "C20" {
        prop::c20::terminal_main();
        std::process::exit(0);
    }
    if extra.iter().any(|a| a == "--conformance") && entry.id == "C16" {
        prop::c16::conformance_main();
        std::process::exit(0);
    }

    if let Some(path) = replay {
        let text = match std::fs::read_to_string(&path) {
            Ok(t) => t,
            Err(e) => {
                eprintln!("cannot read {path}: {e}");
                std::process::exit(2);
            }
        };
        let v: serde_json::Value = match serde_json::from_str(&text) {
            Ok(v) => v,
            Err(e) => {
                eprintln!("bad replay file: {e}");
                std::process::exit(2);
            }
        };
        let witness = v.get("witness").cloned().unwrap_or(v);
        match (entry.replay)(&witness) {
            Ok((violates, detail)) => {
                println!("{detail}");
                if violates {
                    println!("REPLAY: property {} VIOLATED by this witness", entry.id);
                    std::process::exit(1);
                } else {
                    println!("REPLAY: property {} holds on this witness", entry.id);
                    std::process::exit(0);
                }
            }
            Err(e) => {
                eprintln!("MACHINERY: replay failed: {e}");
                std::process::exit(2);
            }
        }
    }

    if let Some((shard, shards)) = worker {
        let w = engine::workers::WorkerCtx::new(shard, shards, resume);
        match entry.worker {
            Some(f) => {
                f(&ctx, w, &extra);
                std::process::exit(0);
            }
            None => {
                eprintln!("property {} has no worker mode", entry.id);
                std::process::exit(2);
            }
        }
    }

    rayon::ThreadPoolBuilder::new()
        .num_threads(threads)
        .stack_size(16 << 20)
        .build_global()
        .ok();
    let outcome = engine::catch(|| (entry.run)(&ctx));
    let code = match outcome {
        Ok(Ok(report)) => finish(&ctx, &verif_dir, report),
        Ok(Err(e)) => {
            eprintln!("MACHINERY: {e}");
            2
        }
        Err(p) => {
            eprintln!("MACHINERY: harness panicked: {:?}", p);
            2
        }
    };
    std::process::exit(code);
}
