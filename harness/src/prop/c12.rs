//! C12 -- sixel output decodes to the quantised image, exact when colours fit the palette.
//!
//! Every image of several explicitly enumerated spaces is drawn twice on a fresh
//! `SixelImageHandler`; the bytes of the first draw are decoded by the independent reference
//! interpreter `model::sixel` and the decoded picture is compared with the source image (which
//! the harness generated itself, so the library is never asked what the pixels are). The
//! oracle is on the decoded picture only: the library assembles each band from a `HashMap`
//! whose iteration order std randomises, so bytes of different handlers may legitimately differ.
use crate::engine::catch;
use crate::engine::report::{Ctx, Report, Samples, Tier, Violations};
use crate::engine::util::{esc, hash64, hex, unhex};
use crate::model::sixel::{decode, Decoded};
use rayon::prelude::*;
use serde_json::{json, Value};
use std::collections::{BTreeMap, BTreeSet, HashSet};
use std::sync::atomic::{AtomicU64, Ordering};
use std::sync::Mutex;
use surf_n_term::{Image, ImageHandler, Position, SixelImageHandler, Size, SurfaceOwned, RGBA};

type Px = [u8; 4];

/// One image of the space: base pixels, optional crop (a strided view on the same allocation),
/// optional background of the handler.
#[derive(Clone, Debug)]
struct Case {
    sub: &'static str,
    h: usize,
    w: usize,
    px: Vec<Px>,
    crop: Option<(usize, usize, usize, usize)>,
    bg: Option<[u8; 3]>,
    /// the pixels are stored column by column and the image is the transposed view of that buffer
    transposed: bool,
    /// the crop is taken after the uncropped image has been used (hashed and drawn on a scratch handler)
    late: bool,
    /// the image lives in a buffer that held these pixels before (drawn on the same handler, dropped, repainted in
    /// place): shared-handler families only, not serialised
    repaint_of: Option<Vec<Px>>,
}

impl Case {
    fn new(sub: &'static str, h: usize, w: usize, px: Vec<Px>) -> Self {
        Case { sub, h, w, px, crop: None, bg: None, transposed: false, late: false, repaint_of: None }
    }

    /// what a viewer sees: (height, width, row-major pixels)
    fn view(&self) -> (usize, usize, Vec<Px>) {
        match self.crop {
            None => (self.h, self.w, self.px.clone()),
            Some((r0, r1, c0, c1)) => {
                let mut v = Vec::with_capacity((r1 - r0) * (c1 - c0));
                for r in r0..r1 {
                    for c in c0..c1 {
                        v.push(self.px[r * self.w + c]);
                    }
                }
                (r1 - r0, c1 - c0, v)
            }
        }
    }

    fn image(&self) -> Image {
        let w = self.w;
        let px = &self.px;
        let surf = SurfaceOwned::new_with(Size::new(self.h, self.w), |p| {
            let [r, g, b, a] = px[p.row * w + p.col];
            RGBA::new(r, g, b, a)
        });
        let img = if self.transposed {
            let h = self.h;
            let stored = SurfaceOwned::new_with(Size::new(self.w, self.h), |p| {
                let [r, g, b, a] = px[p.col * w + p.row];
                RGBA::new(r, g, b, a)
            });
            let _ = h;
            Image::new(surf_n_term::Surface::transpose(stored))
        } else {
            Image::from(surf)
        };
        match self.crop {
            None => img,
            Some((r0, r1, c0, c1)) => {
                if self.late {
                    let _ = surf_n_term::Surface::hash(&img);
                    let mut scratch = SixelImageHandler::new(None);
                    let _ = scratch.draw(&mut Vec::new(), &img, Position::new(0, 0));
                }
                img.crop(r0..r1, c0..c1)
            }
        }
    }

    fn json(&self) -> Value {
        let bytes: Vec<u8> = self.px.iter().flat_map(|p| p.iter().copied()).collect();
        json!({
            "sub": self.sub, "h": self.h, "w": self.w, "rgba_hex": hex(&bytes),
            "crop_rows_cols": self.crop.map(|(a, b, c, d)| json!([a, b, c, d])),
            "bg": self.bg.map(|b| json!(b)),
            "transposed": self.transposed,
            "late_crop": self.late,
        })
    }

    fn from_json(v: &Value) -> Result<Case, String> {
        let h = v["h"].as_u64().ok_or("h")? as usize;
        let w = v["w"].as_u64().ok_or("w")? as usize;
        let bytes = unhex(v["rgba_hex"].as_str().ok_or("rgba_hex")?);
        if bytes.len() != h * w * 4 {
            return Err("rgba_hex length".into());
        }
        let px = bytes.chunks(4).map(|c| [c[0], c[1], c[2], c[3]]).collect();
        let crop = match v["crop_rows_cols"].as_array() {
            Some(a) if a.len() == 4 => {
                let g = |i: usize| a[i].as_u64().unwrap_or(0) as usize;
                Some((g(0), g(1), g(2), g(3)))
            }
            _ => None,
        };
        let bg = match v["bg"].as_array() {
            Some(a) if a.len() == 3 => Some([a[0].as_u64().unwrap_or(0) as u8, a[1].as_u64().unwrap_or(0) as u8, a[2].as_u64().unwrap_or(0) as u8]),
            _ => None,
        };
        Ok(Case { sub: "replay", h, w, px, crop, bg, transposed: v["transposed"].as_bool().unwrap_or(false), late: v["late_crop"].as_bool().unwrap_or(false), repaint_of: None })
    }
}

/// 0..=255 -> 0..=100, round(c * 100 / 255) in exact arithmetic (there are no ties:
/// 40 c = 51 (2k + 1) has no solution, the left side is even and the right side odd)
fn q(c: u8) -> u8 {
    ((c as u32 * 200 + 255) / 510) as u8
}

fn q3(p: [u8; 3]) -> [u8; 3] {
    [q(p[0]), q(p[1]), q(p[2])]
}

#[derive(Debug, Clone, Copy, PartialEq, Eq, PartialOrd, Ord, Hash)]
enum Expect {
    /// opaque pixel, or fully transparent pixel (= background)
    Exact([u8; 3]),
    /// partially transparent: some convex combination of pixel and background
    Blend { colour: [u8; 3], alpha: u8 },
}

fn expectation(p: Px, bg: [u8; 3]) -> Expect {
    match p[3] {
        255 => Expect::Exact(q3([p[0], p[1], p[2]])),
        0 => Expect::Exact(q3(bg)),
        a => Expect::Blend { colour: q3([p[0], p[1], p[2]]), alpha: a },
    }
}

#[derive(Debug, Clone)]
struct Finding {
    key: String,
    what: String,
}

#[derive(Default, Clone)]
struct Outcome {
    findings: Vec<Finding>,
    /// hash of the decoded picture (0 when nothing decoded)
    picture: u64,
    colours_in_picture: usize,
    exact_checked: bool,
    bytes: usize,
    repeat_introducers: u64,
    blank_repeats: u64,
    blank_literals: u64,
    max_repeat: u32,
    min_repeat: u32,
    registers: usize,
    first: Vec<u8>,
}

/// A sink that takes at most `limit` bytes per `write` call (as a pipe or a tty may).
struct ShortWriter {
    limit: usize,
    data: Vec<u8>,
}

impl std::io::Write for ShortWriter {
    fn write(&mut self, buf: &[u8]) -> std::io::Result<usize> {
        let n = buf.len().min(self.limit);
        self.data.extend_from_slice(&buf[..n]);
        Ok(n)
    }
    fn flush(&mut self) -> std::io::Result<()> {
        Ok(())
    }
}

/// Draw `case` on `handler` twice and evaluate the statement.
fn check(case: &Case, handler: &mut SixelImageHandler) -> Outcome {
    let img = match &case.repaint_of {
        None => case.image(),
        Some(prior) => repainted(case, prior, handler),
    };
    check_img(case, img, handler)
}

/// A frame buffer that is repainted in place: an image over a pixel buffer is drawn on `handler` and dropped (no
/// erase), the buffer - now uniquely owned again - is overwritten with the case's pixels and wrapped into a new image
/// object with the same shape: same allocation, same shape, other content.
fn repainted(case: &Case, prior: &[Px], handler: &mut SixelImageHandler) -> Image {
    use std::sync::Arc;
    let to = |p: &Px| RGBA::new(p[0], p[1], p[2], p[3]);
    let mut data: Arc<[RGBA]> = prior.iter().map(to).collect();
    let shape = surf_n_term::Shape::from(Size::new(case.h, case.w));
    {
        let before = Image::from_parts(data.clone(), shape);
        let _ = catch(|| handler.draw(&mut Vec::new(), &before, Position::new(0, 0)));
    }
    if let Some(slot) = Arc::get_mut(&mut data) {
        for (dst, src) in slot.iter_mut().zip(case.px.iter()) {
            *dst = to(src);
        }
        Image::from_parts(data, shape)
    } else {
        // the handler keeps the buffer alive: a fresh allocation is all a caller can do then
        case.image()
    }
}

fn check_img(case: &Case, img: Image, handler: &mut SixelImageHandler) -> Outcome {
    let mut o = Outcome::default();
    let (vh, vw, vpx) = case.view();
    let mut first: Vec<u8> = vec![];
    let mut second: Vec<u8> = vec![];
    let res = catch(|| {
        let a = handler.draw(&mut first, &img, Position::new(0, 0));
        let b = handler.draw(&mut second, &img, Position::new(3, 5));
        (a.is_ok(), b.is_ok())
    });
    let mut add = |key: &str, what: String| o.findings.push(Finding { key: key.to_string(), what });
    match res {
        Err(p) => {
            add(&p.key(), format!("draw panicked: {} ({}:{})", p.message, p.file, p.line));
            return o;
        }
        Ok((a, b)) => {
            if !a || !b {
                add("draw:error-result", "draw returned Err while writing to a Vec".into());
                return o;
            }
        }
    }
    // the same image once more into a sink that accepts 7 bytes per call, and on a fresh handler into one
    // that accepts 1 byte per call: what arrives must not depend on how much the sink takes at a time
    for (limit, fresh) in [(7usize, false), (1, true)] {
        let mut sink = ShortWriter { limit, data: vec![] };
        let ok = if fresh {
            let mut h2 = SixelImageHandler::new(case.bg.map(|b| RGBA::new(b[0], b[1], b[2], 255)));
            catch(|| h2.draw(&mut sink, &img, Position::new(0, 0)).is_ok())
        } else {
            catch(|| handler.draw(&mut sink, &img, Position::new(0, 0)).is_ok())
        };
        match ok {
            Err(p) => add(&p.key(), format!("draw into a short-writing sink panicked: {} ({}:{})", p.message, p.file, p.line)),
            Ok(false) => add("draw:error-result", "draw returned Err while writing to a sink that accepts a few bytes per call".into()),
            Ok(true) => {
                // a fresh handler may order the colours of a band differently (hash-map order): compare pictures
                let same = if fresh {
                    match (decode(&sink.data), decode(&first)) {
                        (Ok(a), Ok(b)) => a.width == b.width && a.height == b.height && a.pix == b.pix,
                        _ => false,
                    }
                } else {
                    sink.data == first
                };
                if !same {
                    add(
                        "redraw:depends-on-sink",
                        format!(
                            "drawing into a sink that accepts {limit} byte(s) per write call ({} handler) delivered {} bytes, into a Vec {} bytes",
                            if fresh { "fresh" } else { "same" }, sink.data.len(), first.len()
                        ),
                    );
                }
            }
        }
    }
    // erase at a position and erase everywhere (neither emits anything for sixel), then draw again: identical bytes
    {
        let mut scratch = vec![];
        let mut third = vec![];
        let mut fourth = vec![];
        let ok = catch(|| {
            let a = handler.erase(&mut scratch, &img, Some(Position::new(0, 0))).is_ok();
            let b = handler.draw(&mut third, &img, Position::new(0, 0)).is_ok();
            let c = handler.erase(&mut scratch, &img, None).is_ok();
            let d = handler.draw(&mut fourth, &img, Position::new(1, 1)).is_ok();
            a && b && c && d
        });
        match ok {
            Err(p) => add(&p.key(), format!("erase / draw panicked: {} ({}:{})", p.message, p.file, p.line)),
            Ok(false) => add("draw:error-result", "erase or draw returned Err while writing to a Vec".into()),
            Ok(true) => {
                if third != first {
                    add("redraw:bytes-differ-after-erase", "drawing the image again after erase(image, Some(position)) emits other bytes".into());
                }
                if fourth != first {
                    add("redraw:bytes-differ-after-erase-all", "drawing the image again after erase(image, None) emits other bytes".into());
                }
            }
        }
    }
    // the terminal passes every decoded event to its image handler (`ImageHandler::handle`): size reports with two
    // different cell sizes, a key, a wake-up; the sixel handler has nothing to say to any of them and the next draw
    // is the same bytes again
    {
        use surf_n_term::{TerminalEvent, TerminalSize};
        let mut said = vec![];
        let mut fifth = vec![];
        let ok = catch(|| {
            let mut all = true;
            for ev in [
                TerminalEvent::Size(TerminalSize { cells: Size::new(24, 80), pixels: Size::new(480, 800) }),
                TerminalEvent::Resize(TerminalSize { cells: Size::new(24, 80), pixels: Size::new(720, 640) }),
                TerminalEvent::Wake,
                TerminalEvent::Size(TerminalSize { cells: Size::new(30, 100), pixels: Size::new(0, 0) }),
            ] {
                all &= handler.handle(&mut said, &ev).is_ok();
            }
            all && handler.draw(&mut fifth, &img, Position::new(2, 2)).is_ok()
        });
        match ok {
            Err(p) => add(&p.key(), format!("handle / draw panicked: {} ({}:{})", p.message, p.file, p.line)),
            Ok(false) => add("draw:error-result", "handle or draw returned Err while writing to a Vec".into()),
            Ok(true) => {
                if !said.is_empty() {
                    add("handle:writes", format!("the sixel handler wrote {} bytes in answer to size reports / a wake-up", said.len()));
                }
                if fifth != first {
                    add("redraw:bytes-differ-after-events", "drawing the image again after the handler was shown size reports with two cell sizes and a wake-up emits other bytes".into());
                }
            }
        }
    }
    if first != second {
        let at = first.iter().zip(second.iter()).position(|(a, b)| a != b).unwrap_or(first.len().min(second.len()));
        add(
            "redraw:bytes-differ",
            format!("second draw of the same image on the same handler differs at byte {at}: first {} bytes, second {} bytes", first.len(), second.len()),
        );
    }
    let d: Decoded = match decode(&first) {
        Ok(d) => d,
        Err(e) => {
            add("stream:malformed", format!("not one well-formed sixel sequence: {e}; output starts {}", esc(&first[..first.len().min(80)])));
            o.first = first;
            return o;
        }
    };
    for p in &d.problems {
        let kind = p.split(' ').take(2).collect::<Vec<_>>().join("-");
        add(&format!("stream:{kind}"), p.clone());
    }
    let want_h = 6 * (vh / 6);
    match d.raster {
        None => add("raster:not-declared", "no raster attributes".into()),
        Some((_, _, ph, pv)) => {
            if (ph as usize, pv as usize) != (vw, want_h) {
                add("raster:declared-size", format!("declared {ph} wide x {pv} high, image is {vw} wide x {vh} high (expected {vw} x {want_h})"));
            }
        }
    }
    if d.outside_paints > 0 {
        add("raster:paint-outside", format!("{} pixel paints fall outside the declared {}x{} raster", d.outside_paints, d.width, d.height));
    }
    let unpainted = d.unpainted();
    if unpainted > 0 {
        let at = d.pix.iter().position(|p| p.is_none()).unwrap();
        add("raster:unpainted", format!("{unpainted} pixel(s) of the declared raster are never painted, first at row {} col {}", at / d.width.max(1), at % d.width.max(1)));
    }
    if !d.undefined_used.is_empty() {
        add("palette:undefined-register-used", format!("registers {:?} paint without having been defined", d.undefined_used));
    }
    if d.registers.len() > 256 || d.registers.keys().any(|r| *r > 255) {
        add("palette:more-than-256-registers", format!("{} registers defined, highest number {:?}", d.registers.len(), d.registers.keys().last()));
    }
    if !d.redefined_after_use.is_empty() {
        add("palette:register-redefined-after-use", format!("registers {:?}", d.redefined_after_use));
    }

    // ---- exactness
    let bg = case.bg.unwrap_or([0, 0, 0]);
    let exp: Vec<Expect> = vpx.iter().map(|p| expectation(*p, bg)).collect();
    let classes: BTreeSet<Expect> = exp.iter().copied().collect();
    if classes.len() <= 256 && vh * vw < 51200 && d.width == vw && d.height == want_h {
        o.exact_checked = true;
        let mut blend_seen: BTreeMap<Expect, [u8; 3]> = BTreeMap::new();
        let mut diff = 0usize;
        let mut first_diff = None;
        for r in 0..want_h {
            for c in 0..vw {
                let Some(got) = d.get(r, c) else { continue };
                match exp[r * vw + c] {
                    Expect::Exact(want) => {
                        if got != want {
                            diff += 1;
                            first_diff.get_or_insert((r, c, want, got));
                        }
                    }
                    e @ Expect::Blend { colour, .. } => {
                        let bq = q3(bg);
                        for k in 0..3 {
                            let lo = colour[k].min(bq[k]).saturating_sub(1);
                            let hi = colour[k].max(bq[k]) + 1;
                            if got[k] < lo || got[k] > hi {
                                add(
                                    "picture:blend-outside-pixel-background-range",
                                    format!("row {r} col {c}: decoded {:?} is not between pixel {:?} and background {:?} (0-100 scale)", got, colour, bq),
                                );
                                break;
                            }
                        }
                        match blend_seen.get(&e) {
                            None => {
                                blend_seen.insert(e, got);
                            }
                            Some(prev) if *prev != got => {
                                add("picture:blend-inconsistent", format!("row {r} col {c}: same source pixel decodes to {:?} here and {:?} elsewhere", got, prev));
                            }
                            _ => {}
                        }
                    }
                }
            }
        }
        if let Some((r, c, want, got)) = first_diff {
            add(
                "picture:pixel-differs",
                format!("{diff} pixel(s) differ from the source at 0-100 resolution; first at row {r} col {c}: expected {:?} (source {:?}), decoded {:?}", want, vpx[r * vw + c], got),
            );
        }
    }
    let colours: BTreeSet<[u8; 3]> = d.pix.iter().flatten().copied().collect();
    o.colours_in_picture = colours.len();
    o.picture = hash64(&(d.width, d.height, &d.pix));
    o.bytes = first.len();
    o.repeat_introducers = d.repeat_introducers;
    o.blank_repeats = d.blank_repeats;
    o.blank_literals = d.blank_literals;
    o.max_repeat = d.max_repeat;
    o.min_repeat = d.min_repeat;
    o.registers = d.registers.len();
    o.first = first;
    o
}

// --------------------------------------------------------------------------------------------
// spaces
// --------------------------------------------------------------------------------------------

const PAL2: [Px; 2] = [[200, 30, 30, 255], [30, 30, 200, 255]];
const PAL3: [Px; 3] = [[0, 0, 0, 255], [255, 255, 255, 255], [101, 102, 103, 255]];
const PAL4: [Px; 4] = [[0, 0, 0, 255], [255, 255, 255, 255], [101, 102, 103, 255], [255, 0, 0, 255]];

struct Space {
    name: &'static str,
    what: String,
    count: u64,
    gen: Box<dyn Fn(u64) -> Case + Send + Sync>,
}

/// all colourings of an h x w image over a palette; index in base |palette|, pixel 0 least
fn colourings(name: &'static str, h: usize, w: usize, pal: &'static [Px]) -> Space {
    let n = (pal.len() as u64).pow((h * w) as u32);
    Space {
        name,
        what: format!("all {} colourings of a {h} high x {w} wide image over {} colours", n, pal.len()),
        count: n,
        gen: Box::new(move |mut i| {
            let k = pal.len() as u64;
            let px = (0..h * w)
                .map(|_| {
                    let c = pal[(i % k) as usize];
                    i /= k;
                    c
                })
                .collect();
            Case::new(name, h, w, px)
        }),
    }
}

/// single band, every column one of `types` column patterns, widths 1..=maxw
fn column_images(name: &'static str, bands: usize, maxw: usize, types: usize) -> Space {
    let per_w: Vec<u64> = (1..=maxw).map(|w| (types as u64).pow(w as u32)).collect();
    let total: u64 = per_w.iter().sum();
    Space {
        name,
        what: format!(
            "{} band(s), widths 1..={maxw}, every column one of {types} column types (all-A, all-B{}); second band inverted",
            bands,
            if types == 3 { ", top half A / bottom half B" } else { "" }
        ),
        count: total,
        gen: Box::new(move |mut i| {
            let mut w = 1;
            for (k, n) in per_w.iter().enumerate() {
                if i < *n {
                    w = k + 1;
                    break;
                }
                i -= n;
            }
            let h = 6 * bands;
            let mut px = vec![PAL2[0]; h * w];
            for c in 0..w {
                let t = (i % types as u64) as usize;
                i /= types as u64;
                for r in 0..h {
                    let band = r / 6;
                    let mut colour = match t {
                        0 => 0,
                        1 => 1,
                        _ => (r % 6 >= 3) as usize,
                    };
                    if band % 2 == 1 {
                        colour = 1 - colour;
                    }
                    px[r * w + c] = PAL2[colour];
                }
            }
            Case::new(name, h, w, px)
        }),
    }
}

fn unique_colour(i: usize) -> Px {
    // distinct at 0-100 resolution for i < 100*100
    let a = (i % 100) as u32;
    let b = (i / 100 % 100) as u32;
    let up = |v: u32| ((v * 255 + 50) / 100) as u8;
    [up(a), up(b), up((a + b) % 101), 255]
}

fn fixed_cases(tier: Tier) -> Vec<Case> {
    let mut v = vec![];
    // heights not a multiple of six, two patterns
    for h in [6usize, 7, 11, 12, 13] {
        for w in 1..=5usize {
            v.push(Case::new("heights", h, w, (0..h * w).map(|i| PAL4[i % 4]).collect()));
            v.push(Case::new("heights", h, w, (0..h * w).map(unique_colour).collect()));
        }
    }
    // more colours than registers: structural checks only
    v.push(Case::new("gradient", 24, 24, (0..576).map(|i| [(i / 24 * 10) as u8, (i % 24 * 10) as u8, ((i / 24 + i % 24) * 5) as u8, 255]).collect()));
    // exactly 256 colours (still exact) and 257 (no longer promised)
    for n in [255usize, 256, 257, 300] {
        v.push(Case::new("palette-boundary", 18, 17, (0..18 * 17).map(|i| unique_colour(i % n)).collect()));
    }
    // long runs: repeat counts beyond one digit, blank runs
    for w in [13usize, 99, 100, 255, 256, 300] {
        v.push(Case::new("wide", 6, w, (0..6 * w).map(|_| PAL2[0]).collect()));
        v.push(Case::new("wide", 6, w, (0..6 * w).map(|i| PAL2[((i % w) >= w / 2) as usize]).collect()));
        v.push(Case::new("wide", 12, w, (0..12 * w).map(|i| PAL3[((i % w) * 3 / w + i / w / 6) % 3]).collect()));
    }
    // transparency over two configured backgrounds and the default
    let alphas = [0u8, 128, 255];
    for bg in [None, Some([255u8, 255, 255]), Some([30u8, 60, 200])] {
        for code in 0..729u32 {
            let mut c = code;
            let px = (0..6)
                .map(|r| {
                    let a = alphas[(c % 3) as usize];
                    c /= 3;
                    [40 * r as u8 + 10, 250 - 40 * r as u8, 128, a]
                })
                .collect();
            let mut case = Case::new("alpha", 6, 1, px);
            case.bg = bg;
            v.push(case);
        }
        for pat in 0..9usize {
            let mut case = Case::new(
                "alpha",
                12,
                3,
                (0..36).map(|i| [(i * 7) as u8, 200, (255 - i * 5) as u8, alphas[(i + pat / 3 * (i / 3)) % 3 * (pat % 3 + 1) % 3]]).collect(),
            );
            case.bg = bg;
            v.push(case);
        }
    }
    // runs of fully transparent BLACK pixels (the all-zero pixel value) at the start, in the middle and at the end
    for bg in [None, Some([255u8, 255, 255]), Some([30u8, 60, 200])] {
        for code in 0..64u32 {
            let px: Vec<Px> = (0..12).map(|i| if code >> (i % 6) & 1 == 1 { [0, 0, 0, 0] } else { [200, 100 + 10 * (i as u8 / 6), 50, 255] }).collect();
            let mut case = Case::new("transparent-black", 6, 2, px);
            case.bg = bg;
            v.push(case);
        }
    }
    // images whose storage is column-major (the transposed view of a buffer), plain and cropped
    for (h, w) in [(6usize, 1usize), (6, 2), (6, 5), (7, 3), (12, 4), (13, 7)] {
        let px: Vec<Px> = (0..h * w).map(unique_colour).collect();
        let mut case = Case::new("transposed", h, w, px.clone());
        case.transposed = true;
        v.push(case);
        if h >= 8 && w >= 3 {
            let mut case = Case::new("transposed-crop", h, w, px);
            case.transposed = true;
            case.crop = Some((1, h - 1, 1, w));
            v.push(case);
        }
    }
    // cropped (strided) views of one 14 x 7 allocation
    let base: Vec<Px> = (0..14 * 7).map(unique_colour).collect();
    for r0 in 0..14usize {
        for r1 in r0 + 6..=14 {
            for c0 in 0..7usize {
                for c1 in c0 + 1..=7 {
                    let mut case = Case::new("crop", 14, 7, base.clone());
                    case.crop = Some((r0, r1, c0, c1));
                    v.push(case);
                }
            }
        }
    }
    // every value of every channel, alone and next to its successor
    for ch in 0..3usize {
        for val in 0..=255u8 {
            let mut p = [0u8, 0, 0, 255];
            p[ch] = val;
            v.push(Case::new("channel-values", 6, 1, vec![p; 6]));
            if val < 255 {
                let mut p2 = p;
                p2[ch] = val + 1;
                v.push(Case::new("channel-values", 6, 2, (0..12).map(|i| if i % 2 == 0 { p } else { p2 }).collect()));
            }
        }
    }
    // beyond the sub-sampling threshold (h*w >= 51200): structure only
    if tier == Tier::Thorough {
        v.push(Case::new("large", 240, 216, (0..240 * 216).map(|i| PAL2[(i / 7 + i / 216) % 2]).collect()));
    }
    v.push(Case::new("large", 216, 240, (0..240 * 216).map(|i| PAL3[(i / 5 + i / 240) % 3]).collect()));
    // wider than 65536 columns (structure only: beyond the sub-sampling threshold)
    let w = 65_600usize;
    v.push(Case::new("very-wide", 6, w, (0..6 * w).map(|i| PAL2[((i % w) >= 65_540) as usize]).collect()));
    // rows cut off by the truncation to a multiple of six hold colours of their own: the visible
    // rows have exactly 256 colours (exact reproduction is promised), all rows together 576
    v.push(Case::new(
        "hidden-rows-colours",
        11,
        64,
        (0..11 * 64)
            .map(|i| if i < 6 * 64 { unique_colour(i % 256) } else { unique_colour(300 + (i - 6 * 64)) })
            .collect(),
    ));
    v.push(Case::new(
        "hidden-rows-colours",
        7,
        300,
        (0..7 * 300).map(|i| if i < 6 * 300 { unique_colour(i % 200) } else { unique_colour(260 + (i - 6 * 300)) }).collect(),
    ));
    v
}

fn spaces(tier: Tier) -> Vec<Space> {
    let mut v = vec![
        colourings("6x1-3colours", 6, 1, &PAL3),
        colourings("6x2-3colours", 6, 2, &PAL3),
        colourings("6x3-2colours", 6, 3, &PAL2),
        column_images("columns-1band-2types", 1, 12, 2),
        column_images("columns-1band-3types", 1, 8, 3),
        column_images("columns-2bands-3types", 2, 6, 3),
    ];
    if tier == Tier::Thorough {
        v.push(colourings("6x2-4colours", 6, 2, &PAL4));
        v.push(colourings("6x4-2colours", 6, 4, &PAL2));
        v.push(colourings("12x1-3colours", 12, 1, &PAL3));
        v.push(colourings("12x2-2colours", 12, 2, &PAL2));
        v.push(column_images("columns-1band-2types-w16", 1, 16, 2));
    }
    let fixed = fixed_cases(tier);
    v.push(Space {
        name: "fixed",
        what: "heights {6,7,11,12,13} x widths 1..=5 x 2 patterns; 24x24 gradient (576 colours); 255/256/257/300 colours; wide runs; alpha {0,128,255}^6 x 3 backgrounds; all crops with >= 6 rows of a 14x7 image; every value of each channel; images beyond the sub-sampling threshold".into(),
        count: fixed.len() as u64,
        gen: Box::new(move |i| fixed[i as usize].clone()),
    });
    v
}

/// families replayed on ONE handler: every image once, then every image again
fn shared_family(name: &str) -> Vec<Case> {
    match name {
        "columns" => {
            let s = column_images("shared", 1, 7, 3);
            (0..s.count).map(|i| (s.gen)(i)).collect()
        }
        _ => {
            // same pixel sequence under different shapes, and crops with equal content
            let px: Vec<Px> = (0..72).map(|i| PAL3[(i * i + i / 5) % 3]).collect();
            let mut v = vec![];
            for (h, w) in [(6, 12), (12, 6), (18, 4), (24, 3), (36, 2), (72, 1), (8, 9), (9, 8)] {
                v.push(Case::new("shared", h, w, px.clone()));
            }
            for c0 in 0..6 {
                let mut c = Case::new("shared", 6, 12, px.clone());
                c.crop = Some((0, 6, c0, c0 + 6));
                v.push(c);
            }
            // the same pixel sequence, same height and width, but STORED column by column: another picture
            // over an identical buffer (what a viewer sees at (r, c) is item c*h + r of the sequence)
            for (h, w) in [(6usize, 12usize), (12, 6), (8, 9), (9, 8)] {
                let seen: Vec<Px> = (0..h * w).map(|k| px[(k % w) * h + k / w]).collect();
                let mut c = Case::new("shared", h, w, seen);
                c.transposed = true;
                v.push(c);
            }
            // a buffer repainted in place between two draws (same allocation, same shape, other pixels)
            for (h, w) in [(6usize, 12usize), (12, 6)] {
                let other: Vec<Px> = (0..h * w).map(|i| PAL3[(i * 7 + i / 3 + 1) % 3]).collect();
                let mut c = Case::new("shared", h, w, other);
                c.repaint_of = Some(px.clone());
                v.push(c);
            }
            // a crop taken from an image that has been drawn already (whatever an image object memoises on
            // first use must not be inherited by what is derived from it)
            for (tr, r0, c0) in [(false, 3usize, 1usize), (true, 2, 0), (false, 6, 0)] {
                let mut c = Case::new("shared", 12, 6, px.clone());
                c.crop = Some((r0, r0 + 6, c0, c0 + 4));
                c.late = true;
                c.transposed = tr;
                v.push(c);
            }
            v
        }
    }
}

struct Tally {
    evaluations: AtomicU64,
    exact: AtomicU64,
    structural_only: AtomicU64,
    with_repeat: AtomicU64,
    with_blank_repeat: AtomicU64,
    with_blank_literal: AtomicU64,
    repeat_3_or_less: AtomicU64,
    max_repeat: AtomicU64,
    max_registers: AtomicU64,
    bytes: AtomicU64,
    pictures: Vec<Mutex<HashSet<u64>>>,
}

impl Tally {
    fn new() -> Self {
        Tally {
            evaluations: AtomicU64::new(0),
            exact: AtomicU64::new(0),
            structural_only: AtomicU64::new(0),
            with_repeat: AtomicU64::new(0),
            with_blank_repeat: AtomicU64::new(0),
            with_blank_literal: AtomicU64::new(0),
            repeat_3_or_less: AtomicU64::new(0),
            max_repeat: AtomicU64::new(0),
            max_registers: AtomicU64::new(0),
            bytes: AtomicU64::new(0),
            pictures: (0..256).map(|_| Mutex::new(HashSet::new())).collect(),
        }
    }

    fn record(&self, o: &Outcome) {
        self.evaluations.fetch_add(1, Ordering::Relaxed);
        if o.exact_checked {
            self.exact.fetch_add(1, Ordering::Relaxed);
        } else {
            self.structural_only.fetch_add(1, Ordering::Relaxed);
        }
        if o.repeat_introducers > 0 {
            self.with_repeat.fetch_add(1, Ordering::Relaxed);
            if o.min_repeat <= 3 {
                self.repeat_3_or_less.fetch_add(1, Ordering::Relaxed);
            }
        }
        if o.blank_repeats > 0 {
            self.with_blank_repeat.fetch_add(1, Ordering::Relaxed);
        }
        if o.blank_literals > 0 {
            self.with_blank_literal.fetch_add(1, Ordering::Relaxed);
        }
        self.max_repeat.fetch_max(o.max_repeat as u64, Ordering::Relaxed);
        self.max_registers.fetch_max(o.registers as u64, Ordering::Relaxed);
        self.bytes.fetch_add(o.bytes as u64, Ordering::Relaxed);
        if o.colours_in_picture >= 2 {
            self.pictures[(o.picture >> 56) as usize].lock().unwrap().insert(o.picture);
        }
    }

    fn distinct(&self) -> u64 {
        self.pictures.iter().map(|s| s.lock().unwrap().len() as u64).sum()
    }
}

fn handler_for(case: &Case) -> SixelImageHandler {
    SixelImageHandler::new(case.bg.map(|b| RGBA::new(b[0], b[1], b[2], 255)))
}

pub fn run(ctx: &Ctx) -> Result<Report, String> {
    let viol = Violations::new();
    let samples = Samples::new(ctx.seed);
    let tally = Tally::new();
    let mut capped = false;
    let mut sizes = vec![];
    // keys already reported with a single-image witness (not repeated for the shared handlers)
    let isolated_keys: Mutex<BTreeSet<String>> = Mutex::new(BTreeSet::new());
    for sp in spaces(ctx.tier) {
        if ctx.over_cap() {
            capped = true;
            sizes.push(json!({"space": sp.name, "what": sp.what, "images": sp.count, "done": false}));
            continue;
        }
        let before = tally.distinct();
        (0..sp.count).into_par_iter().for_each(|i| {
            let case = (sp.gen)(i);
            let mut h = handler_for(&case);
            let o = check(&case, &mut h);
            tally.record(&o);
            for f in &o.findings {
                isolated_keys.lock().unwrap().insert(f.key.clone());
                viol.add(f.key.clone(), format!("{} [{} image #{i}, {} high x {} wide]", f.what, sp.name, case.view().0, case.view().1), case.json());
            }
            let pick = (i.wrapping_mul(0x9e37_79b9).wrapping_add(ctx.seed)) % sp.count.max(1);
            if pick < 1 && sp.count > 2 || (sp.name == "fixed" && i % 997 == ctx.seed % 997) {
                samples.force(json!({
                    "space": sp.name, "index": i, "h": case.view().0, "w": case.view().1,
                    "output_bytes": o.bytes, "output_head": esc(&o.first[..o.first.len().min(100)]),
                    "registers": o.registers, "colours_in_decoded_picture": o.colours_in_picture,
                    "compared_pixel_for_pixel": o.exact_checked,
                }));
            }
        });
        sizes.push(json!({"space": sp.name, "what": sp.what, "images": sp.count, "done": true, "new_distinct_pictures": tally.distinct() - before}));
    }

    // ---- many images on ONE handler, then all of them again: the cache must not mix them up
    let mut shared_images = 0u64;
    for fam in ["columns", "shapes"] {
        let cases = shared_family(fam);
        let mut handler = SixelImageHandler::new(None);
        let mut firsts: Vec<Vec<u8>> = vec![];
        for (i, case) in cases.iter().enumerate() {
            let o = check(case, &mut handler);
            tally.record(&o);
            shared_images += 1;
            for f in &o.findings {
                if isolated_keys.lock().unwrap().contains(&f.key) {
                    continue;
                }
                viol.add(format!("shared:{}", f.key), format!("{} [family {fam}, image #{i} on a handler that drew #0..#{i} before]", f.what), json!({"sub": "shared", "family": fam, "index": i}));
            }
            firsts.push(o.first);
        }
        for (i, case) in cases.iter().enumerate() {
            let mut again = vec![];
            let img = case.image();
            let _ = catch(|| handler.draw(&mut again, &img, Position::new(1, 1)));
            if again != firsts[i] {
                viol.add(
                    "shared:redraw:bytes-differ",
                    format!("family {fam}: image #{i} drawn again after {} other images emits different bytes", cases.len()),
                    json!({"sub": "shared", "family": fam, "index": i, "redraw_after_all": true}),
                );
            }
        }
    }

    // ---- logging switched on: the shared families once more on this thread under a subscriber that formats every
    // log line of the handler
    crate::engine::logging::with_logging(|| {
        for fam in ["columns", "shapes"] {
            let mut handler = SixelImageHandler::new(None);
            for (i, case) in shared_family(fam).iter().enumerate() {
                let o = check(case, &mut handler);
                shared_images += 1;
                for f in &o.findings {
                    viol.add(format!("logging:{}", f.key), format!("with a tracing subscriber listening: {} [family {fam}, image #{i}]", f.what), json!({"sub": "shared", "family": fam, "index": i, "logging": true}));
                }
            }
        }
    });
    let mut r = Report::new("exploration");
    r.set("evaluations", tally.evaluations.load(Ordering::Relaxed))
        .set("distinct_nontrivial", tally.distinct())
        .set(
            "rule",
            "one evaluation = one image drawn twice on a SixelImageHandler, first output decoded by the reference interpreter; \
             distinct_nontrivial = number of distinct decoded pictures (raster size + colour of every pixel) that contain at least two colours",
        )
        .set("samples", samples.into_vec())
        .set("exhaustive", !capped)
        .set("capped", capped)
        .set("spaces", sizes)
        .set("compared_pixel_for_pixel", tally.exact.load(Ordering::Relaxed))
        .set("structure_checked_only", tally.structural_only.load(Ordering::Relaxed))
        .set("outputs_using_repeat_introducer", tally.with_repeat.load(Ordering::Relaxed))
        .set("outputs_with_repeat_count_3_or_less", tally.repeat_3_or_less.load(Ordering::Relaxed))
        .set("outputs_using_blank_run_repeat", tally.with_blank_repeat.load(Ordering::Relaxed))
        .set("outputs_using_literal_blank_sixels", tally.with_blank_literal.load(Ordering::Relaxed))
        .set("largest_repeat_count", tally.max_repeat.load(Ordering::Relaxed))
        .set("largest_register_count", tally.max_registers.load(Ordering::Relaxed))
        .set("output_bytes_decoded", tally.bytes.load(Ordering::Relaxed))
        .set("images_on_shared_handlers", shared_images)
        .set("raw_violations", viol.raw_count());
    r.assume("sixel semantics per DEC: bit 0 of a data byte is the top pixel, '$' returns to column 0, '-' moves down six pixels, '!n' repeats the next data byte, '#n;2;r;g;b' defines a register in RGB 0-100; clear bits leave pixels untouched");
    r.assume("0-100 resolution of a channel value c is round(100 c / 255); fully transparent pixels show the background (default black)");
    r.assume("for partially transparent pixels the statement does not say how compositing is computed, so only 'between pixel and background (+-1)' and 'same source pixel -> same colour' are required");
    r.assume("images with h*w >= 51200 (palette built from a pseudo-random sub-sample) and more than 256 colours are checked for structure only");
    r.violations = viol.into_vec();
    Ok(r)
}

pub fn replay(w: &Value) -> Result<(bool, String), String> {
    if w["logging"] == json!(true) {
        let mut w2 = w.clone();
        w2["logging"] = json!(false);
        return crate::engine::logging::with_logging(|| replay(&w2));
    }
    let mut text = String::new();
    let o = if w["sub"] == json!("shared") {
        let fam = w["family"].as_str().ok_or("family")?;
        let idx = w["index"].as_u64().ok_or("index")? as usize;
        let cases = shared_family(fam);
        let mut handler = SixelImageHandler::new(None);
        let mut outs = vec![];
        for case in &cases[..=idx.min(cases.len() - 1)] {
            outs.push(check(case, &mut handler));
        }
        let mut o = outs.pop().ok_or("empty family")?;
        if w["redraw_after_all"] == json!(true) {
            for case in &cases[idx + 1..] {
                check(case, &mut handler);
            }
            let mut again = vec![];
            let img = cases[idx].image();
            let _ = catch(|| handler.draw(&mut again, &img, Position::new(1, 1)));
            if again != o.first {
                o.findings.push(Finding { key: "redraw:bytes-differ".into(), what: format!("image #{idx} drawn again after the whole family: {} bytes vs {} bytes", again.len(), o.first.len()) });
            }
        }
        text.push_str(&format!("family {fam}, image #{idx} after drawing #0..#{idx} on one handler\n"));
        o
    } else {
        let case = Case::from_json(w)?;
        let (vh, vw, vpx) = case.view();
        text.push_str(&format!("image {vh} high x {vw} wide, background {:?}\n", case.bg));
        if vpx.len() <= 64 {
            let bg = case.bg.unwrap_or([0, 0, 0]);
            text.push_str("expected picture (0-100 scale), row by row:\n");
            for r in 0..6 * (vh / 6) {
                let row: Vec<String> = (0..vw).map(|c| format!("{:?}", expectation(vpx[r * vw + c], bg))).collect();
                text.push_str(&format!("  {}\n", row.join(" ")));
            }
        }
        let mut h = handler_for(&case);
        check(&case, &mut h)
    };
    text.push_str(&format!("output ({} bytes): {}\n", o.first.len(), esc(&o.first[..o.first.len().min(400)])));
    if let Ok(d) = decode(&o.first) {
        text.push_str(&format!("decoded: raster {:?}, {} registers, {} unpainted, {} paints outside\n", d.raster, d.registers.len(), d.unpainted(), d.outside_paints));
        if d.pix.len() <= 64 {
            for r in 0..d.height {
                let row: Vec<String> = (0..d.width).map(|c| format!("{:?}", d.get(r, c))).collect();
                text.push_str(&format!("  {}\n", row.join(" ")));
            }
        }
    }
    for f in &o.findings {
        text.push_str(&format!("VIOLATION [{}]: {}\n", f.key, f.what));
    }
    if o.findings.is_empty() {
        text.push_str("decoded picture satisfies the statement on this witness\n");
    }
    Ok((!o.findings.is_empty(), text))
}
