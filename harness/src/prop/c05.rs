//! C05 -- encoded commands mean exactly what was commanded to a VT/xterm interpreter.
//!
//! Complete sweeps of `TTYEncoder::encode` over every `TerminalCommand` variant x parameter
//! lattices x {TrueColor, EightBit, Gray} x kitty_keyboard x glyphs. The emitted bytes are
//! parsed by the independent ECMA-48/xterm interpreter of `model::ecma48` and compared with
//! the command's denotation (written here, from the command's documentation and the VT/xterm
//! meaning of the operation): exact parameters, no stray bytes, no panic. Face changes are
//! compared semantically: the SGR parameters are applied by the reference SGR machine to
//! three different start renditions and the result must be exactly the requested one.
//! All ordered pairs of representative commands are encoded into one stream by one encoder
//! and must parse into the concatenation of the two operation lists.
use crate::engine::catch;
use crate::engine::report::{Ctx, Report, Samples, Tier, Violations};
use crate::engine::util::esc;
use crate::model::ecma48::{self, Colour, Op, Rendition, Token, Underline};
use rayon::prelude::*;
use serde::{Deserialize, Serialize};
use serde_json::{json, Value};
use std::sync::atomic::{AtomicU64, Ordering};
use std::sync::Arc;
use surf_n_term::encoder::{ColorDepth, Encoder, TTYEncoder};
use surf_n_term::{
    DecMode, Face, FaceAttrs, FaceModify, Image, Position, Shape, TerminalCaps, TerminalColor,
    Color, TerminalCommand, UnderlineStyle, RGBA,
};

// ---------------------------------------------------------------------------------------
// command descriptions (serialisable, so that a witness can be replayed)
// ---------------------------------------------------------------------------------------

type Rgb = [u8; 3];

#[derive(Debug, Clone, PartialEq, Serialize, Deserialize)]
enum Spec {
    Char(u32),
    /// flags: bit0 bold, bit1 italic, bit2 blink, bit3 reverse, bit4 strike; ul: 0 none .. 5 dashed
    Face {
        #[serde(default, skip_serializing_if = "Option::is_none")]
        fg: Option<Rgb>,
        #[serde(default, skip_serializing_if = "Option::is_none")]
        bg: Option<Rgb>,
        flags: u8,
        ul: u8,
    },
    FaceModify {
        reset: bool,
        #[serde(default, skip_serializing_if = "Option::is_none")]
        fg: Option<Rgb>,
        #[serde(default, skip_serializing_if = "Option::is_none")]
        bg: Option<Rgb>,
        #[serde(default, skip_serializing_if = "Option::is_none")]
        ul: Option<u8>,
        #[serde(default, skip_serializing_if = "Option::is_none")]
        ulc: Option<Rgb>,
        #[serde(default, skip_serializing_if = "Option::is_none")]
        bold: Option<bool>,
        #[serde(default, skip_serializing_if = "Option::is_none")]
        italic: Option<bool>,
        #[serde(default, skip_serializing_if = "Option::is_none")]
        blink: Option<bool>,
        #[serde(default, skip_serializing_if = "Option::is_none")]
        strike: Option<bool>,
    },
    FaceGet,
    /// mode: index into MODES
    DecModeSet { enable: bool, mode: usize },
    DecModeGet(usize),
    CursorGet,
    CursorTo { row: u64, col: u64 },
    CursorMove { row: i32, col: i32 },
    CursorSave,
    CursorRestore,
    EraseLineLeft,
    EraseLineRight,
    EraseLine,
    EraseScreen,
    EraseChars(u64),
    Scroll(i32),
    ScrollRegion { start: u64, end: u64 },
    Reset,
    Image,
    ImageErase(bool),
    Termcap(Vec<String>),
    /// name: -1 background, -2 foreground, n >= 0 palette entry n
    Color { name: i64, color: Option<Rgb> },
    Title(String),
    DeviceAttrs,
    KeyboardLevel(u64),
    Raw(Vec<u8>),
}

/// DEC private modes: the library's variant and the number xterm ctlseqs / the linked
/// specifications give it.
const MODES: [(&str, DecMode, u64); 9] = [
    ("VisibleCursor", DecMode::VisibleCursor, 25),
    ("AutoWrap", DecMode::AutoWrap, 7),
    ("SixelScrolling", DecMode::SixelScrolling, 80),
    ("MouseReport", DecMode::MouseReport, 1000),
    ("MouseMotions", DecMode::MouseMotions, 1003),
    ("MouseSGR", DecMode::MouseSGR, 1006),
    ("AltScreen", DecMode::AltScreen, 1049),
    ("SynchronizedOutput", DecMode::SynchronizedOutput, 2026),
    ("BracketedPaste", DecMode::BracketedPaste, 2004),
];
const ALT_SCREEN: usize = 6;
/// Keyboard level the library pushes when it enters the alternate screen
/// (`decoder::KEYBOARD_LEVEL`, crate private; a configuration constant, not computed behaviour):
/// 0b0101 = disambiguate escape codes | report alternate keys.
const ALT_SCREEN_KEYBOARD_LEVEL: u64 = 0b0101;

#[derive(Debug, Clone, Copy, PartialEq, Serialize, Deserialize)]
struct Cfg {
    /// 0 TrueColor, 1 EightBit, 2 Gray
    depth: u8,
    kitty: bool,
    glyphs: bool,
}

impl Cfg {
    fn all() -> Vec<Cfg> {
        let mut v = vec![];
        for depth in 0..3 {
            for kitty in [false, true] {
                for glyphs in [false, true] {
                    v.push(Cfg { depth, kitty, glyphs });
                }
            }
        }
        v
    }
    fn caps(&self) -> TerminalCaps {
        TerminalCaps {
            depth: match self.depth {
                0 => ColorDepth::TrueColor,
                1 => ColorDepth::EightBit,
                _ => ColorDepth::Gray,
            },
            glyphs: self.glyphs,
            kitty_keyboard: self.kitty,
        }
    }
}

fn rgba(c: Rgb) -> RGBA {
    RGBA::new(c[0], c[1], c[2], 255)
}

fn ul_style(n: u8) -> UnderlineStyle {
    match n {
        1 => UnderlineStyle::Straight,
        2 => UnderlineStyle::Double,
        3 => UnderlineStyle::Curly,
        4 => UnderlineStyle::Dotted,
        5 => UnderlineStyle::Dashed,
        _ => UnderlineStyle::None,
    }
}

fn ul_model(n: u8) -> Underline {
    match n {
        1 => Underline::Single,
        2 => Underline::Double,
        3 => Underline::Curly,
        4 => Underline::Dotted,
        5 => Underline::Dashed,
        _ => Underline::None,
    }
}

fn attrs(flags: u8, ul: u8) -> FaceAttrs {
    let mut a: FaceAttrs = if ul <= 5 { ul_style(ul).into() } else { FaceAttrs::EMPTY };
    for (bit, f) in [
        (1, FaceAttrs::BOLD),
        (2, FaceAttrs::ITALIC),
        (4, FaceAttrs::BLINK),
        (8, FaceAttrs::REVERSE),
        (16, FaceAttrs::STRIKE),
    ] {
        if flags & bit != 0 {
            a = a.insert(f);
        }
    }
    // 6 and 7: the two values of the three-bit underline field that are no style, reachable through the public `|=`
    // and `^=` operators (double |= dotted, curly ^= dotted), applied last; the library reads them as "no underline"
    match ul {
        6 => {
            a |= UnderlineStyle::Double.into();
            a |= UnderlineStyle::Dotted.into();
        }
        7 => {
            a |= UnderlineStyle::Curly.into();
            a ^= UnderlineStyle::Dotted.into();
        }
        _ => {}
    }
    a
}

fn tiny_image() -> Image {
    let data: Arc<[RGBA]> = Arc::from(vec![RGBA::new(1, 2, 3, 255)]);
    Image::from_parts(data, Shape { start: 0, end: 1, width: 1, height: 1, row_stride: 1, col_stride: 1 })
}

impl Spec {
    fn name(&self) -> &'static str {
        match self {
            Spec::Char(_) => "Char",
            Spec::Face { .. } => "Face",
            Spec::FaceModify { .. } => "FaceModify",
            Spec::FaceGet => "FaceGet",
            Spec::DecModeSet { .. } => "DecModeSet",
            Spec::DecModeGet(_) => "DecModeGet",
            Spec::CursorGet => "CursorGet",
            Spec::CursorTo { .. } => "CursorTo",
            Spec::CursorMove { .. } => "CursorMove",
            Spec::CursorSave => "CursorSave",
            Spec::CursorRestore => "CursorRestore",
            Spec::EraseLineLeft => "EraseLineLeft",
            Spec::EraseLineRight => "EraseLineRight",
            Spec::EraseLine => "EraseLine",
            Spec::EraseScreen => "EraseScreen",
            Spec::EraseChars(_) => "EraseChars",
            Spec::Scroll(_) => "Scroll",
            Spec::ScrollRegion { .. } => "ScrollRegion",
            Spec::Reset => "Reset",
            Spec::Image => "Image",
            Spec::ImageErase(_) => "ImageErase",
            Spec::Termcap(_) => "Termcap",
            Spec::Color { .. } => "Color",
            Spec::Title(_) => "Title",
            Spec::DeviceAttrs => "DeviceAttrs",
            Spec::KeyboardLevel(_) => "KeyboardLevel",
            Spec::Raw(_) => "Raw",
        }
    }

    /// commands whose output depends on a parameter value
    fn parametric(&self) -> bool {
        !matches!(
            self,
            Spec::FaceGet
                | Spec::CursorGet
                | Spec::CursorSave
                | Spec::CursorRestore
                | Spec::EraseLineLeft
                | Spec::EraseLineRight
                | Spec::EraseLine
                | Spec::EraseScreen
                | Spec::Reset
                | Spec::Image
                | Spec::ImageErase(_)
                | Spec::DeviceAttrs
        )
    }

    fn command(&self) -> TerminalCommand {
        match self.clone() {
            Spec::Char(c) => TerminalCommand::Char(char::from_u32(c).unwrap_or('?')),
            Spec::Face { fg, bg, flags, ul } => {
                TerminalCommand::Face(Face::new(fg.map(rgba), bg.map(rgba), attrs(flags, ul)))
            }
            Spec::FaceModify { reset, fg, bg, ul, ulc, bold, italic, blink, strike } => {
                TerminalCommand::FaceModify(FaceModify {
                    reset,
                    fg: fg.map(rgba),
                    bg: bg.map(rgba),
                    underline: ul.map(ul_style),
                    underline_color: ulc.map(rgba),
                    bold,
                    italic,
                    blink,
                    strike,
                })
            }
            Spec::FaceGet => TerminalCommand::FaceGet,
            Spec::DecModeSet { enable, mode } => TerminalCommand::DecModeSet { enable, mode: MODES[mode].1 },
            Spec::DecModeGet(mode) => TerminalCommand::DecModeGet(MODES[mode].1),
            Spec::CursorGet => TerminalCommand::CursorGet,
            Spec::CursorTo { row, col } => TerminalCommand::CursorTo(Position::new(row as usize, col as usize)),
            Spec::CursorMove { row, col } => TerminalCommand::CursorMove { row, col },
            Spec::CursorSave => TerminalCommand::CursorSave,
            Spec::CursorRestore => TerminalCommand::CursorRestore,
            Spec::EraseLineLeft => TerminalCommand::EraseLineLeft,
            Spec::EraseLineRight => TerminalCommand::EraseLineRight,
            Spec::EraseLine => TerminalCommand::EraseLine,
            Spec::EraseScreen => TerminalCommand::EraseScreen,
            Spec::EraseChars(n) => TerminalCommand::EraseChars(n as usize),
            Spec::Scroll(n) => TerminalCommand::Scroll(n),
            Spec::ScrollRegion { start, end } => {
                TerminalCommand::ScrollRegion { start: start as usize, end: end as usize }
            }
            Spec::Reset => TerminalCommand::Reset,
            Spec::Image => TerminalCommand::Image(tiny_image(), Position::new(1, 2)),
            Spec::ImageErase(with_pos) => {
                TerminalCommand::ImageErase(tiny_image(), with_pos.then(|| Position::new(1, 2)))
            }
            Spec::Termcap(names) => TerminalCommand::Termcap(names),
            Spec::Color { name, color } => TerminalCommand::Color {
                name: match name {
                    -1 => TerminalColor::Background,
                    -2 => TerminalColor::Foreground,
                    n => TerminalColor::Palette(n as usize),
                },
                color: color.map(rgba),
            },
            Spec::Title(t) => TerminalCommand::Title(t),
            Spec::DeviceAttrs => TerminalCommand::DeviceAttrs,
            Spec::KeyboardLevel(n) => TerminalCommand::KeyboardLevel(n as usize),
            Spec::Raw(d) => TerminalCommand::Raw(d),
        }
    }
}

// ---------------------------------------------------------------------------------------
// denotation
// ---------------------------------------------------------------------------------------

/// The three renditions a face change is applied to: everything off, everything on, mixed.
fn starts() -> [Rendition; 3] {
    [
        Rendition::default(),
        Rendition {
            fg: Colour::Rgb(9, 8, 7),
            bg: Colour::Index(3),
            underline_colour: Colour::Rgb(1, 2, 3),
            bold: true,
            italic: true,
            blink: true,
            reverse: true,
            strike: true,
            underline: Underline::Curly,
        },
        Rendition {
            fg: Colour::Index(200),
            bg: Colour::Rgb(250, 0, 1),
            underline_colour: Colour::Default,
            bold: true,
            italic: false,
            blink: true,
            reverse: false,
            strike: false,
            underline: Underline::Single,
        },
    ]
}

/// Is `got` what the statement demands for a colour slot?
/// true colour: exactly the requested colour; reduced depths: one palette entry.
/// The 16-colour ("Gray") depth has no palette form for the underline colour in SGR, the
/// statement is silent there, so leaving the slot alone is accepted as well.
fn colour_ok(depth: u8, requested: Option<Rgb>, underline_slot: bool, base: Colour, got: Colour) -> bool {
    match requested {
        None => got == base,
        Some(c) => match depth {
            0 => got == Colour::Rgb(c[0], c[1], c[2]),
            1 => matches!(got, Colour::Index(_)),
            _ => matches!(got, Colour::Index(_)) || (underline_slot && got == base),
        },
    }
}

fn colour_want(depth: u8, requested: Option<Rgb>, underline_slot: bool, base: Colour) -> String {
    match requested {
        None => format!("{:?}", base),
        Some(c) => match depth {
            0 => format!("Rgb({}, {}, {})", c[0], c[1], c[2]),
            2 if underline_slot => format!("Index(_) or {:?}", base),
            _ => "Index(_)".to_string(),
        },
    }
}

/// Check a face change: `ops` must be SGR only; applied to every start rendition the result
/// must be the requested one. Returns `(slot, detail)` of the first difference.
fn check_rendition(spec: &Spec, cfg: &Cfg, ops: &[Op]) -> Result<(), (String, String)> {
    for start in starts() {
        let mut r = start;
        for op in ops {
            match op {
                Op::Sgr(params) => {
                    let notes = ecma48::sgr_apply(&mut r, params);
                    if !notes.is_empty() {
                        return Err(("foreign-sgr-code".into(), format!("SGR parameters without a requested meaning: {:?}", notes)));
                    }
                }
                other => return Err(("non-sgr-op".into(), format!("face change emitted {:?}", other))),
            }
        }
        let (reset, fg, bg, ulc, want_bools, want_ul): (bool, _, _, _, [Option<bool>; 5], Option<Underline>) = match spec {
            Spec::Face { fg, bg, flags, ul } => (
                true,
                *fg,
                *bg,
                None,
                [
                    Some(flags & 1 != 0),
                    Some(flags & 2 != 0),
                    Some(flags & 4 != 0),
                    Some(flags & 8 != 0),
                    Some(flags & 16 != 0),
                ],
                Some(ul_model(*ul)),
            ),
            Spec::FaceModify { reset, fg, bg, ul, ulc, bold, italic, blink, strike } => {
                (*reset, *fg, *bg, *ulc, [*bold, *italic, *blink, None, *strike], ul.map(ul_model))
            }
            _ => unreachable!(),
        };
        let base = if reset { Rendition::default() } else { start };
        let got_bools = [r.bold, r.italic, r.blink, r.reverse, r.strike];
        let base_bools = [base.bold, base.italic, base.blink, base.reverse, base.strike];
        for (i, name) in ["bold", "italic", "blink", "reverse", "strike"].iter().enumerate() {
            let want = want_bools[i].unwrap_or(base_bools[i]);
            if got_bools[i] != want {
                return Err((
                    name.to_string(),
                    format!("{name}: requested {:?} on start {:?} -> want {want}, interpreter has {}", want_bools[i], start, got_bools[i]),
                ));
            }
        }
        let want_u = want_ul.unwrap_or(base.underline);
        if r.underline != want_u {
            return Err(("underline".into(), format!("underline style: want {:?}, interpreter has {:?} (start {:?})", want_u, r.underline, start)));
        }
        for (name, req, slot, b, g) in [
            ("fg", fg, false, base.fg, r.fg),
            ("bg", bg, false, base.bg, r.bg),
            ("underline-colour", ulc, true, base.underline_colour, r.underline_colour),
        ] {
            if !colour_ok(cfg.depth, req, slot, b, g) {
                return Err((
                    name.to_string(),
                    format!("{name}: want {}, interpreter has {:?} (start {:?})", colour_want(cfg.depth, req, slot, b), g, start),
                ));
            }
        }
    }
    Ok(())
}

fn abs(n: i32) -> u64 {
    (n as i64).unsigned_abs()
}

/// The operation list the command denotes, when it is a fixed list.
fn denotation(spec: &Spec, cfg: &Cfg) -> Option<Vec<Op>> {
    Some(match spec {
        Spec::Char(c) => vec![Op::Print(char::from_u32(*c)?)],
        Spec::FaceGet => vec![Op::Decrqss(b"m".to_vec())],
        Spec::DecModeSet { enable, mode } => {
            let code = MODES[*mode].2;
            let bracket = cfg.kitty && *mode == ALT_SCREEN;
            match (enable, bracket) {
                (true, false) => vec![Op::DecSet(code)],
                (false, false) => vec![Op::DecRst(code)],
                // the alternate screen keeps its own keyboard level (kitty protocol): it is
                // set after entering and dropped to 0 before leaving
                (true, true) => vec![Op::DecSet(code), Op::KittyKeyboardSet { flags: ALT_SCREEN_KEYBOARD_LEVEL, mode: 1 }],
                (false, true) => vec![Op::KittyKeyboardSet { flags: 0, mode: 1 }, Op::DecRst(code)],
            }
        }
        Spec::DecModeGet(mode) => vec![Op::Decrqm(MODES[*mode].2)],
        Spec::CursorGet => vec![Op::Dsr(6)],
        Spec::CursorTo { row, col } => vec![Op::Cup { row: row + 1, col: col + 1 }],
        Spec::CursorSave => vec![Op::Decsc],
        Spec::CursorRestore => vec![Op::Decrc],
        Spec::EraseLineLeft => vec![Op::El(1)],
        Spec::EraseLineRight => vec![Op::El(0)],
        Spec::EraseLine => vec![Op::El(2)],
        Spec::EraseScreen => vec![Op::Ed(2)],
        // zero characters is nothing: `CSI 0 X` would erase one
        Spec::EraseChars(0) => vec![],
        Spec::EraseChars(n) => vec![Op::Ech(*n)],
        Spec::Scroll(0) => vec![],
        Spec::Scroll(n) if *n > 0 => vec![Op::Su(abs(*n))],
        Spec::Scroll(n) => vec![Op::Sd(abs(*n))],
        Spec::ScrollRegion { start, end } if end > start => {
            vec![Op::Decstbm { top: start + 1, bottom: Some(end + 1) }]
        }
        Spec::Reset => vec![Op::Ris],
        Spec::Image | Spec::ImageErase(_) => vec![], // left to the image handler
        Spec::Termcap(names) => vec![Op::XtGetTcap(names.iter().map(|n| n.as_bytes().to_vec()).collect())],
        Spec::DeviceAttrs => vec![Op::Da1],
        Spec::KeyboardLevel(n) => {
            if cfg.kitty {
                vec![Op::KittyKeyboardSet { flags: *n, mode: 1 }]
            } else {
                vec![]
            }
        }
        Spec::Raw(d) => ecma48::interpret(d),
        _ => return None,
    })
}

fn expected_text(spec: &Spec, cfg: &Cfg) -> String {
    match spec {
        Spec::CursorMove { row, col } => {
            let mut v = vec![];
            if *col > 0 {
                v.push(Op::Cuf(abs(*col)));
            } else if *col < 0 {
                v.push(Op::Cub(abs(*col)));
            }
            if *row > 0 {
                v.push(Op::Cud(abs(*row)));
            } else if *row < 0 {
                v.push(Op::Cuu(abs(*row)));
            }
            format!("{:?} in any order", v)
        }
        Spec::ScrollRegion { .. } if denotation(spec, cfg).is_none() => {
            "[] or [Decstbm { top: 1, bottom: None }] (empty region: statement silent)".into()
        }
        Spec::Title(t) => format!("[OscTitle {{ ps: 0 or 2, text: {:?} }}]", t),
        Spec::Color { name, color } => format!(
            "[OscColour {{ ps: {}, index: {:?}, spec: {} }}]",
            match name {
                -1 => 11,
                -2 => 10,
                _ => 4,
            },
            (*name >= 0).then_some(*name),
            match color {
                None => "\"?\"".to_string(),
                Some(c) => format!("an X11 colour spec equal to #{:02x}{:02x}{:02x}", c[0], c[1], c[2]),
            }
        ),
        Spec::Face { .. } | Spec::FaceModify { .. } => {
            "SGR sequences that turn every start rendition into exactly the requested one".into()
        }
        _ => format!("{:?}", denotation(spec, cfg).unwrap_or_default()),
    }
}

/// Compare parsed operations with the denotation. Err((kind, detail)).
fn check_ops(spec: &Spec, cfg: &Cfg, ops: &[Op]) -> Result<(), (String, String)> {
    let wrong = |detail: String| Err(("wrong-ops".to_string(), detail));
    if let Some(want) = denotation(spec, cfg) {
        return if ops == want.as_slice() {
            Ok(())
        } else {
            wrong(format!("want {:?}, interpreter performs {:?}", want, ops))
        };
    }
    match spec {
        Spec::Face { .. } | Spec::FaceModify { .. } => {
            check_rendition(spec, cfg, ops).map_err(|(slot, d)| (format!("wrong-rendition:{slot}"), d))
        }
        Spec::CursorMove { row, col } => {
            let mut want = vec![];
            if *col > 0 {
                want.push(Op::Cuf(abs(*col)));
            } else if *col < 0 {
                want.push(Op::Cub(abs(*col)));
            }
            if *row > 0 {
                want.push(Op::Cud(abs(*row)));
            } else if *row < 0 {
                want.push(Op::Cuu(abs(*row)));
            }
            // horizontal and vertical motion commute
            let mut rev = want.clone();
            rev.reverse();
            if ops == want.as_slice() || ops == rev.as_slice() {
                Ok(())
            } else {
                wrong(format!("want {:?} (any order), interpreter performs {:?}", want, ops))
            }
        }
        Spec::ScrollRegion { .. } => {
            // end <= start: no region is described; accept nothing or a reset of the margins
            if ops.is_empty() || ops == [Op::Decstbm { top: 1, bottom: None }] {
                Ok(())
            } else {
                wrong(format!("empty region: want nothing or a margin reset, interpreter performs {:?}", ops))
            }
        }
        Spec::Title(t) => match ops {
            [Op::OscTitle { ps: 0 | 2, text }] if text == t.as_bytes() => Ok(()),
            _ => wrong(format!("want window title {:?}, interpreter performs {:?}", t, ops)),
        },
        Spec::Color { name, color } => {
            let (want_ps, want_index) = match name {
                -1 => (11, None),
                -2 => (10, None),
                n => (4, Some(*n as u64)),
            };
            match ops {
                [Op::OscColour { ps, index, spec: s }] if *ps == want_ps && *index == want_index => {
                    let ok = match color {
                        None => s == b"?",
                        Some(c) => ecma48::xparse_colour(s) == Some((c[0], c[1], c[2])),
                    };
                    if ok {
                        Ok(())
                    } else {
                        wrong(format!("colour spec {:?} does not denote {:?}", String::from_utf8_lossy(s), color))
                    }
                }
                _ => wrong(format!("want {}, interpreter performs {:?}", expected_text(spec, cfg), ops)),
            }
        }
        _ => unreachable!("denotation covers {:?}", spec),
    }
}

/// `{:?}` of a command for messages: formatting goes through the library's own `Debug` implementations, which may be
/// what is broken
struct Shown(String);

impl std::fmt::Debug for Shown {
    fn fmt(&self, f: &mut std::fmt::Formatter<'_>) -> std::fmt::Result {
        f.write_str(&self.0)
    }
}

fn shown(spec: &Spec) -> Shown {
    Shown(catch(|| format!("{:?}", spec.command())).unwrap_or_else(|_| format!("{:?} (formatting the command with Debug panicked)", spec)))
}

/// Encode with a fresh encoder. Err(kind, detail) on panic / error.
fn encode_with(enc: &mut TTYEncoder, spec: &Spec, out: &mut Vec<u8>) -> Result<(), (String, String)> {
    let cmd = spec.command();
    match catch(|| enc.encode(&mut *out, cmd)) {
        Err(p) => Err((p.key(), format!("encode panicked: {} ({}:{})", p.message, p.file, p.line))),
        Ok(Err(e)) => Err(("encode-error".into(), format!("encode returned an error: {:?}", e))),
        Ok(Ok(())) => Ok(()),
    }
}

struct Outcome {
    bytes: Vec<u8>,
    ops: Vec<Op>,
    verdict: Result<(), (String, String)>,
}

fn parse_checked(bytes: &[u8]) -> Result<Vec<Op>, (String, String)> {
    let tokens = ecma48::parse(bytes);
    if let Some(Token::Invalid { bytes: b, why }) = tokens.iter().find(|t| matches!(t, Token::Invalid { .. })) {
        return Err(("malformed-output".into(), format!("{why}: {:?} in {:?}", esc(b), esc(bytes))));
    }
    let ops = ecma48::decode_ops(&tokens);
    Ok(ops)
}

fn eval(spec: &Spec, cfg: &Cfg) -> Outcome {
    let mut enc = TTYEncoder::new(cfg.caps());
    let mut bytes = Vec::with_capacity(64);
    if let Err(e) = encode_with(&mut enc, spec, &mut bytes) {
        return Outcome { bytes, ops: vec![], verdict: Err(e) };
    }
    if let Spec::Raw(d) = spec {
        if &bytes != d {
            let detail = format!("raw bytes altered: {:?}", esc(&bytes));
            return Outcome { bytes, ops: vec![], verdict: Err(("wrong-ops".into(), detail)) };
        }
    }
    let ops = match parse_checked(&bytes) {
        Ok(o) => o,
        Err(e) => return Outcome { bytes, ops: vec![], verdict: Err(e) },
    };
    if !matches!(spec, Spec::Raw(_)) {
        if let Some(o) = ops.iter().find(|o| matches!(o, Op::Other(_))) {
            let detail = format!("unknown construct {:?} in {:?}", o, esc(&bytes));
            return Outcome { bytes, ops, verdict: Err(("stray-sequence".into(), detail)) };
        }
    }
    let verdict = check_ops(spec, cfg, &ops);
    Outcome { bytes, ops, verdict }
}

/// Self-containedness: one encoder, two commands, one stream.
fn eval_pair(a: &Spec, b: &Spec, cfg: &Cfg) -> Result<(), (&'static str, String, String)> {
    // Err = (command the finding is filed under, kind, detail)
    let blame = |s: &Spec| {
        let name = s.name();
        move |(kind, detail): (String, String)| (name, kind, detail)
    };
    let mut parts = vec![];
    for s in [a, b] {
        let mut enc = TTYEncoder::new(cfg.caps());
        let mut bytes = vec![];
        encode_with(&mut enc, s, &mut bytes).map_err(blame(s))?;
        parts.push(parse_checked(&bytes).map_err(blame(s))?);
    }
    let mut enc = TTYEncoder::new(cfg.caps());
    let mut stream = vec![];
    encode_with(&mut enc, a, &mut stream).map_err(blame(a))?;
    encode_with(&mut enc, b, &mut stream).map_err(blame(b))?;
    // both commands are well formed alone, so a malformed stream is the second one's
    // dependence on what preceded it
    let ops = parse_checked(&stream).map_err(blame(b))?;
    let mut want = parts[0].clone();
    want.extend(parts[1].iter().cloned());
    if ops == want {
        Ok(())
    } else {
        let culprit = if ops.starts_with(&parts[0]) { b } else { a };
        Err((
            culprit.name(),
            "not-self-contained".into(),
            format!("stream {:?} parses to {:?}, the two commands alone give {:?}", esc(&stream), ops, want),
        ))
    }
}

// ---------------------------------------------------------------------------------------
// spaces
// ---------------------------------------------------------------------------------------

const POS: [u64; 7] = [0, 1, 2, 9, 10, 99, 65535];
const MOVES: [i32; 8] = [i32::MIN, i32::MIN + 1, -10, -1, 0, 1, 10, i32::MAX];
const PALETTE: [i64; 7] = [0, 1, 15, 16, 231, 232, 255];

fn cube(vals: &[u8]) -> Vec<Rgb> {
    let mut v = vec![];
    for r in vals {
        for g in vals {
            for b in vals {
                v.push([*r, *g, *b]);
            }
        }
    }
    v
}

fn opt_colours(cols: &[Rgb]) -> Vec<Option<Rgb>> {
    std::iter::once(None).chain(cols.iter().map(|c| Some(*c))).collect()
}

fn printable_strings(max_len: usize) -> Vec<String> {
    let alphabet: Vec<char> = (0x20u8..=0x7e).map(|b| b as char).collect();
    let mut out = vec![String::new()];
    let mut level = vec![String::new()];
    for _ in 0..max_len {
        let mut next = Vec::with_capacity(level.len() * alphabet.len());
        for s in &level {
            for c in &alphabet {
                let mut t = s.clone();
                t.push(*c);
                next.push(t);
            }
        }
        out.extend(next.iter().cloned());
        level = next;
    }
    out
}

/// Every command that is not a face change.
fn plain_specs(tier: Tier) -> Vec<Spec> {
    let mut v = vec![
        Spec::FaceGet,
        Spec::CursorGet,
        Spec::CursorSave,
        Spec::CursorRestore,
        Spec::EraseLineLeft,
        Spec::EraseLineRight,
        Spec::EraseLine,
        Spec::EraseScreen,
        Spec::Reset,
        Spec::Image,
        Spec::ImageErase(false),
        Spec::ImageErase(true),
        Spec::DeviceAttrs,
    ];
    for mode in 0..MODES.len() {
        v.push(Spec::DecModeSet { enable: true, mode });
        v.push(Spec::DecModeSet { enable: false, mode });
        v.push(Spec::DecModeGet(mode));
    }
    for a in POS {
        v.push(Spec::EraseChars(a));
        v.push(Spec::KeyboardLevel(a));
        for b in POS {
            v.push(Spec::CursorTo { row: a, col: b });
            v.push(Spec::ScrollRegion { start: a, end: b });
        }
    }
    for a in MOVES {
        v.push(Spec::Scroll(a));
        for b in MOVES {
            v.push(Spec::CursorMove { row: a, col: b });
        }
    }
    // characters: printable ASCII, Latin-1, BMP, astral, last scalar value, combining, wide
    for c in (0x20u32..=0x7e).chain([0xa0, 0xe9, 0xff, 0x100, 0x301, 0x7ff, 0x800, 0x20ac, 0x4e2d, 0xd7ff, 0xe000, 0xfffd, 0xffff, 0x10000, 0x1f600, 0x10ffff]) {
        v.push(Spec::Char(c));
    }
    let cols = cube(tier.pick(&[0u8, 128, 255][..], &[0u8, 1, 127, 128, 255][..]));
    for name in [-1i64, -2].into_iter().chain(PALETTE) {
        for color in opt_colours(&cols) {
            v.push(Spec::Color { name, color });
        }
    }
    // titles and capability names: every printable ASCII string up to the tier's length,
    // plus non-ASCII text and multi-name requests
    let strings = printable_strings(tier.pick(2, 3));
    for s in &strings {
        v.push(Spec::Title(s.clone()));
        if !s.is_empty() {
            // a capability name is not empty (and `DCS + q ST` cannot tell [""] from [])
            v.push(Spec::Termcap(vec![s.clone()]));
        }
    }
    for s in ["héllo wörld", "日本語", "a;b;c", "0;1", "title with spaces and ]", "\u{1f600}"] {
        v.push(Spec::Title(s.to_string()));
        v.push(Spec::Termcap(vec![s.to_string()]));
    }
    v.push(Spec::Termcap(vec![]));
    let names = ["TN", "Co", "RGB", "a", "k;"];
    for a in names {
        for b in names {
            v.push(Spec::Termcap(vec![a.to_string(), b.to_string()]));
            for c in names {
                v.push(Spec::Termcap(vec![a.to_string(), b.to_string(), c.to_string()]));
            }
        }
    }
    for raw in [&b""[..], b"hello", b"\x1b[2J", b"\x1b[1;2H\x1b[0m", b"\x1b]0;t\x07"] {
        v.push(Spec::Raw(raw.to_vec()));
    }
    // long payloads (buffers inside the encoder are small)
    for n in [31usize, 32, 33, 63, 64, 65, 255, 256, 257, 4095, 4096, 4097, 70_000] {
        v.push(Spec::Title("t".repeat(n)));
        v.push(Spec::Title("\u{e9}".repeat(n)));
        v.push(Spec::Termcap(vec!["n".repeat(n)]));
        v.push(Spec::Raw((0..n).map(|i| b'a' + (i % 26) as u8).collect()));
    }
    v.push(Spec::Termcap((0..100).map(|i| format!("cap{i}")).collect()));
    v
}

struct FaceSpace {
    cols: Vec<Option<Rgb>>,
}

impl FaceSpace {
    fn size(&self) -> u64 {
        (self.cols.len() * self.cols.len() * 32 * 8) as u64
    }
    fn get(&self, mut i: u64) -> Spec {
        let n = self.cols.len() as u64;
        let ul = (i % 8) as u8;
        i /= 8;
        let flags = (i % 32) as u8;
        i /= 32;
        let bg = self.cols[(i % n) as usize];
        i /= n;
        Spec::Face { fg: self.cols[i as usize], bg, flags, ul }
    }
}

struct ModifySpace {
    cols: Vec<Option<Rgb>>,
}

const TRI: [Option<bool>; 3] = [None, Some(true), Some(false)];

impl ModifySpace {
    fn size(&self) -> u64 {
        let n = self.cols.len() as u64;
        2 * n * n * n * 7 * 81
    }
    fn get(&self, mut i: u64) -> Spec {
        let n = self.cols.len() as u64;
        let mut take = |r: u64| {
            let v = i % r;
            i /= r;
            v
        };
        let strike = TRI[take(3) as usize];
        let blink = TRI[take(3) as usize];
        let italic = TRI[take(3) as usize];
        let bold = TRI[take(3) as usize];
        let ul = match take(7) {
            0 => None,
            k => Some(k as u8 - 1),
        };
        let reset = take(2) == 1;
        let ulc = self.cols[take(n) as usize];
        let bg = self.cols[take(n) as usize];
        let fg = self.cols[take(n) as usize];
        Spec::FaceModify { reset, fg, bg, ul, ulc, bold, italic, blink, strike }
    }
}

/// ~40 representative commands for the ordered-pair check.
fn representatives() -> Vec<Spec> {
    let m = |reset, fg, bg, ul, ulc, bold, italic, blink, strike| Spec::FaceModify { reset, fg, bg, ul, ulc, bold, italic, blink, strike };
    vec![
        Spec::Char('a' as u32),
        Spec::Char(0x20ac),
        Spec::Char('[' as u32),
        Spec::Char('m' as u32),
        Spec::Char('0' as u32),
        Spec::Char(';' as u32),
        Spec::Face { fg: None, bg: None, flags: 0, ul: 0 },
        Spec::Face { fg: Some([1, 128, 255]), bg: Some([0, 0, 0]), flags: 31, ul: 3 },
        Spec::Face { fg: None, bg: Some([255, 255, 255]), flags: 1, ul: 1 },
        m(false, None, None, None, None, None, None, None, None),
        m(true, None, None, None, None, None, None, None, None),
        m(false, Some([10, 20, 30]), Some([40, 50, 60]), Some(2), Some([70, 80, 90]), Some(true), Some(false), Some(true), Some(false)),
        m(false, None, None, Some(0), None, Some(false), None, None, Some(true)),
        Spec::FaceGet,
        Spec::DecModeSet { enable: true, mode: ALT_SCREEN },
        Spec::DecModeSet { enable: false, mode: ALT_SCREEN },
        Spec::DecModeSet { enable: true, mode: 0 },
        Spec::DecModeSet { enable: false, mode: 8 },
        Spec::DecModeGet(7),
        Spec::CursorGet,
        Spec::CursorTo { row: 0, col: 0 },
        Spec::CursorTo { row: 9, col: 65535 },
        Spec::CursorMove { row: 0, col: 0 },
        Spec::CursorMove { row: -1, col: 10 },
        Spec::CursorMove { row: i32::MAX, col: i32::MIN + 1 },
        Spec::CursorSave,
        Spec::CursorRestore,
        Spec::EraseLineLeft,
        Spec::EraseLineRight,
        Spec::EraseLine,
        Spec::EraseScreen,
        Spec::EraseChars(10),
        Spec::Scroll(-2),
        Spec::Scroll(1),
        Spec::ScrollRegion { start: 1, end: 9 },
        Spec::ScrollRegion { start: 0, end: 0 },
        Spec::Reset,
        Spec::Image,
        Spec::Termcap(vec!["TN".into(), "RGB".into()]),
        Spec::Color { name: -1, color: None },
        Spec::Color { name: 15, color: Some([1, 2, 3]) },
        Spec::Title("a title; with ] and [".into()),
        Spec::Title(String::new()),
        Spec::DeviceAttrs,
        Spec::KeyboardLevel(5),
        // levels other than the one the library itself asks for: nothing later may depend on them
        Spec::KeyboardLevel(0),
        Spec::KeyboardLevel(31),
    ]
}

fn op_kind(op: &Op) -> u32 {
    match op {
        Op::Print(_) => 0,
        Op::C0(_) => 1,
        Op::Cup { .. } => 2,
        Op::Cuu(_) => 3,
        Op::Cud(_) => 4,
        Op::Cuf(_) => 5,
        Op::Cub(_) => 6,
        Op::Ed(_) => 7,
        Op::El(_) => 8,
        Op::Ech(_) => 9,
        Op::Su(_) => 10,
        Op::Sd(_) => 11,
        Op::Decstbm { .. } => 12,
        Op::DecSet(_) => 13,
        Op::DecRst(_) => 14,
        Op::Decrqm(_) => 15,
        Op::Dsr(_) => 16,
        Op::Decsc => 17,
        Op::Decrc => 18,
        Op::Ris => 19,
        Op::Sgr(_) => 20,
        Op::Decrqss(_) => 21,
        Op::XtGetTcap(_) => 22,
        Op::OscTitle { .. } => 23,
        Op::OscColour { .. } => 24,
        Op::Da1 => 25,
        Op::KittyKeyboardSet { .. } => 26,
        Op::Other(_) => 27,
    }
}

#[derive(Default)]
struct Counters {
    evals: AtomicU64,
    nontrivial: AtomicU64,
    empty_outputs: AtomicU64,
    bytes: AtomicU64,
    op_kinds: AtomicU64,
}

/// Per-chunk tallies, added to the shared counters once per chunk (no cache-line ping-pong).
#[derive(Default)]
struct Local {
    evals: u64,
    nontrivial: u64,
    empty_outputs: u64,
    bytes: u64,
    op_kinds: u64,
}

impl Local {
    fn flush(self, c: &Counters) {
        c.evals.fetch_add(self.evals, Ordering::Relaxed);
        c.nontrivial.fetch_add(self.nontrivial, Ordering::Relaxed);
        c.empty_outputs.fetch_add(self.empty_outputs, Ordering::Relaxed);
        c.bytes.fetch_add(self.bytes, Ordering::Relaxed);
        c.op_kinds.fetch_or(self.op_kinds, Ordering::Relaxed);
    }
}

fn run_case(spec: &Spec, cfg: &Cfg, index: u64, viol: &Violations, samples: &Samples, c: &mut Local) {
    let out = eval(spec, cfg);
    c.evals += 1;
    if spec.parametric() {
        c.nontrivial += 1;
    }
    if out.bytes.is_empty() {
        c.empty_outputs += 1;
    }
    c.bytes += out.bytes.len() as u64;
    for op in &out.ops {
        c.op_kinds |= 1 << op_kind(op);
    }
    samples.offer(index, || {
        json!({"cmd": spec, "cfg": cfg, "bytes": esc(&out.bytes), "ops": format!("{:?}", out.ops)})
    });
    if let Err((kind, detail)) = &out.verdict {
        viol.add(
            format!("{}:{}", spec.name(), kind),
            format!("{:?} under {:?} emitted {:?}: {}", shown(spec), cfg, esc(&out.bytes), detail),
            json!({"kind": "single", "cmd": spec, "cfg": cfg}),
        );
    }
}

/// Evaluate cases `0..total` (case i = `get(i / #cfgs)` under configuration `i % #cfgs`) in parallel chunks.
fn sweep<G: Fn(u64) -> Spec + Sync>(
    ctx: &Ctx,
    total: u64,
    base: u64,
    cfgs: &[Cfg],
    get: G,
    viol: &Violations,
    samples: &Samples,
    c: &Counters,
) {
    let chunk = 1u64 << 13;
    (0..total.div_ceil(chunk)).into_par_iter().for_each(|k| {
        if ctx.over_cap() {
            return;
        }
        let mut local = Local::default();
        for i in k * chunk..((k + 1) * chunk).min(total) {
            let spec = get(i / cfgs.len() as u64);
            run_case(&spec, &cfgs[(i % cfgs.len() as u64) as usize], base + i, viol, samples, &mut local);
        }
        local.flush(c);
    });
}

// ---------------------------------------------------------------------------------------
// (7) a command encoded after an encode that failed in the writer
// ---------------------------------------------------------------------------------------

/// accepts `left` bytes in total, then fails
struct FailAfter {
    left: usize,
}

impl std::io::Write for FailAfter {
    fn write(&mut self, buf: &[u8]) -> std::io::Result<usize> {
        if self.left == 0 {
            return Err(std::io::Error::new(std::io::ErrorKind::Other, "sink is full"));
        }
        let n = buf.len().min(self.left);
        self.left -= n;
        Ok(n)
    }
    fn flush(&mut self) -> std::io::Result<()> {
        Ok(())
    }
}

/// For every representative command `first`, every number of bytes k the sink takes before failing, and every
/// representative command `second`: `second` encoded on the same encoder afterwards must give the bytes a fresh
/// encoder gives ("self-contained ... whatever preceded it").
fn sweep_after_failed_write(viol: &Violations, cfgs: &[Cfg]) -> u64 {
    let reps = representatives();
    let evals = AtomicU64::new(0);
    let n = reps.len();
    (0..n * cfgs.len()).into_par_iter().for_each(|i| {
        let cfg = &cfgs[i % cfgs.len()];
        let first = &reps[i / cfgs.len()];
        let mut whole = vec![];
        if encode_with(&mut TTYEncoder::new(cfg.caps()), first, &mut whole).is_err() || whole.is_empty() {
            return;
        }
        // a sink that takes one byte per call must receive the same bytes
        {
            struct OneByte(Vec<u8>);
            impl std::io::Write for OneByte {
                fn write(&mut self, buf: &[u8]) -> std::io::Result<usize> {
                    match buf.first() {
                        Some(b) => {
                            self.0.push(*b);
                            Ok(1)
                        }
                        None => Ok(0),
                    }
                }
                fn flush(&mut self) -> std::io::Result<()> {
                    Ok(())
                }
            }
            evals.fetch_add(1, Ordering::Relaxed);
            let mut sink = OneByte(vec![]);
            let cmd = first.command();
            let res = catch(|| TTYEncoder::new(cfg.caps()).encode(&mut sink, cmd));
            if !matches!(res, Ok(Ok(()))) || sink.0 != whole {
                viol.add(
                    format!("short-writing-sink:{}:differs", first.name()),
                    format!("{:?} encoded into a sink that takes one byte per call delivered {:?}, into a Vec {:?} ({:?})", shown(first), esc(&sink.0), esc(&whole), cfg),
                    json!({"kind": "single", "cmd": first, "cfg": cfg}),
                );
            }
        }
        for k in 0..whole.len() {
            for second in &reps {
                evals.fetch_add(1, Ordering::Relaxed);
                let mut fresh = vec![];
                if encode_with(&mut TTYEncoder::new(cfg.caps()), second, &mut fresh).is_err() {
                    continue;
                }
                let mut enc = TTYEncoder::new(cfg.caps());
                let cmd = first.command();
                let _ = catch(|| enc.encode(&mut FailAfter { left: k }, cmd));
                let mut after = vec![];
                let res = encode_with(&mut enc, second, &mut after);
                if res.is_err() || after != fresh {
                    viol.add(
                        format!("after-failed-write:{}:differs", second.name()),
                        format!(
                            "{:?} failed in the writer after {k} of {} bytes; then {:?} on the same encoder emitted {:?}, a fresh encoder emits {:?} ({:?})",
                            shown(first), whole.len(), shown(second), esc(&after), esc(&fresh), cfg
                        ),
                        json!({"kind": "after-failed-write", "first": first, "k": k, "second": second, "cfg": cfg}),
                    );
                    return;
                }
            }
        }
    });
    evals.load(Ordering::Relaxed)
}

// ---------------------------------------------------------------------------------------
// (6) value sweeps: one numeric parameter takes EVERY value of a range (formatting of numbers, tables
// indexed by value and per-character decisions are invisible to a boundary lattice)
// ---------------------------------------------------------------------------------------

const VALUE_TOP: u64 = 70_000;
const VALUE_SHAPES: u64 = 14;

/// case `i` of the value sweep: shape `i / (VALUE_TOP + 1)`, value `i % (VALUE_TOP + 1)`
fn value_spec(i: u64) -> Spec {
    let v = i % (VALUE_TOP + 1);
    let s = v as i32;
    match i / (VALUE_TOP + 1) {
        0 => Spec::CursorTo { row: v, col: 1 },
        1 => Spec::CursorTo { row: 1, col: v },
        2 => Spec::EraseChars(v),
        3 => Spec::KeyboardLevel(v),
        4 => Spec::ScrollRegion { start: v, end: v + 1 },
        5 => Spec::ScrollRegion { start: 1, end: v },
        6 => Spec::CursorMove { row: s, col: 0 },
        7 => Spec::CursorMove { row: -s, col: 0 },
        8 => Spec::CursorMove { row: 0, col: s },
        9 => Spec::CursorMove { row: 0, col: -s },
        10 => Spec::Scroll(s),
        11 => Spec::Scroll(-s),
        12 => Spec::Color { name: (v % 256) as i64, color: Some([(v % 251) as u8, (v / 256 % 256) as u8, (v % 256) as u8]) },
        _ => Spec::Color { name: (v % 256) as i64, color: None },
    }
}

/// every scalar value from U+0020 on except DEL and the C1 controls
fn char_spec(i: u64) -> Option<Spec> {
    let c = 0x20 + i as u32;
    if (0x7f..0xa0).contains(&c) || char::from_u32(c).is_none() {
        return None;
    }
    Some(Spec::Char(c))
}

// ---------------------------------------------------------------------------------------
// (5) colour conversion does not depend on the colours converted before
// ---------------------------------------------------------------------------------------

const HISTORY_RGB: [Rgb; 6] = [[255, 0, 0], [18, 52, 86], [0, 0, 0], [255, 255, 255], [128, 128, 128], [10, 200, 30]];
const HISTORY_ALPHA: [u8; 4] = [255, 128, 40, 0];

fn history_colours() -> Vec<RGBA> {
    let mut v = vec![];
    for c in HISTORY_RGB {
        for a in HISTORY_ALPHA {
            v.push(RGBA::new(c[0], c[1], c[2], a));
        }
    }
    v
}

/// a face modification that sets exactly the colour slots given (0 fg, 1 bg, 2 underline colour)
fn modify_slots(slots: &[(usize, RGBA)]) -> TerminalCommand {
    let mut m = FaceModify::default();
    for (slot, c) in slots {
        match slot {
            0 => m.fg = Some(*c),
            1 => m.bg = Some(*c),
            _ => m.underline_color = Some(*c),
        }
    }
    TerminalCommand::FaceModify(m)
}

fn encode_cmds(cfg: &Cfg, cmds: &[TerminalCommand]) -> Result<Vec<Op>, (String, String)> {
    let mut enc = TTYEncoder::new(cfg.caps());
    let mut out = vec![];
    for cmd in cmds {
        let cmd = cmd.clone();
        match catch(|| enc.encode(&mut out, cmd)) {
            Err(p) => return Err((p.key(), format!("encode panicked: {} ({}:{})", p.message, p.file, p.line))),
            Ok(Err(e)) => return Err(("encode-error".into(), format!("encode returned an error: {:?}", e))),
            Ok(Ok(())) => {}
        }
    }
    parse_checked(&out)
}

fn rendition_of(ops: &[Op]) -> Rendition {
    let mut r = Rendition::default();
    for op in ops {
        if let Op::Sgr(params) = op {
            ecma48::sgr_apply(&mut r, params);
        }
    }
    r
}

/// Every ordered pair of colours from {6 RGB values} x {4 alpha values}, in every ordered pair of colour
/// slots, under the three colour depths: (a) two commands in one stream parse to what each gives alone on a
/// fresh encoder; (b) one command setting both slots (and `Face` with fg and bg) leaves each slot with
/// the value the slot gets when it is set alone.
fn sweep_colour_history(viol: &Violations) -> u64 {
    let cols = history_colours();
    let n = cols.len();
    let evals = AtomicU64::new(0);
    (0..3 * 9 * n * n).into_par_iter().for_each(|i| {
        let depth = (i % 3) as u8;
        let s1 = i / 3 % 3;
        let s2 = i / 9 % 3;
        let c1 = cols[i / 27 % n];
        let c2 = cols[i / 27 / n];
        evals.fetch_add(if s1 < s2 { 2 } else { 1 }, Ordering::Relaxed);
        if let Err((kind, detail)) = check_colour_history(depth, s1, s2, c1, c2) {
            viol.add(
                format!("colour-history:{kind}"),
                detail,
                json!({"kind": "colour-history", "s1": s1, "s2": s2, "c1": c1.to_rgba(), "c2": c2.to_rgba(), "depth": depth}),
            );
        }
    });
    evals.load(Ordering::Relaxed)
}

fn check_colour_history(depth: u8, s1: usize, s2: usize, c1: RGBA, c2: RGBA) -> Result<(), (String, String)> {
    let cfg = Cfg { depth, kitty: false, glyphs: false };
    let describe = || format!("slot {s1} = {:?} then slot {s2} = {:?} under {:?}", c1, c2, cfg);
    let ctx = |(kind, detail): (String, String)| (kind, format!("{}: {detail}", describe()));
    let alone1 = encode_cmds(&cfg, &[modify_slots(&[(s1, c1)])]).map_err(ctx)?;
    let alone2 = encode_cmds(&cfg, &[modify_slots(&[(s2, c2)])]).map_err(ctx)?;
    let both = encode_cmds(&cfg, &[modify_slots(&[(s1, c1)]), modify_slots(&[(s2, c2)])]).map_err(ctx)?;
    let mut want = alone1.clone();
    want.extend(alone2.iter().cloned());
    if both != want {
        return Err((
            "not-self-contained".to_string(),
            format!("{}: the stream parses to {:?}, the two commands alone give {:?}", describe(), both, want),
        ));
    }
    if s1 < s2 {
        let mut cmds = vec![modify_slots(&[(s1, c1), (s2, c2)])];
        if (s1, s2) == (0, 1) {
            cmds.push(TerminalCommand::Face(Face::new(Some(c1), Some(c2), FaceAttrs::EMPTY)));
        }
        for cmd in cmds {
            let ops = encode_cmds(&cfg, &[cmd.clone()]).map_err(ctx)?;
            let (r, r1, r2) = (rendition_of(&ops), rendition_of(&alone1), rendition_of(&alone2));
            let pick = |r: &Rendition, s: usize| match s {
                0 => r.fg,
                1 => r.bg,
                _ => r.underline_colour,
            };
            if pick(&r, s1) != pick(&r1, s1) || pick(&r, s2) != pick(&r2, s2) {
                return Err((
                    "slot-depends-on-other-slot".to_string(),
                    format!(
                        "{:?} under {:?}: slots end as {:?} / {:?}, set alone they are {:?} / {:?}",
                        cmd, cfg, pick(&r, s1), pick(&r, s2), pick(&r1, s1), pick(&r2, s2)
                    ),
                ));
            }
        }
    }
    Ok(())
}

pub fn run(ctx: &Ctx) -> Result<Report, String> {
    let viol = Violations::new();
    let samples = Samples::new(ctx.seed);
    let c = Counters::default();
    let cfgs = Cfg::all();
    let mut capped = false;

    // 1. every command that is not a face change
    let plain = plain_specs(ctx.tier);
    let plain_total = (plain.len() * cfgs.len()) as u64;
    sweep(ctx, plain_total, 0, &cfgs, |i| plain[i as usize].clone(), &viol, &samples, &c);

    if std::env::var_os("SNT_TIMING").is_some() { eprintln!("plain done {:.2}", ctx.elapsed()); }
    // 2. faces
    let face_cols = cube(ctx.tier.pick(&[0u8, 128, 255][..], &[0u8, 1, 127, 128, 255][..]));
    let faces = FaceSpace { cols: opt_colours(&face_cols) };
    let face_total = faces.size() * cfgs.len() as u64;
    sweep(ctx, face_total, plain_total, &cfgs, |i| faces.get(i), &viol, &samples, &c);
    capped |= ctx.over_cap();

    if std::env::var_os("SNT_TIMING").is_some() { eprintln!("faces done {:.2}", ctx.elapsed()); }
    // 3. face modifications: every field x {None, each value}; colours from a 3-colour set under
    //    all 12 configurations, and (thorough) from the 3^3 cube under the three colour depths
    //    (kitty_keyboard / glyphs cannot reach the SGR code path; they are covered by the first sweep)
    let mod_cols: Vec<Rgb> = vec![[0, 0, 0], [1, 128, 255], [255, 255, 255]];
    let mods = ModifySpace { cols: opt_colours(&mod_cols) };
    let mod_total = mods.size() * cfgs.len() as u64;
    sweep(ctx, mod_total, plain_total + face_total, &cfgs, |i| mods.get(i), &viol, &samples, &c);
    let wide_cols: Vec<Rgb> = cube(&[0, 128, 255]);
    let wide_mods = ModifySpace { cols: opt_colours(&wide_cols) };
    let depth_cfgs: Vec<Cfg> = (0..3).map(|depth| Cfg { depth, kitty: false, glyphs: false }).collect();
    let mut wide_total = 0;
    if ctx.tier == Tier::Thorough {
        wide_total = wide_mods.size() * depth_cfgs.len() as u64;
        sweep(
            ctx,
            wide_total,
            plain_total + face_total + mod_total,
            &depth_cfgs,
            |i| wide_mods.get(i),
            &viol,
            &samples,
            &c,
        );
    }
    capped |= ctx.over_cap();

    if std::env::var_os("SNT_TIMING").is_some() { eprintln!("mods done {:.2}", ctx.elapsed()); }
    // 4. ordered pairs in one stream
    let reps = representatives();
    let pair_evals = AtomicU64::new(0);
    let n = reps.len();
    (0..n * n * cfgs.len()).into_par_iter().for_each(|i| {
        let cfg = &cfgs[i % cfgs.len()];
        let a = &reps[i / cfgs.len() / n];
        let b = &reps[i / cfgs.len() % n];
        pair_evals.fetch_add(1, Ordering::Relaxed);
        if let Err((culprit, kind, detail)) = eval_pair(a, b, cfg) {
            viol.add(
                format!("pair:{}:{}", culprit, kind),
                format!("{:?} then {:?} under {:?}: {}", shown(a), shown(b), cfg, detail),
                json!({"kind": "pair", "a": a, "b": b, "cfg": cfg}),
            );
        }
    });
    // the representatives themselves go through the single-command oracle as well
    let mut local = Local::default();
    for (i, s) in reps.iter().enumerate() {
        for cfg in &cfgs {
            run_case(s, cfg, u64::MAX - i as u64, &viol, &samples, &mut local);
        }
    }
    local.flush(&c);

    // 5. colours with an alpha channel converted one after another by one encoder
    let history_evals = sweep_colour_history(&viol);

    // 7. a command after an encode whose writer failed part-way (three colour depths)
    let failed_cfgs: Vec<Cfg> = (0..3).map(|depth| Cfg { depth, kitty: true, glyphs: false }).collect();
    let after_failed = sweep_after_failed_write(&viol, &failed_cfgs);

    // 6. value sweeps under two configurations (kitty keyboard off / on)
    let value_cfgs = [Cfg { depth: 0, kitty: false, glyphs: false }, Cfg { depth: 1, kitty: true, glyphs: true }];
    let value_total = VALUE_SHAPES * (VALUE_TOP + 1) * value_cfgs.len() as u64;
    sweep(ctx, value_total, 1 << 40, &value_cfgs, value_spec, &viol, &samples, &c);
    let char_top: u64 = 0x110000 - 0x20;
    let one_cfg = [Cfg { depth: 0, kitty: false, glyphs: false }];
    sweep(ctx, char_top, 1 << 41, &one_cfg, |i| char_spec(i).unwrap_or(Spec::Char(0x20)), &viol, &samples, &c);
    capped |= ctx.over_cap();

    let evals = c.evals.load(Ordering::Relaxed) + pair_evals.load(Ordering::Relaxed) + history_evals + after_failed;
    let mut r = Report::new("exploration");
    r.set("evaluations", evals)
        .set("distinct_nontrivial", c.nontrivial.load(Ordering::Relaxed))
        .set(
            "rule",
            "one case = (command value, colour depth, kitty_keyboard, glyphs), all distinct by construction \
             (lattice points are enumerated once); non-trivial = the command carries a parameter whose value \
             must be found in the parsed operations (parameterless commands and image commands are trivial)",
        )
        .set("samples", samples.into_vec())
        .set("exhaustive", !capped)
        .set("capped", capped)
        .set("configurations", cfgs.len())
        .set("space_plain_commands", plain.len())
        .set("space_faces", faces.size())
        .set("space_face_modifications", mods.size())
        .set("space_face_modifications_wide_lattice_x_3_depths", wide_total)
        .set("space_ordered_pairs", (n * n) as u64)
        .set("pair_streams", pair_evals.load(Ordering::Relaxed))
        .set("colour_history_streams", history_evals)
        .set("after_failed_write_streams", after_failed)
        .set("value_sweep", json!({"shapes": VALUE_SHAPES, "values_per_shape": VALUE_TOP + 1, "configurations": 2, "characters": "every scalar value from U+0020 except DEL and C1"}))
        .set("representatives", n)
        .set("empty_outputs", c.empty_outputs.load(Ordering::Relaxed))
        .set("bytes_parsed", c.bytes.load(Ordering::Relaxed))
        .set("distinct_operation_kinds_seen", c.op_kinds.load(Ordering::Relaxed).count_ones())
        .set("face_colour_lattice", face_cols.len())
        .set("modify_colour_lattice", mod_cols.len())
        .set("raw_violations", viol.raw_count());
    r.assume("interpreter = model::ecma48 (ECMA-48 grammar, VT500 parser diagram, xterm ctlseqs, kitty keyboard protocol); parameters are not clamped");
    r.assume("SGR 21 is double underline and SGR 22 ends bold, as ECMA-48 and xterm define them");
    r.assume("positions/counts/indices come from {0,1,2,9,10,99,65535}; moves and scrolls from {MIN,MIN+1,-10,-1,0,1,10,MAX}; colours are opaque");
    r.assume("titles and capability names contain no control characters");
    r.assume("at the 16-colour (Gray) depth an underline colour may be dropped: SGR has no 16-colour form for it and the statement is silent");
    r.assume("ScrollRegion with end <= start describes no region: nothing or a margin reset is accepted");
    r.assume("TerminalCommand is non_exhaustive: the 28 variants of this tree are listed by hand");
    r.violations = viol.into_vec();
    Ok(r)
}

pub fn replay(w: &Value) -> Result<(bool, String), String> {
    let cfg: Cfg = serde_json::from_value(w["cfg"].clone()).map_err(|e| format!("cfg: {e}"))?;
    match w["kind"].as_str() {
        Some("single") => {
            let spec: Spec = serde_json::from_value(w["cmd"].clone()).map_err(|e| format!("cmd: {e}"))?;
            let out = eval(&spec, &cfg);
            let head = format!(
                "command  {:?}\nconfig   {:?}\nbytes    {:?}\nexpected {}\nobserved {:?}",
                shown(&spec),
                cfg,
                esc(&out.bytes),
                expected_text(&spec, &cfg),
                out.ops
            );
            Ok(match out.verdict {
                Ok(()) => (false, format!("{head}\nagrees")),
                Err((kind, detail)) => (true, format!("{head}\n[{kind}] {detail}")),
            })
        }
        Some("pair") => {
            let a: Spec = serde_json::from_value(w["a"].clone()).map_err(|e| format!("a: {e}"))?;
            let b: Spec = serde_json::from_value(w["b"].clone()).map_err(|e| format!("b: {e}"))?;
            let head = format!("first    {:?}\nsecond   {:?}\nconfig   {:?}", shown(&a), shown(&b), cfg);
            Ok(match eval_pair(&a, &b, &cfg) {
                Ok(()) => (false, format!("{head}\nstream parses to the concatenation of both operation lists")),
                Err((culprit, kind, detail)) => (true, format!("{head}\n[{culprit}: {kind}] {detail}")),
            })
        }
        Some("after-failed-write") => {
            let first: Spec = serde_json::from_value(w["first"].clone()).map_err(|e| format!("first: {e}"))?;
            let second: Spec = serde_json::from_value(w["second"].clone()).map_err(|e| format!("second: {e}"))?;
            let k = w["k"].as_u64().ok_or("k")? as usize;
            let mut fresh = vec![];
            encode_with(&mut TTYEncoder::new(cfg.caps()), &second, &mut fresh).map_err(|e| e.1)?;
            let mut enc = TTYEncoder::new(cfg.caps());
            let cmd = first.command();
            let _ = catch(|| enc.encode(&mut FailAfter { left: k }, cmd));
            let mut after = vec![];
            let res = encode_with(&mut enc, &second, &mut after);
            let head = format!("{:?} fails in the writer after {k} bytes; then {:?} on the same encoder", shown(&first), shown(&second));
            Ok(if res.is_err() || after != fresh {
                (true, format!("{head}\nemitted {:?}\na fresh encoder emits {:?}", esc(&after), esc(&fresh)))
            } else {
                (false, format!("{head} emits {:?}, as a fresh encoder does", esc(&after)))
            })
        }
        Some("colour-history") => {
            let col = |k: &str| -> Result<RGBA, String> {
                let v: [u8; 4] = serde_json::from_value(w[k].clone()).map_err(|e| format!("{k}: {e}"))?;
                Ok(RGBA::new(v[0], v[1], v[2], v[3]))
            };
            let (c1, c2) = (col("c1")?, col("c2")?);
            let s1 = w["s1"].as_u64().ok_or("s1")? as usize;
            let s2 = w["s2"].as_u64().ok_or("s2")? as usize;
            let depth = w["depth"].as_u64().ok_or("depth")? as u8;
            let head = format!("colour slot {s1} = {:?}, then colour slot {s2} = {:?}, depth {depth} (0 true colour, 1 256 colours, 2 16 colours)", c1, c2);
            Ok(match check_colour_history(depth, s1, s2, c1, c2) {
                Ok(()) => (false, format!("{head}\neach colour converts as it does alone on a fresh encoder")),
                Err((kind, detail)) => (true, format!("{head}\n[{kind}] {detail}")),
            })
        }
        _ => Err("witness without kind".into()),
    }
}
