//! C10 -- view layout honours constraints, never panics, and draws where it says it does.
//!
//! Bounded exhaustive exploration of real view trees. Three explicitly enumerated sub-spaces:
//!  * S1 "structure": every tree with <= N nodes over a small grammar M (probes, text, scroll bar,
//!    fill, six containers, frame, tag, dynamic, flex with 2 directions x 2 justifications x 2 child
//!    attribute sets, 0..=3 children);
//!  * S2 "rich": every tree with <= 2 nodes over the full parameter lattices of DESIGN.md (all
//!    leaves incl. 8 scroll bars, container size x align^2 x margins = 768 variants, every flex
//!    direction x justification x flex factor x alignment x face); thorough adds every tree with
//!    <= 3 nodes over an intermediate grammar;
//!  * S3 "flex arithmetic": single flex, 1..=3 children drawn from a few child views with the
//!    flex-factor / alignment / face lattice.
//! Every tree is evaluated under all 100 constraints (min <= max over heights {0,1,2,5} x widths
//! {0,1,3,7}) and, when it contains a glyph-sensitive view (Frame, Glyph), both glyph settings.
//! Every tree is also serialised to JSON by the harness (library forms for text, flex, container,
//! glyph, image, image_ascii, tag, trace-layout; handlers registered through
//! `ViewDeserializer::register` for the view types without a JSON form) and rebuilt through
//! `ViewDeserializer`; both builds must lay out and paint identically.
//!
//! Oracles: no panic; cells outside the given surface untouched (sentinel border); for text,
//! flex, container, image, glyph, fill and surface views (at any depth, observed through a
//! transparent harness wrapper) min <= size <= max of the constraint they were given; probe
//! leaves paint exactly the rectangle obtained by summing positions down the layout tree clipped
//! by every ancestor and by the surface; `find_path` for every painted cell ends at the probe's
//! layout node.
use super::c09::{image_cells, make_glyph, sentinel, view_ctx, SENT_CHAR};
use crate::engine::catch;
use crate::engine::report::{Ctx, Report, Samples, Tier, Violations};
use crate::engine::util::hash64;
use rayon::prelude::*;
use serde::{Deserialize, Serialize};
use serde_json::{json, Value};
use std::collections::HashSet;
use std::sync::atomic::{AtomicBool, AtomicU64, Ordering};
use std::sync::{Arc, LazyLock, Mutex};
use surf_n_term::render::CellKind;
use surf_n_term::view::{
    Align, ArcView, Axis, BoxConstraint, Container, Dynamic, Either, Flex, FlexChild, FlexRef, Frame, Justify,
    Layout, Margins, ScrollBar, ScrollBarPosition, Tag, Text, Tree, TreeMut, View, ViewContext,
    ViewDeserializer, ViewLayout, ViewLayoutStore, ViewMutLayout,
};
use surf_n_term::{
    Cell, CellWrite, Color, Error, Face, FaceAttrs, Glyph, Image, Position, Shape, Size, Surface, SurfaceMut,
    SurfaceMutView, SurfaceOwned, TerminalSurface, RGBA,
};

// ---------------------------------------------------------------------------------------------
// tree specification (plain data; serialisable as witness)
// ---------------------------------------------------------------------------------------------

#[derive(Clone, Copy, Debug, PartialEq, Eq, Hash, Serialize, Deserialize)]
enum Leaf {
    ProbeFill,
    ProbeFixed,
    StrAb,
    StrNl,
    StrWide,
    TextNoWrap,
    Fill,
    Unit,
    Image,
    ImageAscii,
    Glyph,
    /// (vertical?, index into VISIBLE)
    ScrollBar(bool, u8),
    Surface,
    None,
}

const VISIBLE: [f64; 4] = [0.0, 0.5, 1.0, f64::NAN];
const SIZES: [(usize, usize); 3] = [(0, 0), (2, 3), (usize::MAX, usize::MAX)];
const ALIGNS: [Align; 8] = [
    Align::Start,
    Align::Center,
    Align::End,
    Align::Expand,
    Align::Shrink,
    Align::Offset(1),
    Align::Offset(-1),
    Align::Offset(i32::MIN),
];
/// (left, right, top, bottom)
const MARGINS: [(usize, usize, usize, usize); 4] =
    [(0, 0, 0, 0), (1, 1, 1, 1), (0, 3, 0, 0), (usize::MAX, usize::MAX, usize::MAX, usize::MAX)];
const FLEX: [Option<f64>; 7] = [None, Some(1.0), Some(2.0), Some(0.1), Some(-1.0), Some(f64::NAN), Some(1e308)];
/// indices into ALIGNS used for flex children
const FLEX_ALIGNS: [u8; 4] = [0, 1, 2, 5];
const JUSTIFY: [Justify; 6] =
    [Justify::Start, Justify::Center, Justify::End, Justify::SpaceBetween, Justify::SpaceAround, Justify::SpaceEvenly];
const JUSTIFY_NAMES: [&str; 6] = ["start", "center", "end", "space-between", "space-around", "space-evenly"];

#[derive(Clone, Copy, Debug, PartialEq, Eq, Hash, Serialize, Deserialize)]
struct ContP {
    size: u8,
    vertical: u8,
    horizontal: u8,
    margins: u8,
    face: bool,
}

#[derive(Clone, Copy, Debug, PartialEq, Eq, Hash, Serialize, Deserialize)]
enum Unary {
    Container(ContP),
    Frame,
    Tag,
    Dynamic,
    Some,
    Either(bool),
    Trace,
    /// `{"type": "ref", "ref": uid}` resolved through a `ViewCache` that holds the child (the type has a JSON form
    /// only); the direct build is a `Dynamic` that hands out the child (a view that stands for another one)
    Ref,
}

#[derive(Clone, Copy, Debug, PartialEq, Eq, Hash, Serialize, Deserialize)]
struct FlexAttr {
    flex: u8,
    align: u8,
    face: bool,
}

#[derive(Clone, Debug, PartialEq, Eq, Hash, Serialize, Deserialize)]
enum Spec {
    Leaf(Leaf),
    Unary(Unary, Box<Spec>),
    /// (vertical?, justify index, children)
    Flex(bool, u8, Vec<(FlexAttr, Spec)>),
}

impl Spec {
    fn nodes(&self) -> usize {
        match self {
            Spec::Leaf(_) => 1,
            Spec::Unary(_, c) => 1 + c.nodes(),
            Spec::Flex(_, _, ch) => 1 + ch.iter().map(|(_, c)| c.nodes()).sum::<usize>(),
        }
    }
    fn glyph_sensitive(&self) -> bool {
        match self {
            Spec::Leaf(l) => matches!(l, Leaf::Glyph),
            Spec::Unary(u, c) => matches!(u, Unary::Frame) || c.glyph_sensitive(),
            Spec::Flex(_, _, ch) => ch.iter().any(|(_, c)| c.glyph_sensitive()),
        }
    }
    fn has_nan(&self) -> bool {
        match self {
            Spec::Leaf(_) => false,
            Spec::Unary(_, c) => c.has_nan(),
            Spec::Flex(_, _, ch) => ch.iter().any(|(a, c)| FLEX[a.flex as usize].is_some_and(f64::is_nan) || c.has_nan()),
        }
    }
    fn probes(&self) -> usize {
        match self {
            Spec::Leaf(l) => matches!(l, Leaf::ProbeFill | Leaf::ProbeFixed) as usize,
            Spec::Unary(_, c) => c.probes(),
            Spec::Flex(_, _, ch) => ch.iter().map(|(_, c)| c.probes()).sum(),
        }
    }
    fn kind(&self) -> &'static str {
        match self {
            Spec::Leaf(l) => match l {
                Leaf::ProbeFill | Leaf::ProbeFixed => "probe",
                Leaf::StrAb | Leaf::StrNl | Leaf::StrWide => "str",
                Leaf::TextNoWrap => "text",
                Leaf::Fill => "fill",
                Leaf::Unit => "unit",
                Leaf::Image => "image",
                Leaf::ImageAscii => "image_ascii",
                Leaf::Glyph => "glyph",
                Leaf::ScrollBar(..) => "scrollbar",
                Leaf::Surface => "surface",
                Leaf::None => "none",
            },
            Spec::Unary(u, _) => match u {
                Unary::Container(_) => "container",
                Unary::Frame => "frame",
                Unary::Tag => "tag",
                Unary::Dynamic => "dynamic",
                Unary::Some => "some",
                Unary::Either(_) => "either",
                Unary::Trace => "trace",
                Unary::Ref => "ref",
            },
            Spec::Flex(..) => "flex",
        }
    }
    /// does the statement bound the size of this view type by its constraint?
    fn size_bounded(&self) -> bool {
        matches!(self.kind(), "str" | "text" | "fill" | "unit" | "image" | "image_ascii" | "glyph" | "surface" | "container" | "flex")
    }
    fn show(&self) -> String {
        match self {
            Spec::Leaf(l) => format!("{l:?}"),
            Spec::Unary(Unary::Container(p), c) => format!(
                "Container{{size:{:?},v:{:?},h:{:?},margins:{:?}{}}}({})",
                SIZES[p.size as usize],
                ALIGNS[p.vertical as usize],
                ALIGNS[p.horizontal as usize],
                MARGINS[p.margins as usize],
                if p.face { ",face" } else { "" },
                c.show()
            ),
            Spec::Unary(u, c) => format!("{u:?}({})", c.show()),
            Spec::Flex(v, j, ch) => format!(
                "Flex{{{},{}}}[{}]",
                if *v { "vertical" } else { "horizontal" },
                JUSTIFY_NAMES[*j as usize],
                ch.iter()
                    .map(|(a, c)| format!(
                        "{{flex:{:?},align:{:?}{}}}{}",
                        FLEX[a.flex as usize],
                        ALIGNS[a.align as usize],
                        if a.face { ",face" } else { "" },
                        c.show()
                    ))
                    .collect::<Vec<_>>()
                    .join(", ")
            ),
        }
    }
}

// ---------------------------------------------------------------------------------------------
// shared resources and harness views
// ---------------------------------------------------------------------------------------------

struct Res {
    image: Image,
    image_small: Image,
    glyph: Glyph,
    surface: &'static SurfaceOwned<Cell>,
}

static RES: LazyLock<Res> = LazyLock::new(|| {
    let surf: SurfaceOwned<Cell> =
        SurfaceOwned::new_with(Size::new(2, 4), |pos| Cell::new_char(Face::default(), if pos.row == 0 { 's' } else { 't' }));
    Res {
        image: image_cells(2, 3, 40),
        image_small: gray_image(),
        glyph: make_glyph(Size::new(1, 2), "gl"),
        surface: Box::leak(Box::new(surf)),
    }
});

const GRAY_H: usize = 3;
const GRAY_W: usize = 4;

fn gray_bytes() -> Vec<u8> {
    (0..GRAY_H * GRAY_W).map(|i| (i * 20) as u8).collect()
}

/// 3x4 pixel gray image used by the ImageAsciiView leaf (2 x 4 cells)
fn gray_image() -> Image {
    let data: Vec<RGBA> = gray_bytes().into_iter().map(|v| RGBA::new(v, v, v, 255)).collect();
    Image::from_parts(data.into(), Shape::from(Size::new(GRAY_H, GRAY_W)))
}

fn fill_color() -> RGBA {
    RGBA::new(0, 128, 0, 255)
}

fn face_for(i: usize) -> Face {
    Face::new(None, Some(RGBA::new(255, (i * 40) as u8, 0, 255)), FaceAttrs::EMPTY)
}

fn face_str(i: usize) -> String {
    format!("bg=#ff{:02x}00", i * 40)
}

/// What the harness views record during one evaluation.
#[derive(Default)]
struct Log {
    /// (observed node index, constraint, reported size)
    sizes: Mutex<Vec<(usize, BoxConstraint, Size)>>,
    /// (probe id, shape handed to the probe after `apply_to`)
    probe_shapes: Mutex<Vec<(u8, Shape)>>,
    traces: AtomicU64,
}

impl Log {
    fn clear(&self) {
        self.sizes.lock().unwrap().clear();
        self.probe_shapes.lock().unwrap().clear();
    }
}

fn probe_char(id: u8) -> char {
    (b'A' + id) as char
}

/// Probe leaf: reports `ct.max` (fill) or a clamped 2x3 (fixed); paints its id over the whole
/// surface obtained from `Layout::apply_to` and records that surface's shape.
struct Probe {
    id: u8,
    fixed: bool,
    log: Arc<Log>,
}

impl View for Probe {
    fn render(&self, _ctx: &ViewContext, surf: TerminalSurface<'_>, layout: ViewLayout<'_>) -> Result<(), Error> {
        let mut surf = layout.apply_to(surf);
        self.log.probe_shapes.lock().unwrap().push((self.id, surf.shape()));
        surf.fill(Cell::new_char(Face::default(), probe_char(self.id)));
        Ok(())
    }

    fn layout(&self, _ctx: &ViewContext, ct: BoxConstraint, mut layout: ViewMutLayout<'_>) -> Result<(), Error> {
        let size = if self.fixed {
            Size::new(2.max(ct.min().height).min(ct.max().height), 3.max(ct.min().width).min(ct.max().width))
        } else {
            ct.max()
        };
        *layout = Layout::new().with_size(size);
        Ok(())
    }
}

/// Transparent wrapper recording the constraint given to and the size reported by a node.
struct Obs {
    node: usize,
    inner: Box<dyn View>,
    log: Arc<Log>,
}

impl View for Obs {
    fn render(&self, ctx: &ViewContext, surf: TerminalSurface<'_>, layout: ViewLayout<'_>) -> Result<(), Error> {
        self.inner.render(ctx, surf, layout)
    }

    fn layout(&self, ctx: &ViewContext, ct: BoxConstraint, mut layout: ViewMutLayout<'_>) -> Result<(), Error> {
        self.inner.layout(ctx, ct, layout.view_mut())?;
        self.log.sizes.lock().unwrap().push((self.node, ct, layout.size()));
        Ok(())
    }
}

/// View used by a JSON handler when its nested view cannot be deserialised.
struct FailView;

impl View for FailView {
    fn render(&self, _ctx: &ViewContext, _surf: TerminalSurface<'_>, _layout: ViewLayout<'_>) -> Result<(), Error> {
        Err(Error::InvalidLayout)
    }
    fn layout(&self, _ctx: &ViewContext, _ct: BoxConstraint, _layout: ViewMutLayout<'_>) -> Result<(), Error> {
        Err(Error::InvalidLayout)
    }
}

fn axis(vertical: bool) -> Axis {
    if vertical {
        Axis::Vertical
    } else {
        Axis::Horizontal
    }
}

fn leaf_view(leaf: Leaf, probe_id: &mut u8, log: &Arc<Log>) -> Box<dyn View> {
    match leaf {
        Leaf::ProbeFill | Leaf::ProbeFixed => {
            let id = *probe_id;
            *probe_id += 1;
            Box::new(Probe { id, fixed: leaf == Leaf::ProbeFixed, log: log.clone() })
        }
        Leaf::StrAb => Box::new("ab".to_string()),
        Leaf::StrNl => Box::new("a\nbcd".to_string()),
        Leaf::StrWide => Box::new("世x".to_string()),
        Leaf::TextNoWrap => {
            let mut text = Text::new().with_wraps(false);
            text.put_fmt("abcdefgh", None);
            Box::new(text)
        }
        Leaf::Fill => Box::new(fill_color()),
        Leaf::Unit => Box::new(()),
        Leaf::Image => Box::new(RES.image.clone()),
        Leaf::ImageAscii => Box::new(RES.image_small.ascii_view()),
        Leaf::Glyph => Box::new(RES.glyph.clone()),
        // 4..8: the callback variant of the scroll bar (position asked for at render time); with the last value the
        // position is what `ScrollBarPosition::from_counts` gives for an empty list (0 / 0)
        Leaf::ScrollBar(vertical, vis) if vis >= 4 => Box::new(surf_n_term::view::ScrollBarFn::new(
            axis(vertical),
            Face::new(Some(RGBA::new(0, 128, 0, 255)), Some(RGBA::new(128, 0, 0, 255)), FaceAttrs::EMPTY),
            move || {
                if vis == 7 {
                    ScrollBarPosition::from_counts(0, 0, 0)
                } else {
                    ScrollBarPosition { offset: 0.5, visible: VISIBLE[(vis - 4) as usize] }
                }
            },
        )),
        Leaf::ScrollBar(vertical, vis) => Box::new(ScrollBar::new(
            axis(vertical),
            Face::new(Some(RGBA::new(0, 128, 0, 255)), Some(RGBA::new(128, 0, 0, 255)), FaceAttrs::EMPTY),
            ScrollBarPosition { offset: 0.5, visible: VISIBLE[vis as usize] },
        )),
        Leaf::Surface => Box::new(RES.surface.as_ref()),
        Leaf::None => Box::new(Option::<Box<dyn View>>::None),
    }
}

fn margins_of(i: u8) -> Margins {
    let (left, right, top, bottom) = MARGINS[i as usize];
    Margins { left, right, top, bottom }
}

fn wrap_unary(u: Unary, child: Box<dyn View>, log: &Arc<Log>) -> Box<dyn View> {
    match u {
        Unary::Container(p) => {
            let (h, w) = SIZES[p.size as usize];
            let mut c = Container::new(child)
                .with_size(Size::new(h, w))
                .with_vertical(ALIGNS[p.vertical as usize])
                .with_horizontal(ALIGNS[p.horizontal as usize])
                .with_margins(margins_of(p.margins));
            if p.face {
                c = c.with_face(face_for(5));
            }
            Box::new(c)
        }
        Unary::Frame => Box::new(Frame::new(child, RGBA::new(10, 20, 30, 255), RGBA::new(200, 200, 200, 255), 0.1, 0.5)),
        Unary::Tag => Box::new(Tag::new(7u32, child)),
        Unary::Dynamic => {
            let child: ArcView<'static> = Arc::from(child);
            Box::new(Dynamic::new(move |_ctx: &ViewContext, _ct: BoxConstraint| child.clone()))
        }
        Unary::Some => Box::new(Some(child)),
        Unary::Either(left) => {
            if left {
                Box::new(Either::<Box<dyn View>, Box<dyn View>>::Left(child))
            } else {
                Box::new(Either::<Box<dyn View>, Box<dyn View>>::Right(child))
            }
        }
        Unary::Trace => {
            let log = log.clone();
            Box::new(child.trace_layout(move |_ct: &BoxConstraint, _layout: ViewLayout<'_>| {
                log.traces.fetch_add(1, Ordering::Relaxed);
            }))
        }
        // the direct twin of a reference: a view that stands for another one and is laid out in a node of its own
        Unary::Ref => {
            let child: ArcView<'static> = Arc::from(child);
            Box::new(Dynamic::new(move |_ctx: &ViewContext, _ct: BoxConstraint| child.clone()))
        }
    }
}

thread_local! {
    static GUARD_DEPTH: std::cell::Cell<usize> = const { std::cell::Cell::new(0) };
}

/// Pass-through wrapper around every view held by the cache: turns unbounded recursion through a reference (which
/// would overflow the stack and kill the process) into a panic that is reported as a finding.
struct Guard(Box<dyn View>);

impl Guard {
    fn enter<R>(f: impl FnOnce() -> R) -> R {
        let depth = GUARD_DEPTH.with(|d| {
            d.set(d.get() + 1);
            d.get()
        });
        if depth > 200 {
            GUARD_DEPTH.with(|d| d.set(0));
            panic!("a referenced view is entered recursively more than 200 levels deep (unbounded recursion)");
        }
        struct Leave;
        impl Drop for Leave {
            fn drop(&mut self) {
                GUARD_DEPTH.with(|d| d.set(d.get().saturating_sub(1)));
            }
        }
        let _leave = Leave;
        f()
    }
}

impl View for Guard {
    fn render(&self, ctx: &ViewContext, surf: TerminalSurface<'_>, layout: ViewLayout<'_>) -> Result<(), Error> {
        Guard::enter(|| self.0.render(ctx, surf, layout))
    }
    fn layout(&self, ctx: &ViewContext, ct: BoxConstraint, layout: ViewMutLayout<'_>) -> Result<(), Error> {
        Guard::enter(|| self.0.layout(ctx, ct, layout))
    }
}

/// cache behind the `ref` nodes of a JSON twin: filled by the `x-ref` handler while the tree is deserialised
#[derive(Default)]
struct TwinCache {
    views: Mutex<std::collections::HashMap<i64, ArcView<'static>>>,
}

impl surf_n_term::view::ViewCache for TwinCache {
    fn get(&self, uid: i64) -> Option<ArcView<'static>> {
        self.views.lock().unwrap().get(&uid).cloned()
    }
}

/// Direct build through the Rust API. Nodes are numbered in pre-order; every node is wrapped
/// in `Obs`. Returns the view and appends (node index -> spec) to `nodes`.
fn build<'s>(spec: &'s Spec, probe_id: &mut u8, nodes: &mut Vec<&'s Spec>, log: &Arc<Log>) -> Box<dyn View> {
    let node = nodes.len();
    nodes.push(spec);
    let inner: Box<dyn View> = match spec {
        Spec::Leaf(l) => leaf_view(*l, probe_id, log),
        Spec::Unary(u, c) => {
            let child = build(c, probe_id, nodes, log);
            wrap_unary(*u, child, log)
        }
        Spec::Flex(vertical, justify, children)
            if *vertical && children.iter().all(|(a, _)| FLEX[a.flex as usize].is_none_or(|f| f > 0.0)) =>
        {
            // `Flex` proper (its builder drops non-positive factors, so it is used only when all
            // factors are positive); vertical ones, so that both flex types see every parameter
            let mut flex = Flex::new(Axis::Vertical).justify(JUSTIFY[*justify as usize]);
            for (i, (attr, c)) in children.iter().enumerate() {
                flex.push_child_ext(
                    build(c, probe_id, nodes, log),
                    FLEX[attr.flex as usize],
                    attr.face.then(|| face_for(i)),
                    ALIGNS[attr.align as usize],
                );
            }
            Box::new(flex)
        }
        Spec::Flex(vertical, justify, children) => {
            let mut v: Vec<FlexChild<Box<dyn View>>> = Vec::new();
            for (i, (attr, c)) in children.iter().enumerate() {
                let mut fc = FlexChild::new(build(c, probe_id, nodes, log)).align(ALIGNS[attr.align as usize]);
                if let Some(f) = FLEX[attr.flex as usize] {
                    fc = fc.flex(f);
                }
                if attr.face {
                    fc = fc.face(face_for(i));
                }
                v.push(fc);
            }
            Box::new(FlexRef::new(v).direction(axis(*vertical)).justify(JUSTIFY[*justify as usize]))
        }
    };
    Box::new(Obs { node, inner, log: log.clone() })
}

// ---------------------------------------------------------------------------------------------
// JSON twin
// ---------------------------------------------------------------------------------------------

fn base64(data: &[u8]) -> String {
    const T: &[u8; 64] = b"ABCDEFGHIJKLMNOPQRSTUVWXYZabcdefghijklmnopqrstuvwxyz0123456789+/";
    let mut s = String::new();
    for chunk in data.chunks(3) {
        let b = [chunk[0], *chunk.get(1).unwrap_or(&0), *chunk.get(2).unwrap_or(&0)];
        let n = (b[0] as u32) << 16 | (b[1] as u32) << 8 | b[2] as u32;
        s.push(T[(n >> 18) as usize & 63] as char);
        s.push(T[(n >> 12) as usize & 63] as char);
        s.push(if chunk.len() > 1 { T[(n >> 6) as usize & 63] as char } else { '=' });
        s.push(if chunk.len() > 2 { T[n as usize & 63] as char } else { '=' });
    }
    s
}

fn align_json(a: Align) -> Value {
    match a {
        Align::Start => json!("start"),
        Align::Center => json!("center"),
        Align::End => json!("end"),
        Align::Expand => json!("expand"),
        Align::Shrink => json!("shrink"),
        Align::Offset(n) => json!({ "offset": n }),
    }
}

fn image_json(kind: &str, image: &Image) -> Value {
    let mut bytes = vec![];
    for px in image.iter() {
        bytes.extend_from_slice(&px.to_rgba());
    }
    json!({"type": kind, "size": [image.height(), image.width()], "channels": 4, "data": base64(&bytes)})
}

/// JSON form of a tree (probe ids assigned in the same pre-order as `build`).
fn to_json(spec: &Spec, probe_id: &mut u8) -> Value {
    match spec {
        Spec::Leaf(l) => match l {
            Leaf::ProbeFill | Leaf::ProbeFixed => {
                let id = *probe_id;
                *probe_id += 1;
                json!({"type": "x-probe", "id": id, "fixed": *l == Leaf::ProbeFixed})
            }
            Leaf::StrAb => json!({"type": "text", "text": "ab"}),
            Leaf::StrNl => json!({"type": "text", "text": ["a\n", {"text": "bcd"}]}),
            Leaf::StrWide => json!({"type": "text", "text": "世x"}),
            Leaf::TextNoWrap => json!({"type": "text", "wraps": false, "text": "abcdefgh"}),
            Leaf::Fill => json!({"type": "x-fill"}),
            Leaf::Unit => json!({"type": "x-unit"}),
            Leaf::Image => image_json("image", &RES.image),
            Leaf::ImageAscii => {
                json!({"type": "image_ascii", "size": {"height": GRAY_H, "width": GRAY_W}, "channels": 1, "data": base64(&gray_bytes())})
            }
            Leaf::Glyph => json!({"type": "glyph", "path": "M1,1 h18 v18 h-18 Z", "size": [1, 2], "fallback": "gl"}),
            Leaf::ScrollBar(vertical, vis) => json!({"type": "x-scrollbar", "vertical": vertical, "visible": vis}),
            Leaf::Surface => json!({"type": "x-surface"}),
            Leaf::None => json!({"type": "x-none"}),
        },
        Spec::Unary(u, c) => {
            let child = to_json(c, probe_id);
            match u {
                Unary::Container(p) => {
                    let (h, w) = SIZES[p.size as usize];
                    let (left, right, top, bottom) = MARGINS[p.margins as usize];
                    let mut v = json!({
                        "type": "container",
                        "vertical": align_json(ALIGNS[p.vertical as usize]),
                        "horizontal": align_json(ALIGNS[p.horizontal as usize]),
                        "margins": {"left": left, "right": right, "top": top, "bottom": bottom},
                        "size": {"height": h, "width": w},
                        "child": child,
                    });
                    if p.face {
                        v["face"] = json!(face_str(5));
                    }
                    v
                }
                Unary::Frame => json!({"type": "x-frame", "view": child}),
                Unary::Tag => json!({"type": "tag", "tag": 7, "view": child}),
                Unary::Dynamic => json!({"type": "x-dynamic", "view": child}),
                Unary::Some => json!({"type": "x-some", "view": child}),
                Unary::Either(left) => json!({"type": "x-either", "left": left, "view": child}),
                Unary::Trace => json!({"type": "trace-layout", "msg": "c10", "view": child}),
                Unary::Ref => {
                    // the uid is the probe counter at this point plus a hash of the child: unique within one tree
                    let uid = (crate::engine::util::hash64(&child.to_string()) >> 16) as i64;
                    json!({"type": "x-ref", "uid": uid, "view": child})
                }
            }
        }
        Spec::Flex(vertical, justify, children) => {
            let mut list = vec![];
            for (i, (attr, c)) in children.iter().enumerate() {
                let view = to_json(c, probe_id);
                let plain = FLEX[attr.flex as usize].is_none() && attr.align == 0 && !attr.face;
                if plain && i % 2 == 1 {
                    // the bare form: a child that is itself a view object
                    list.push(view);
                } else {
                    let mut v = json!({"align": align_json(ALIGNS[attr.align as usize]), "view": view});
                    if let Some(f) = FLEX[attr.flex as usize] {
                        v["flex"] = json!(f);
                    }
                    if attr.face {
                        v["face"] = json!(face_str(i));
                    }
                    list.push(v);
                }
            }
            json!({
                "type": "flex",
                "direction": if *vertical { "vertical" } else { "horizontal" },
                "justify": JUSTIFY_NAMES[*justify as usize],
                "children": list,
            })
        }
    }
}

fn nested(seed: &ViewDeserializer<'_>, value: &Value) -> Box<dyn View> {
    use serde::de::DeserializeSeed;
    match value.get("view") {
        Some(v) => match seed.deserialize(v) {
            Ok(view) => Box::new(view),
            Err(_) => Box::new(FailView),
        },
        None => Box::new(FailView),
    }
}

/// Deserializer with handlers for the view types that have no JSON form of their own.
fn deserializer(log: &Arc<Log>) -> ViewDeserializer<'static> {
    let cache = Arc::new(TwinCache::default());
    let dyn_cache: Arc<dyn surf_n_term::view::ViewCache> = cache.clone();
    let mut de = ViewDeserializer::new(None, Some(dyn_cache));
    // `x-ref`: deserialise the nested view, put it into the cache, and hand back the library's own `ref` node
    let c = cache.clone();
    de.register("x-ref", move |seed: &ViewDeserializer<'_>, v: &Value| -> ArcView<'static> {
        use serde::de::DeserializeSeed;
        let uid = v["uid"].as_i64().unwrap_or(0);
        let child: ArcView<'static> = Arc::new(Guard(nested(seed, v)));
        c.views.lock().unwrap().insert(uid, child);
        match seed.deserialize(&json!({"type": "ref", "ref": uid})) {
            Ok(view) => view,
            Err(_) => Arc::new(FailView),
        }
    });
    let l = log.clone();
    de.register("x-probe", move |_seed: &ViewDeserializer<'_>, v: &Value| -> ArcView<'static> {
        Arc::new(Probe { id: v["id"].as_u64().unwrap_or(0) as u8, fixed: v["fixed"].as_bool().unwrap_or(false), log: l.clone() })
    });
    de.register("x-fill", |_seed: &ViewDeserializer<'_>, _v: &Value| -> ArcView<'static> { Arc::new(fill_color()) });
    de.register("x-unit", |_seed: &ViewDeserializer<'_>, _v: &Value| -> ArcView<'static> { Arc::new(()) });
    let l = log.clone();
    de.register("x-scrollbar", move |_seed: &ViewDeserializer<'_>, v: &Value| -> ArcView<'static> {
        let mut id = 0;
        Arc::from(leaf_view(
            Leaf::ScrollBar(v["vertical"].as_bool().unwrap_or(false), v["visible"].as_u64().unwrap_or(0) as u8),
            &mut id,
            &l,
        ))
    });
    de.register("x-surface", |_seed: &ViewDeserializer<'_>, _v: &Value| -> ArcView<'static> { Arc::new(RES.surface.as_ref()) });
    de.register("x-none", |_seed: &ViewDeserializer<'_>, _v: &Value| -> ArcView<'static> {
        Arc::new(Option::<Box<dyn View>>::None)
    });
    for (name, unary) in [
        ("x-frame", Unary::Frame),
        ("x-dynamic", Unary::Dynamic),
        ("x-some", Unary::Some),
    ] {
        let l = log.clone();
        de.register(name, move |seed: &ViewDeserializer<'_>, v: &Value| -> ArcView<'static> {
            Arc::from(wrap_unary(unary, nested(seed, v), &l))
        });
    }
    let l = log.clone();
    de.register("x-either", move |seed: &ViewDeserializer<'_>, v: &Value| -> ArcView<'static> {
        Arc::from(wrap_unary(Unary::Either(v["left"].as_bool().unwrap_or(true)), nested(seed, v), &l))
    });
    de
}

// ---------------------------------------------------------------------------------------------
// one evaluation: layout + render + oracles
// ---------------------------------------------------------------------------------------------

struct Found {
    kind: String,
    detail: String,
}

#[derive(Clone, Copy, Debug, PartialEq, Eq)]
struct Rect {
    r0: u128,
    r1: u128,
    c0: u128,
    c1: u128,
}

impl Rect {
    fn intersect(&self, o: &Rect) -> Rect {
        let r = Rect { r0: self.r0.max(o.r0), r1: self.r1.min(o.r1), c0: self.c0.max(o.c0), c1: self.c1.min(o.c1) };
        if r.r0 >= r.r1 || r.c0 >= r.c1 {
            Rect { r0: 0, r1: 0, c0: 0, c1: 0 }
        } else {
            r
        }
    }
    fn contains(&self, r: usize, c: usize) -> bool {
        let (r, c) = (r as u128, c as u128);
        self.r0 <= r && r < self.r1 && self.c0 <= c && c < self.c1
    }
    fn cells(&self) -> Vec<(usize, usize)> {
        let mut v = vec![];
        for r in self.r0..self.r1 {
            for c in self.c0..self.c1 {
                v.push((r as usize, c as usize));
            }
        }
        v
    }
}

struct ProbeExpect {
    rect: Rect,
    node: *const Layout,
}

/// Harness reading of the layout tree: where each probe of `spec` must paint.
/// `origin` = absolute position of the parent's top-left corner, `clip` = visible region so far.
fn walk(
    spec: &Spec,
    node: &ViewLayout<'_>,
    origin: (u128, u128),
    clip: Rect,
    glyphs: bool,
    out: &mut Vec<ProbeExpect>,
) -> Result<(), String> {
    let transparent = match spec {
        Spec::Unary(Unary::Some | Unary::Either(_) | Unary::Trace, _) => true,
        Spec::Unary(Unary::Frame, _) => !glyphs,
        _ => false,
    };
    if transparent {
        let Spec::Unary(_, child) = spec else { unreachable!() };
        return walk(child, node, origin, clip, glyphs, out);
    }
    let pos = node.position();
    let size = node.size();
    let abs = (origin.0 + pos.row as u128, origin.1 + pos.col as u128);
    let rect = Rect { r0: abs.0, r1: abs.0 + size.height as u128, c0: abs.1, c1: abs.1 + size.width as u128 };
    let clip = clip.intersect(&rect);
    match spec {
        Spec::Leaf(Leaf::ProbeFill | Leaf::ProbeFixed) => {
            out.push(ProbeExpect { rect: clip, node: node.value() as *const Layout });
            Ok(())
        }
        Spec::Leaf(_) => Ok(()),
        Spec::Unary(_, child) => {
            let mut children = node.children();
            let Some(first) = children.next() else {
                // a flex child whose share is empty is never laid out (its node stays the default
                // one) and never rendered: legitimate as long as nothing below it can be visible
                if clip.r0 == clip.r1 {
                    for _ in 0..spec.probes() {
                        out.push(ProbeExpect { rect: clip, node: std::ptr::null() });
                    }
                    return Ok(());
                }
                return Err(format!("layout node of {} has no child node", spec.kind()));
            };
            if children.next().is_some() {
                return Err(format!("layout node of {} has more than one child node", spec.kind()));
            }
            walk(child, &first, abs, clip, glyphs, out)
        }
        Spec::Flex(_, _, specs) => {
            let nodes: Vec<_> = node.children().collect();
            if nodes.is_empty() && clip.r0 == clip.r1 {
                for _ in 0..spec.probes() {
                    out.push(ProbeExpect { rect: clip, node: std::ptr::null() });
                }
                return Ok(());
            }
            if nodes.len() != specs.len() {
                return Err(format!("flex with {} children has {} layout child nodes", specs.len(), nodes.len()));
            }
            for ((_, child), child_node) in specs.iter().zip(nodes.iter()) {
                walk(child, child_node, abs, clip, glyphs, out)?;
            }
            Ok(())
        }
    }
}

fn layout_sig(node: &ViewLayout<'_>, depth: u8, out: &mut Vec<(u8, Position, Size)>) {
    out.push((depth, node.position(), node.size()));
    for child in node.children() {
        layout_sig(&child, depth + 1, out);
    }
}

fn cell_class(cell: &Cell, ppc: Size) -> (u8, u32, usize, usize) {
    match cell.kind() {
        CellKind::Char(c) => (0, *c as u32, 0, 0),
        CellKind::Glyph(g) => (1, 0, g.size().height, g.size().width),
        CellKind::Image(i) => {
            let s = i.size_cells(ppc);
            (2, 0, s.height, s.width)
        }
    }
}

fn show_canvas(data: &[Cell], width: usize) -> String {
    let mut s = String::new();
    for (i, cell) in data.iter().enumerate() {
        if i % width == 0 {
            s.push_str("\n    |");
        }
        s.push(match cell.kind() {
            CellKind::Char(c) if *c == SENT_CHAR && *cell != sentinel() => '%',
            CellKind::Char(c) if (*c as u32) < 0x20 => '^',
            CellKind::Char(c) => *c,
            CellKind::Glyph(_) => 'G',
            CellKind::Image(_) => 'I',
        });
    }
    s
}

#[derive(Clone, Copy, Debug, PartialEq, Eq, Hash)]
struct Ct {
    min: Size,
    max: Size,
}

impl Ct {
    fn json(&self) -> Value {
        json!([self.min.height, self.min.width, self.max.height, self.max.width])
    }
}

fn constraints() -> Vec<Ct> {
    let hs = [0usize, 1, 2, 5];
    let ws = [0usize, 1, 3, 7];
    let mut v = vec![];
    for (i, hmin) in hs.iter().enumerate() {
        for hmax in &hs[i..] {
            for (j, wmin) in ws.iter().enumerate() {
                for wmax in &ws[j..] {
                    v.push(Ct { min: Size::new(*hmin, *wmin), max: Size::new(*hmax, *wmax) });
                }
            }
        }
    }
    v
}

struct EvalOut {
    layout: Vec<(u8, Position, Size)>,
    canvas: Vec<((u8, u32, usize, usize), Face)>,
    painted: usize,
    root_size: Size,
}

/// Lay out and render `view` (built from `spec`) under `ct`; check every oracle.
/// `nodes` (pre-order specs of the `Obs` wrappers) is present for the direct build only.
fn evaluate(
    spec: &Spec,
    view: &dyn View,
    nodes: Option<&[&Spec]>,
    log: &Log,
    vctx: &ViewContext,
    ct: Ct,
    glyphs: bool,
) -> Result<EvalOut, Found> {
    log.clear();
    let mut store = ViewLayoutStore::new();
    let bc = BoxConstraint::new(ct.min, ct.max);
    let layout = match catch(|| view.layout_new(vctx, bc, &mut store)) {
        Err(p) => {
            return Err(Found { kind: p.key(), detail: format!("layout panicked: {} ({}:{})", p.message, p.file, p.line) })
        }
        Ok(Err(e)) => return Err(Found { kind: format!("layout-error:{}", spec.kind()), detail: format!("layout returned {e:?}") }),
        Ok(Ok(l)) => l,
    };
    let root = layout.view();
    let tree_dump = || format!("{:?}", layout.view());

    // sizes within the constraint each bounded view was given
    if let Some(nodes) = nodes {
        for (node, nct, size) in log.sizes.lock().unwrap().iter() {
            let ns = nodes[*node];
            let (min, max) = (nct.min(), nct.max());
            if !ns.size_bounded() || min.height > max.height || min.width > max.width {
                continue;
            }
            if size.height < min.height || size.height > max.height || size.width < min.width || size.width > max.width {
                return Err(Found {
                    kind: format!("size-outside-constraint:{}", ns.kind()),
                    detail: format!(
                        "view #{} {} was given constraint min={:?} max={:?} and reported size {:?}; expected min <= size <= max; layout tree:{}",
                        node, ns.show(), min, max, size, tree_dump()
                    ),
                });
            }
        }
    }

    // render into a sentinel-bordered sub-view of size ct.max
    let (h, w) = (ct.max.height, ct.max.width);
    let cw = w + 2;
    let mut data = vec![sentinel(); (h + 2) * cw];
    let start = cw + 1;
    let shape = Shape {
        start,
        end: if h == 0 || w == 0 { start } else { start + (h - 1) * cw + w },
        width: w,
        height: h,
        row_stride: cw,
        col_stride: 1,
    };
    let rendered = {
        let surf = SurfaceMutView::new(shape, &mut data[..]);
        catch(|| view.render(vctx, surf, layout.view()))
    };
    match rendered {
        Err(p) => {
            return Err(Found {
                kind: p.key(),
                detail: format!("render panicked: {} ({}:{}); layout tree:{}", p.message, p.file, p.line, tree_dump()),
            })
        }
        Ok(Err(e)) => {
            return Err(Found {
                kind: format!("render-error:{}", spec.kind()),
                detail: format!("render of the layout computed by the same view returned {e:?}; layout tree:{}", tree_dump()),
            })
        }
        Ok(Ok(())) => {}
    }
    let sent = sentinel();
    for (i, cell) in data.iter().enumerate() {
        let (r, c) = (i / cw, i % cw);
        let inside = r >= 1 && r <= h && c >= 1 && c <= w;
        if !inside && *cell != sent {
            return Err(Found {
                kind: format!("border-modified:{}", spec.kind()),
                detail: format!(
                    "cell (row {}, col {}) of the canvas lies outside the {}x{} surface given to render (origin at 1,1) but was changed; canvas:{}\n  layout tree:{}",
                    r, c, h, w, show_canvas(&data, cw), tree_dump()
                ),
            });
        }
    }

    // probes
    let mut expect = vec![];
    let surface_rect = if h == 0 || w == 0 { Rect { r0: 0, r1: 0, c0: 0, c1: 0 } } else { Rect { r0: 0, r1: h as u128, c0: 0, c1: w as u128 } };
    if let Err(e) = walk(spec, &root, (0, 0), surface_rect, glyphs, &mut expect) {
        return Err(Found { kind: format!("layout-tree-shape:{}", spec.kind()), detail: format!("{e}; layout tree:{}", tree_dump()) });
    }
    let root_pos = root.position();
    let mut painted_total = 0;
    for (id, pe) in expect.iter().enumerate() {
        let ch = probe_char(id as u8);
        let mut painted = vec![];
        for r in 0..h {
            for c in 0..w {
                if matches!(data[(r + 1) * cw + c + 1].kind(), CellKind::Char(x) if *x == ch) {
                    painted.push((r, c));
                }
            }
        }
        painted_total += painted.len();
        let expected = pe.rect.cells();
        if painted != expected {
            let outside = painted.iter().any(|(r, c)| !pe.rect.contains(*r, *c));
            return Err(Found {
                kind: format!("{}:{}", if outside { "probe-paints-outside-layout-rect" } else { "probe-layout-rect-not-painted" }, spec.kind()),
                detail: format!(
                    "probe {} : the layout tree places it at rows {}..{} cols {}..{} of the surface (positions summed, clipped by ancestors and surface) but it painted {:?}; canvas:{}\n  layout tree:{}",
                    ch, pe.rect.r0, pe.rect.r1, pe.rect.c0, pe.rect.c1, painted, show_canvas(&data, cw), tree_dump()
                ),
            });
        }
        for (r, c) in &painted {
            if *r < root_pos.row || *c < root_pos.col {
                continue;
            }
            let pos = Position::new(r - root_pos.row, c - root_pos.col);
            let last = root.find_path(pos).last();
            if !last.is_some_and(|l| std::ptr::eq(l as *const Layout, pe.node)) {
                return Err(Found {
                    kind: format!("find-path-wrong-node:{}", spec.kind()),
                    detail: format!(
                        "probe {} painted surface cell ({}, {}) but find_path({:?}) ends at {:?}, expected the probe's node {:?}; layout tree:{}",
                        ch, r, c, pos, last, unsafe { &*pe.node }, tree_dump()
                    ),
                });
            }
        }
    }

    let mut sig = vec![];
    layout_sig(&root, 0, &mut sig);
    let ppc = vctx.pixels_per_cell();
    let canvas = data.iter().map(|c| (cell_class(c, ppc), c.face())).collect();
    Ok(EvalOut { layout: sig, canvas, painted: painted_total, root_size: root.size() })
}

// ---------------------------------------------------------------------------------------------
// one tree: direct build + JSON twin over all constraints
// ---------------------------------------------------------------------------------------------

struct Ctxs {
    on: ViewContext,
    off: ViewContext,
}

impl Ctxs {
    fn new() -> Self {
        LazyLock::force(&RES);
        Self { on: view_ctx(true), off: view_ctx(false) }
    }
    fn get(&self, glyphs: bool) -> &ViewContext {
        if glyphs {
            &self.on
        } else {
            &self.off
        }
    }
}

fn build_twin(spec: &Spec, log: &Arc<Log>) -> Result<ArcView<'static>, Found> {
    use serde::de::DeserializeSeed;
    let mut id = 0;
    let value = to_json(spec, &mut id);
    let de = deserializer(log);
    match catch(|| de.deserialize(&value)) {
        Err(p) => Err(Found { kind: p.key(), detail: format!("ViewDeserializer panicked: {} ({}:{}) on {}", p.message, p.file, p.line, value) }),
        Ok(Err(e)) => Err(Found { kind: format!("json-twin-rejected:{}", spec.kind()), detail: format!("ViewDeserializer rejected the JSON form: {e}; json: {value}") }),
        Ok(Ok(v)) => Ok(v),
    }
}

#[derive(Default)]
struct Counters {
    trees: AtomicU64,
    evaluations: AtomicU64,
    twin_evaluations: AtomicU64,
    twin_trees: AtomicU64,
    no_json_form: AtomicU64,
    nontrivial: AtomicU64,
    probe_cells: AtomicU64,
    violating_cases: AtomicU64,
}

fn witness(spec: &Spec, ct: Ct, glyphs: bool, twin: bool) -> Value {
    json!({"spec": serde_json::to_value(spec).unwrap_or(Value::Null), "ct": ct.json(), "glyphs": glyphs, "twin": twin})
}

/// Compare the twin with the direct build for one case.
fn twin_differs(direct: &EvalOut, twin: &EvalOut) -> Option<String> {
    if direct.layout != twin.layout {
        return Some(format!("layout trees differ: direct (depth,pos,size)={:?} json={:?}", direct.layout, twin.layout));
    }
    if direct.canvas != twin.canvas {
        let i = direct.canvas.iter().zip(&twin.canvas).position(|(a, b)| a != b).unwrap_or(0);
        return Some(format!("same layout {:?} but canvases differ at canvas cell #{}: direct {:?} json {:?}", direct.layout, i, direct.canvas[i], twin.canvas[i]));
    }
    None
}

fn check_tree(
    spec: &Spec,
    ctxs: &Ctxs,
    cts: &[Ct],
    counters: &Counters,
    viol: &Violations,
    samples: &Samples,
    layouts: &mut HashSet<u64>,
) {
    counters.trees.fetch_add(1, Ordering::Relaxed);
    let log = Arc::new(Log::default());
    let mut nodes = vec![];
    let mut id = 0;
    let view = match catch(|| build(spec, &mut id, &mut nodes, &log)) {
        Ok(v) => v,
        Err(p) => {
            viol.add(p.key(), format!("building {} panicked: {}", spec.show(), p.message), witness(spec, cts[0], false, false));
            return;
        }
    };
    let twin_log = Arc::new(Log::default());
    let twin: Option<ArcView<'static>> = if spec.has_nan() {
        counters.no_json_form.fetch_add(1, Ordering::Relaxed);
        None
    } else {
        match build_twin(spec, &twin_log) {
            Ok(v) => {
                counters.twin_trees.fetch_add(1, Ordering::Relaxed);
                Some(v)
            }
            Err(f) => {
                viol.add(f.kind, format!("{}: {}", spec.show(), f.detail), witness(spec, cts[0], false, true));
                None
            }
        }
    };
    let glyph_settings: &[bool] = if spec.glyph_sensitive() { &[false, true] } else { &[false] };
    let mut evals = 0u64;
    let mut twin_evals = 0u64;
    let mut nontrivial = 0u64;
    let mut probe_cells = 0u64;
    let tree_hash = hash64(spec);
    for glyphs in glyph_settings {
        let vctx = ctxs.get(*glyphs);
        for (cti, ct) in cts.iter().enumerate() {
            evals += 1;
            samples.offer(tree_hash ^ (cti as u64) << 1 ^ *glyphs as u64, || {
                json!({"tree": spec.show(), "constraint_min_max": ct.json(), "glyphs": glyphs})
            });
            let direct = match evaluate(spec, &*view, Some(&nodes), &log, vctx, *ct, *glyphs) {
                Ok(o) => o,
                Err(f) => {
                    counters.violating_cases.fetch_add(1, Ordering::Relaxed);
                    viol.add(
                        f.kind,
                        format!("{} under min={:?} max={:?} glyphs={}: {}", spec.show(), ct.min, ct.max, glyphs, f.detail),
                        witness(spec, *ct, *glyphs, false),
                    );
                    continue;
                }
            };
            if !direct.root_size.is_empty() && direct.canvas.iter().any(|(k, _)| *k != (0, SENT_CHAR as u32, 0, 0)) {
                nontrivial += 1;
            }
            probe_cells += direct.painted as u64;
            layouts.insert(hash64(&direct.layout));
            if let Some(twin) = &twin {
                twin_evals += 1;
                match evaluate(spec, &**twin, None, &twin_log, vctx, *ct, *glyphs) {
                    Ok(t) => {
                        if let Some(d) = twin_differs(&direct, &t) {
                            counters.violating_cases.fetch_add(1, Ordering::Relaxed);
                            viol.add(
                                format!("json-twin-differs:{}", spec.kind()),
                                format!("{} under min={:?} max={:?} glyphs={}: rebuilt through ViewDeserializer: {}", spec.show(), ct.min, ct.max, glyphs, d),
                                witness(spec, *ct, *glyphs, true),
                            );
                        }
                    }
                    Err(f) => {
                        counters.violating_cases.fetch_add(1, Ordering::Relaxed);
                        viol.add(
                            format!("json:{}", f.kind),
                            format!("{} rebuilt through ViewDeserializer, under min={:?} max={:?} glyphs={}: {}", spec.show(), ct.min, ct.max, glyphs, f.detail),
                            witness(spec, *ct, *glyphs, true),
                        );
                    }
                }
            }
        }
    }
    counters.evaluations.fetch_add(evals, Ordering::Relaxed);
    counters.twin_evaluations.fetch_add(twin_evals, Ordering::Relaxed);
    counters.nontrivial.fetch_add(nontrivial, Ordering::Relaxed);
    counters.probe_cells.fetch_add(probe_cells, Ordering::Relaxed);
}

// ---------------------------------------------------------------------------------------------
// grammars and enumeration
// ---------------------------------------------------------------------------------------------

struct Grammar {
    name: &'static str,
    atoms: Vec<Spec>,
    unaries: Vec<Unary>,
    /// (vertical?, justify index)
    dj: Vec<(bool, u8)>,
    attrs: Vec<FlexAttr>,
    max_children: usize,
    empty_flex: bool,
    /// children of a flex are atoms only (no nesting)
    flat: bool,
}

enum Block {
    Atoms,
    EmptyFlex,
    Unary,
    Flex(Vec<usize>),
}

fn compositions(total: usize, max_parts: usize) -> Vec<Vec<usize>> {
    fn rec(rest: usize, parts_left: usize, cur: &mut Vec<usize>, out: &mut Vec<Vec<usize>>) {
        if rest == 0 {
            if !cur.is_empty() {
                out.push(cur.clone());
            }
            return;
        }
        if parts_left == 0 {
            return;
        }
        for first in 1..=rest {
            cur.push(first);
            rec(rest - first, parts_left - 1, cur, out);
            cur.pop();
        }
    }
    let mut out = vec![];
    rec(total, max_parts, &mut vec![], &mut out);
    out
}

impl Grammar {
    /// blocks of level `n` with their sizes, given the materialised lower levels
    fn blocks(&self, n: usize, lower: &[Vec<Spec>]) -> Vec<(Block, u64)> {
        let mut v = vec![];
        if n == 1 {
            v.push((Block::Atoms, self.atoms.len() as u64));
            if self.empty_flex {
                v.push((Block::EmptyFlex, self.dj.len() as u64));
            }
            return v;
        }
        if !self.unaries.is_empty() {
            v.push((Block::Unary, self.unaries.len() as u64 * lower[n - 1].len() as u64));
        }
        for comp in compositions(n - 1, self.max_children) {
            if self.flat && comp.iter().any(|p| *p != 1) {
                continue;
            }
            let mut count = self.dj.len() as u64;
            for p in &comp {
                count *= self.attrs.len() as u64 * self.child_pool(*p, lower).len() as u64;
            }
            if count > 0 {
                v.push((Block::Flex(comp), count));
            }
        }
        v
    }

    fn child_pool<'a>(&'a self, size: usize, lower: &'a [Vec<Spec>]) -> &'a [Spec] {
        if self.flat {
            &self.atoms
        } else {
            &lower[size]
        }
    }

    fn get(&self, n: usize, lower: &[Vec<Spec>], blocks: &[(Block, u64)], mut idx: u64) -> Spec {
        for (block, count) in blocks {
            if idx >= *count {
                idx -= count;
                continue;
            }
            return match block {
                Block::Atoms => self.atoms[idx as usize].clone(),
                Block::EmptyFlex => {
                    let (v, j) = self.dj[idx as usize];
                    Spec::Flex(v, j, vec![])
                }
                Block::Unary => {
                    let u = self.unaries[(idx % self.unaries.len() as u64) as usize];
                    let child = &lower[n - 1][(idx / self.unaries.len() as u64) as usize];
                    Spec::Unary(u, Box::new(child.clone()))
                }
                Block::Flex(comp) => {
                    let (v, j) = self.dj[(idx % self.dj.len() as u64) as usize];
                    idx /= self.dj.len() as u64;
                    let mut children = vec![];
                    for p in comp {
                        let pool = self.child_pool(*p, lower);
                        let attr = self.attrs[(idx % self.attrs.len() as u64) as usize];
                        idx /= self.attrs.len() as u64;
                        let child = &pool[(idx % pool.len() as u64) as usize];
                        idx /= pool.len() as u64;
                        children.push((attr, child.clone()));
                    }
                    Spec::Flex(v, j, children)
                }
            };
        }
        unreachable!("index out of range")
    }
}

fn leaf(l: Leaf) -> Spec {
    Spec::Leaf(l)
}

fn all_dj() -> Vec<(bool, u8)> {
    let mut v = vec![];
    for vertical in [false, true] {
        for j in 0..6 {
            v.push((vertical, j));
        }
    }
    v
}

fn attrs(flex: &[u8], aligns: &[u8], faces: &[bool]) -> Vec<FlexAttr> {
    let mut v = vec![];
    for f in flex {
        for a in aligns {
            for face in faces {
                v.push(FlexAttr { flex: *f, align: *a, face: *face });
            }
        }
    }
    v
}

fn cont(size: u8, vertical: u8, horizontal: u8, margins: u8, face: bool) -> Unary {
    Unary::Container(ContP { size, vertical, horizontal, margins, face })
}

fn grammar_structure() -> Grammar {
    Grammar {
        name: "S1-structure",
        atoms: vec![leaf(Leaf::ProbeFill), leaf(Leaf::ProbeFixed), leaf(Leaf::StrNl), leaf(Leaf::ScrollBar(true, 1)), leaf(Leaf::Fill)],
        unaries: vec![
            cont(0, 1, 1, 1, true),
            cont(0, 4, 5, 0, false),
            cont(1, 2, 3, 2, false),
            cont(2, 6, 4, 0, true),
            Unary::Frame,
            Unary::Tag,
            Unary::Dynamic,
            Unary::Ref,
        ],
        dj: vec![(false, 0), (false, 4), (true, 0), (true, 4)],
        attrs: vec![FlexAttr { flex: 0, align: 0, face: false }, FlexAttr { flex: 1, align: 2, face: true }],
        max_children: 3,
        empty_flex: true,
        flat: false,
    }
}

fn all_leaves() -> Vec<Spec> {
    let mut v = vec![
        leaf(Leaf::ProbeFill),
        leaf(Leaf::ProbeFixed),
        leaf(Leaf::StrAb),
        leaf(Leaf::StrNl),
        leaf(Leaf::StrWide),
        leaf(Leaf::TextNoWrap),
        leaf(Leaf::Fill),
        leaf(Leaf::Unit),
        leaf(Leaf::Image),
        leaf(Leaf::ImageAscii),
        leaf(Leaf::Glyph),
        leaf(Leaf::Surface),
        leaf(Leaf::None),
    ];
    for vertical in [false, true] {
        for vis in 0..8 {
            v.push(leaf(Leaf::ScrollBar(vertical, vis)));
        }
    }
    v
}

const DECORATORS: [Unary; 8] =
    [Unary::Frame, Unary::Tag, Unary::Dynamic, Unary::Some, Unary::Either(true), Unary::Either(false), Unary::Trace, Unary::Ref];

fn grammar_rich() -> Grammar {
    let mut unaries = vec![];
    for size in 0..3 {
        for v in 0..8 {
            for h in 0..8 {
                for m in 0..4 {
                    unaries.push(cont(size, v, h, m, m == 1));
                }
            }
        }
    }
    unaries.extend(DECORATORS);
    Grammar {
        name: "S2-rich",
        atoms: all_leaves(),
        unaries,
        dj: all_dj(),
        attrs: attrs(&[0, 1, 2, 3, 4, 5, 6], &FLEX_ALIGNS, &[false, true]),
        max_children: 3,
        empty_flex: true,
        flat: false,
    }
}

fn grammar_intermediate() -> Grammar {
    let mut unaries = vec![];
    for size in 0..3 {
        for a in 0..8 {
            for m in 0..4 {
                unaries.push(cont(size, a, a, m, m == 1));
            }
        }
    }
    unaries.extend(DECORATORS);
    Grammar {
        name: "S2-intermediate",
        atoms: vec![
            leaf(Leaf::ProbeFixed),
            leaf(Leaf::ProbeFill),
            leaf(Leaf::StrAb),
            leaf(Leaf::TextNoWrap),
            leaf(Leaf::Image),
            leaf(Leaf::Glyph),
            leaf(Leaf::ScrollBar(false, 3)),
            leaf(Leaf::None),
        ],
        unaries,
        dj: all_dj(),
        attrs: attrs(&[0, 1, 2, 3, 4, 5, 6], &[0, 5], &[false]),
        max_children: 3,
        empty_flex: true,
        flat: false,
    }
}

fn framed(l: Leaf) -> Spec {
    Spec::Unary(Unary::Frame, Box::new(leaf(l)))
}

fn grammar_flex(name: &'static str, atoms: Vec<Spec>, attrs: Vec<FlexAttr>) -> Grammar {
    Grammar { name, atoms, unaries: vec![], dj: all_dj(), attrs, max_children: 3, empty_flex: false, flat: true }
}

/// (grammar, levels to enumerate)
fn subspaces(tier: Tier) -> Vec<(Grammar, Vec<usize>)> {
    let all_flex = [0u8, 1, 2, 3, 4, 5, 6];
    let mut v = vec![];
    v.push((grammar_structure(), (1..=tier.pick(4, 5)).collect()));
    v.push((grammar_rich(), vec![1, 2]));
    {
        // every container variant over children that ignore or forward their constraint
        let rich = grammar_rich();
        let probe = || Box::new(leaf(Leaf::ProbeFixed));
        v.push((
            Grammar {
                name: "S2-containers-over-composites",
                atoms: vec![
                    framed(Leaf::ProbeFixed),
                    Spec::Unary(Unary::Tag, probe()),
                    Spec::Unary(Unary::Dynamic, Box::new(leaf(Leaf::ScrollBar(true, 1)))),
                    Spec::Flex(false, 0, vec![(FlexAttr { flex: 0, align: 0, face: false }, leaf(Leaf::ProbeFixed)), (FlexAttr { flex: 1, align: 5, face: true }, leaf(Leaf::ProbeFill))]),
                ],
                unaries: rich.unaries.iter().copied().filter(|u| matches!(u, Unary::Container(_))).collect(),
                dj: vec![],
                attrs: vec![],
                max_children: 0,
                empty_flex: false,
                flat: false,
            },
            vec![2],
        ));
    }
    if tier == Tier::Thorough {
        v.push((grammar_intermediate(), vec![1, 2, 3]));
    }
    match tier {
        Tier::Quick => {
            v.push((
                grammar_flex(
                    "S3-flex-2-children",
                    vec![leaf(Leaf::ProbeFixed), leaf(Leaf::StrAb), framed(Leaf::ProbeFixed)],
                    attrs(&all_flex, &FLEX_ALIGNS, &[false]),
                ),
                vec![3],
            ));
            v.push((
                grammar_flex("S3-flex-3-children", vec![leaf(Leaf::ProbeFixed), framed(Leaf::ProbeFill)], attrs(&all_flex, &[0], &[false])),
                vec![4],
            ));
        }
        Tier::Thorough => {
            v.push((
                grammar_flex(
                    "S3-flex-2-children",
                    vec![leaf(Leaf::ProbeFixed), leaf(Leaf::ProbeFill), leaf(Leaf::StrAb), framed(Leaf::ProbeFixed)],
                    attrs(&all_flex, &FLEX_ALIGNS, &[false, true]),
                ),
                vec![3],
            ));
            v.push((
                grammar_flex(
                    "S3-flex-3-children",
                    vec![leaf(Leaf::ProbeFixed), leaf(Leaf::StrAb), framed(Leaf::ProbeFill)],
                    attrs(&all_flex, &[0, 5], &[false]),
                ),
                vec![4],
            ));
        }
    }
    v
}

// ---------------------------------------------------------------------------------------------
// run / replay
// ---------------------------------------------------------------------------------------------

/// per-thread set of layout hashes, merged into the global one when the worker state is dropped
struct LocalSet<'a> {
    set: HashSet<u64>,
    global: &'a Mutex<HashSet<u64>>,
}

impl Drop for LocalSet<'_> {
    fn drop(&mut self) {
        self.global.lock().unwrap().extend(self.set.drain());
    }
}

pub fn run(ctx: &Ctx) -> Result<Report, String> {
    let viol = Violations::new();
    let samples = Samples::new(ctx.seed);
    let counters = Counters::default();
    let cts = constraints();
    assert_eq!(cts.len(), 100);
    let capped = AtomicBool::new(false);
    let layouts: Mutex<HashSet<u64>> = Mutex::new(HashSet::new());
    let mut space_report = vec![];
    let mut max_nodes = 0usize;

    for (grammar, levels) in subspaces(ctx.tier) {
        let top = *levels.iter().max().unwrap();
        // materialise the levels below the top one (needed as sub-trees); the top level is
        // enumerated lazily by index
        let mut lower: Vec<Vec<Spec>> = vec![vec![]];
        for n in 1..top {
            if grammar.flat {
                lower.push(vec![]);
                continue;
            }
            let blocks = grammar.blocks(n, &lower);
            let total: u64 = blocks.iter().map(|b| b.1).sum();
            let level: Vec<Spec> = (0..total).into_par_iter().map(|i| grammar.get(n, &lower, &blocks, i)).collect();
            lower.push(level);
        }
        for n in levels {
            let blocks = grammar.blocks(n, &lower);
            let total: u64 = blocks.iter().map(|b| b.1).sum();
            let done = AtomicU64::new(0);
            (0..total).into_par_iter().for_each_init(
                || (Ctxs::new(), LocalSet { set: HashSet::new(), global: &layouts }),
                |(ctxs, local), idx| {
                    let local_layouts = &mut local.set;
                    if capped.load(Ordering::Relaxed) {
                        return;
                    }
                    if idx % 256 == 0 && ctx.over_cap() {
                        capped.store(true, Ordering::Relaxed);
                        return;
                    }
                    let spec = grammar.get(n, &lower, &blocks, idx);
                    check_tree(&spec, ctxs, &cts, &counters, &viol, &samples, local_layouts);
                    done.fetch_add(1, Ordering::Relaxed);
                    if local_layouts.len() > 4096 {
                        layouts.lock().unwrap().extend(local_layouts.drain());
                    }
                },
            );
            let done = done.load(Ordering::Relaxed);
            if done > 0 {
                max_nodes = max_nodes.max(n);
            }
            space_report.push(json!({"grammar": grammar.name, "level": n, "trees": total, "checked": done}));
        }
    }

    let capped = capped.load(Ordering::Relaxed);
    let g = |a: &AtomicU64| a.load(Ordering::Relaxed);
    let mut r = Report::new("exploration");
    r.set("evaluations", g(&counters.evaluations))
        .set("distinct_nontrivial", g(&counters.nontrivial))
        .set(
            "rule",
            "one evaluation = layout + render + all oracles of one (view tree, constraint, glyph setting) through the Rust API; \
             trees are distinct by construction within a sub-space (sub-spaces overlap on a few small trees); the glyph dimension is \
             explored only for trees containing a glyph-sensitive view (Frame, Glyph); the JSON twin of each case is evaluated in \
             addition (twin_evaluations); non-trivial = the root reported a non-empty size and rendering changed at least one canvas cell",
        )
        .set("samples", samples.into_vec())
        .set("exhaustive", !capped)
        .set("capped", capped)
        .set("trees", g(&counters.trees))
        .set("trees_with_json_twin", g(&counters.twin_trees))
        .set("trees_without_json_form_nan_flex", g(&counters.no_json_form))
        .set("twin_evaluations", g(&counters.twin_evaluations))
        .set("constraints", cts.len())
        .set("sub_spaces", json!(space_report))
        .set("probe_cells_checked", g(&counters.probe_cells))
        .set("violating_cases", g(&counters.violating_cases))
        .set("distinct_layout_trees_seen", layouts.lock().unwrap().len())
        .set("max_nodes_level", max_nodes)
        .set("raw_violations", viol.raw_count());
    r.assume("the surface handed to render has the size of the constraint's maximum; a root larger than that is clipped like any child");
    r.assume("view types without a JSON form (probe, (), RGBA fill, scroll bar, surface, None, Frame, Dynamic, Option, Either) enter the JSON twin through handlers registered with ViewDeserializer::register; the JSON type \"color\" cannot be used because ViewDeserializer feeds the whole object to a string deserializer");
    r.assume("flex factors NaN have no JSON representation: such trees are checked through the Rust API only");
    r.assume("an Err returned by layout, or by render for a layout computed by the same view, is reported as a violation (the statement promises that leaves paint where the layout says)");
    r.assume("direct flex nodes: vertical ones whose factors are all positive are built with Flex::push_child_ext, all others with FlexRef over a Vec of FlexChild (raw factors, as the JSON form keeps them); both share flex_layout/flex_render");
    r.violations = viol.into_vec();
    Ok(r)
}

pub fn replay(w: &Value) -> Result<(bool, String), String> {
    let spec: Spec = serde_json::from_value(w["spec"].clone()).map_err(|e| format!("bad spec: {e}"))?;
    let c = w["ct"].as_array().ok_or("ct")?;
    let n = |i: usize| c.get(i).and_then(|x| x.as_u64()).map(|x| x as usize).ok_or("ct");
    let ct = Ct { min: Size::new(n(0)?, n(1)?), max: Size::new(n(2)?, n(3)?) };
    let glyphs = w["glyphs"].as_bool().ok_or("glyphs")?;
    let twin = w["twin"].as_bool().unwrap_or(false);
    let ctxs = Ctxs::new();
    let vctx = ctxs.get(glyphs);
    let log = Arc::new(Log::default());
    let mut nodes = vec![];
    let mut id = 0;
    let header = format!("tree {} under min={:?} max={:?} glyphs={}", spec.show(), ct.min, ct.max, glyphs);
    let view = match catch(|| build(&spec, &mut id, &mut nodes, &log)) {
        Ok(v) => v,
        Err(p) => return Ok((true, format!("{header}: build panicked: {}", p.message))),
    };
    let direct = evaluate(&spec, &*view, Some(&nodes), &log, vctx, ct, glyphs);
    if !twin {
        return Ok(match direct {
            Err(f) => (true, format!("{header}\n[{}] {}", f.kind, f.detail)),
            Ok(o) => (false, format!("{header}\nall oracles hold; layout (depth,pos,size) = {:?}", o.layout)),
        });
    }
    let twin_log = Arc::new(Log::default());
    let tv = match build_twin(&spec, &twin_log) {
        Ok(v) => v,
        Err(f) => return Ok((true, format!("{header}\n[{}] {}", f.kind, f.detail))),
    };
    match evaluate(&spec, &*tv, None, &twin_log, vctx, ct, glyphs) {
        Err(f) => Ok((true, format!("{header} (rebuilt through ViewDeserializer)\n[json:{}] {}", f.kind, f.detail))),
        Ok(t) => match direct {
            Err(f) => Ok((true, format!("{header}\n direct build fails: [{}] {}", f.kind, f.detail))),
            Ok(d) => Ok(match twin_differs(&d, &t) {
                Some(diff) => (true, format!("{header}\n expected: JSON twin lays out and paints like the direct build; observed: {diff}")),
                None => (false, format!("{header}\n JSON twin identical to the direct build; layout {:?}", d.layout)),
            }),
        },
    }
}
