//! C13 -- colour quantisation: bounded palette, valid indices, exact nearest-colour search.
//!
//! Exhaustive sweeps of the real code (`Image::quantize`, `ColorPalette::{new, find, ...}`):
//!  (1a) every image of <= 4 (quick) / <= 6 (thorough) pixels over a 12-colour alphabet, in every
//!       rectangular arrangement, plain and as a crop of a larger poisoned image, x requested
//!       sizes {1..=10, 256} x dither on/off x backgrounds;
//!  (1b) every *multiset* image over the same alphabet with each colour occurring 0..=2
//!       (thorough also 0..=3) times -- up to 12 distinct colours, which is what makes the
//!       octree prune (the <= 6 pixel images of (1a) never reach the pruning loop);
//!  (1c) a small family of periodic images large enough to be subsampled;
//!  (2a) every palette of 1..=3 colours over {0,85,170,255}^3 x every query of {0,64,128,192,255}^3;
//!  (2b) structured palettes of 2..=512 colours x ALL 2^24 queries against brute force.
//! Every quantisation runs under a watchdog: a case that does not finish is a violation.
use crate::engine::catch;
use crate::engine::report::{Ctx, Report, Samples, Tier, Violation, Violations};
use crate::engine::util::hash64;
use rayon::prelude::*;
use serde_json::{json, Value};
use std::sync::atomic::{AtomicBool, AtomicU64, Ordering};
use std::sync::{mpsc, Arc, Mutex};
use std::time::{Duration, Instant};
use surf_n_term::surface::{Surface, SurfaceOwned};
use surf_n_term::{Color, ColorPalette, Image, Size, RGBA};

// ---------------------------------------------------------------------------------------
// alphabet
// ---------------------------------------------------------------------------------------

/// 12 colours chosen to exercise the octree: four siblings in one deepest node (differ in bit 0
/// of one channel), a colour differing from them in bit 7 of one channel only, a pair differing
/// in bit 1, saturated colours in different top-level octants, and three non-opaque colours.
pub const ALPHABET: [[u8; 4]; 12] = [
    [16, 16, 16, 255],
    [17, 16, 16, 255],
    [16, 17, 16, 255],
    [16, 16, 17, 255],
    [16, 16, 144, 255],
    [200, 200, 200, 255],
    [202, 200, 200, 255],
    [255, 0, 0, 255],
    [0, 255, 0, 255],
    [255, 0, 0, 128],
    [0, 0, 255, 0],
    [90, 160, 30, 200],
];

const POISON: [u8; 4] = [1, 254, 77, 255];

/// backgrounds: None (= opaque black by the API's default), opaque white, a translucent one
/// no background, opaque, translucent, and two fully transparent ones (with and without colour in the invisible channels)
const BACKGROUNDS: [Option<[u8; 4]>; 5] = [None, Some([255, 255, 255, 255]), Some([10, 200, 30, 128]), Some([0, 0, 0, 0]), Some([90, 40, 200, 0])];

const SIZES: [usize; 11] = [1, 2, 3, 4, 5, 6, 7, 8, 9, 10, 256];
/// requested sizes used for the multiset images (1..=8 all mean "prune to 8")
const MULTI_SIZES: [usize; 7] = [1, 5, 8, 9, 10, 11, 256];

fn rgba(c: [u8; 4]) -> RGBA {
    RGBA::new(c[0], c[1], c[2], c[3])
}

fn dist(a: [u8; 3], b: [u8; 3]) -> i64 {
    let d = |x: u8, y: u8| (x as i64 - y as i64) * (x as i64 - y as i64);
    d(a[0], b[0]) + d(a[1], b[1]) + d(a[2], b[2])
}

// ---------------------------------------------------------------------------------------
// one quantisation case
// ---------------------------------------------------------------------------------------

/// deterministic total order used to pick the witness reported for a finding key
type Rank = (u64, u64, u64);

#[derive(Debug, Clone, PartialEq)]
pub struct QCase {
    pub h: usize,
    pub w: usize,
    /// row-major pixels
    pub pixels: Vec<[u8; 4]>,
    pub size: usize,
    pub dither: bool,
    pub bg: Option<[u8; 4]>,
    /// quantise a crop of the image surrounded by a 12-pixel wide poison border
    pub crop: bool,
    /// the pixels are stored column by column; the image is the transposed view of that buffer
    pub transposed: bool,
}

impl QCase {
    fn rank(&self) -> Rank {
        let bg = BACKGROUNDS.iter().position(|b| *b == self.bg).unwrap_or(9) as u64;
        (
            self.pixels.len() as u64 * 2 + self.crop as u64,
            self.size as u64 * 100 + self.dither as u64 * 10 + bg,
            hash64(&(self.h, self.w, &self.pixels)),
        )
    }
    fn json(&self) -> Value {
        json!({
            "kind": "quantize",
            "h": self.h, "w": self.w,
            "pixels": self.pixels.iter().map(|p| p.to_vec()).collect::<Vec<_>>(),
            "size": self.size, "dither": self.dither,
            "bg": self.bg.map(|b| b.to_vec()),
            "crop": self.crop,
            "transposed": self.transposed,
        })
    }
    fn from_json(v: &Value) -> Result<Self, String> {
        let px = |p: &Value| -> Result<[u8; 4], String> {
            let a = p.as_array().ok_or("pixel")?;
            if a.len() != 4 {
                return Err("pixel".into());
            }
            let mut o = [0u8; 4];
            for i in 0..4 {
                o[i] = a[i].as_u64().ok_or("pixel")? as u8;
            }
            Ok(o)
        };
        Ok(QCase {
            h: v["h"].as_u64().ok_or("h")? as usize,
            w: v["w"].as_u64().ok_or("w")? as usize,
            pixels: v["pixels"].as_array().ok_or("pixels")?.iter().map(px).collect::<Result<_, _>>()?,
            size: v["size"].as_u64().ok_or("size")? as usize,
            dither: v["dither"].as_bool().ok_or("dither")?,
            bg: if v["bg"].is_null() { None } else { Some(px(&v["bg"])?) },
            crop: v["crop"].as_bool().unwrap_or(false),
            transposed: v["transposed"].as_bool().unwrap_or(false),
        })
    }
    fn image(&self) -> Image {
        if self.transposed {
            let (w, px) = (self.w, &self.pixels);
            let stored = SurfaceOwned::new_with(Size::new(self.w, self.h), |p| rgba(px[p.col * w + p.row]));
            return Image::new(surf_n_term::Surface::transpose(stored));
        }
        if !self.crop {
            let (w, px) = (self.w, &self.pixels);
            Image::from(SurfaceOwned::new_with(Size::new(self.h, self.w), |p| rgba(px[p.row * w + p.col])))
        } else {
            let (h, w, px) = (self.h, self.w, &self.pixels);
            // a wide poison border: the parent buffer is far larger than the view (>= 625 pixels), so
            // anything that looks at the backing buffer instead of the view is exposed
            const B: usize = 12;
            let big = Image::from(SurfaceOwned::new_with(Size::new(h + 2 * B, w + 2 * B), |p| {
                if p.row < B || p.col < B || p.row >= h + B || p.col >= w + B {
                    rgba(POISON)
                } else {
                    rgba(px[(p.row - B) * w + (p.col - B)])
                }
            }));
            big.crop(B as i64..-(B as i64), B as i64..-(B as i64))
        }
    }
    /// the pixel as the quantiser must see it: composited over the background when not opaque.
    /// Compositing itself is `rasterize::Color::blend_over` (external crate, trusted).
    fn composited(&self) -> Vec<[u8; 3]> {
        let bg = self.bg.map(rgba).unwrap_or_else(|| RGBA::new(0, 0, 0, 255));
        self.pixels
            .iter()
            .map(|p| if p[3] < 255 { bg.blend_over(rgba(*p)).to_rgb() } else { [p[0], p[1], p[2]] })
            .collect()
    }
}

#[derive(Debug, Default, Clone)]
pub struct QInfo {
    distinct: usize,
    palette: usize,
    pruned: bool,
    /// palette smaller than both the number of distinct colours and the allowed maximum
    overpruned: bool,
}

/// Oracle for one finished quantisation. Err((kind, detail)) on violation.
fn judge(c: &QCase, res: Option<(ColorPalette, SurfaceOwned<usize>)>) -> Result<QInfo, (String, String)> {
    let comp = c.composited();
    let mut distinct: Vec<[u8; 3]> = comp.clone();
    distinct.sort();
    distinct.dedup();
    let bound = c.size.max(8);
    let (pal, qimg) = match res {
        Some(r) => r,
        None => return Err(("none-for-nonempty".into(), format!("quantize returned None for a {}x{} image", c.h, c.w))),
    };
    let colors: Vec<[u8; 3]> = pal.colors().iter().map(|p| p.to_rgb()).collect();
    if pal.size() != colors.len() {
        return Err(("palette-size-accessor".into(), format!("size() = {} but colors() has {} entries", pal.size(), colors.len())));
    }
    if colors.is_empty() || colors.len() > bound {
        return Err((
            "palette-bound".into(),
            format!("palette has {} colours, allowed 1..={} (requested {})", colors.len(), bound, c.size),
        ));
    }
    if qimg.size() != Size::new(c.h, c.w) {
        return Err(("index-image-size".into(), format!("index image is {:?}, image is {}x{}", qimg.size(), c.h, c.w)));
    }
    let idx: Vec<usize> = qimg.iter().copied().collect();
    if idx.len() != c.h * c.w {
        return Err(("index-image-size".into(), format!("index image has {} entries for {} pixels", idx.len(), c.h * c.w)));
    }
    for (k, i) in idx.iter().enumerate() {
        if *i >= colors.len() {
            return Err((
                "index-out-of-range".into(),
                format!("pixel {} has index {} but the palette has {} colours", k, i, colors.len()),
            ));
        }
    }
    // brute force over the palette for every pixel; palettes beyond 4096 entries are judged by the exactness clause only
    if !c.dither && colors.len() <= 4096 {
        for (k, i) in idx.iter().enumerate() {
            let got = dist(comp[k], colors[*i]);
            let best = colors.iter().map(|p| dist(comp[k], *p)).min().unwrap();
            if got != best {
                return Err((
                    "not-nearest".into(),
                    format!(
                        "pixel {} (composited {:?}) mapped to entry {} {:?} at squared distance {}, but an entry at {} exists; palette {:?}",
                        k, comp[k], i, colors[*i], got, best, colors
                    ),
                ));
            }
        }
    }
    let not_subsampled = c.h * c.w < 200 * c.size;
    if distinct.len() <= c.size && not_subsampled {
        for (k, i) in idx.iter().enumerate() {
            if colors[*i] != comp[k] {
                return Err((
                    if c.dither { "not-exact-dither".into() } else { "not-exact".into() },
                    format!(
                        "{} distinct colours fit the requested {} but pixel {} (composited {:?}) is reproduced as {:?}; palette {:?}",
                        distinct.len(), c.size, k, comp[k], colors[*i], colors
                    ),
                ));
            }
        }
    }
    Ok(QInfo {
        distinct: distinct.len(),
        palette: colors.len(),
        pruned: distinct.len() > bound && not_subsampled,
        overpruned: not_subsampled && colors.len() < distinct.len().min(bound),
    })
}

/// Run one case on the real code (no watchdog here) and judge it.
fn eval_q(c: &QCase) -> Result<QInfo, (String, String)> {
    let img = c.image();
    match catch(|| img.quantize(c.size, c.dither, c.bg.map(rgba))) {
        Err(p) => Err((p.key(), format!("quantize panicked: {} ({}:{})", p.message, p.file, p.line))),
        Ok(res) => judge(c, res),
    }
}

// ---------------------------------------------------------------------------------------
// watchdog
// ---------------------------------------------------------------------------------------

const HANG_SECS: u64 = 20;

#[derive(Default)]
struct Slot {
    cur: Mutex<Option<(Instant, QCase)>>,
}

struct Watch {
    slots: Vec<Slot>,
    extra: Slot,
}

impl Watch {
    fn new(n: usize) -> Self {
        Watch { slots: (0..n).map(|_| Slot::default()).collect(), extra: Slot::default() }
    }
    fn slot(&self) -> &Slot {
        match rayon::current_thread_index() {
            Some(i) if i < self.slots.len() => &self.slots[i],
            _ => &self.extra,
        }
    }
    fn enter(&self, c: &QCase) {
        *self.slot().cur.lock().unwrap() = Some((Instant::now(), c.clone()));
    }
    fn leave(&self) {
        *self.slot().cur.lock().unwrap() = None;
    }
    fn stuck(&self) -> Option<QCase> {
        for s in self.slots.iter().chain(std::iter::once(&self.extra)) {
            if let Some((t, c)) = &*s.cur.lock().unwrap() {
                if t.elapsed() > Duration::from_secs(HANG_SECS) {
                    return Some(c.clone());
                }
            }
        }
        None
    }
}

/// Run a single case in its own thread with a time budget: None = did not finish.
fn eval_q_timed(c: &QCase, secs: u64) -> Option<Result<QInfo, (String, String)>> {
    let (tx, rx) = mpsc::channel();
    let c2 = c.clone();
    std::thread::spawn(move || {
        let _ = tx.send(eval_q(&c2));
    });
    rx.recv_timeout(Duration::from_secs(secs)).ok()
}

// ---------------------------------------------------------------------------------------
// shared sweep state
// ---------------------------------------------------------------------------------------

struct Shared {
    /// per finding key the violation of minimal rank (deterministic whatever the thread
    /// interleaving; witnesses are only built for candidates that improve on the best so far,
    /// so a defect that fails millions of cases does not slow the sweep down)
    best: std::sync::RwLock<std::collections::HashMap<String, (Rank, Violation)>>,
    raw_viol: AtomicU64,
    samples: Mutex<Option<Samples>>,
    sample_filter: Samples,
    watch: Watch,
    seed: u64,
    q_evals: AtomicU64,
    q_pruned: AtomicU64,
    q_overpruned: AtomicU64,
    q_exact_claims: AtomicU64,
    q_alpha: AtomicU64,
    find_evals: AtomicU64,
    find_nontrivial: AtomicU64,
    find_ties: AtomicU64,
    /// most drastic over-pruning seen: (palette size * 1000 / allowed, case)
    worst_overprune: Mutex<Option<(u64, Value)>>,
    worst_score: AtomicU64,
    phase_secs: Mutex<Vec<(String, f64)>>,
    palette_sizes_seen: Mutex<std::collections::BTreeSet<usize>>,
    stop: AtomicBool,
}

#[derive(Default)]
struct Local {
    evals: u64,
    pruned: u64,
    overpruned: u64,
    exact: u64,
    alpha: u64,
    sizes: u64, // bit mask of palette sizes 0..63
}

impl Shared {
    fn add_ranked(&self, key: String, rank: Rank, make: impl FnOnce() -> (String, Value)) {
        self.raw_viol.fetch_add(1, Ordering::Relaxed);
        if let Some((r, _)) = self.best.read().unwrap().get(&key) {
            if *r <= rank {
                return;
            }
        }
        let (what, witness) = make();
        let mut g = self.best.write().unwrap();
        match g.get(&key) {
            Some((r, _)) if *r <= rank => {}
            _ => {
                g.insert(key.clone(), (rank, Violation { key, what, witness }));
            }
        }
    }
    fn add_find(&self, kind: &str, colors: &[[u8; 3]], q: [u8; 3], name: &str, detail: String) {
        let rank = (colors.len() as u64, hash64(colors), (q[0] as u64) << 16 | (q[1] as u64) << 8 | q[2] as u64);
        self.add_ranked(format!("find:{}", kind), rank, || {
            (format!("palette {} ({} colours): {}", name, colors.len(), detail), find_witness(colors, q, name))
        });
    }
    fn quant(&self, c: &QCase, l: &mut Local) {
        self.watch.enter(c);
        let r = eval_q(c);
        self.watch.leave();
        l.evals += 1;
        match r {
            Ok(info) => {
                if info.pruned {
                    l.pruned += 1;
                }
                if info.distinct <= c.size {
                    l.exact += 1;
                }
                if c.pixels.iter().any(|p| p[3] < 255) {
                    l.alpha += 1;
                }
                l.sizes |= 1u64 << info.palette.min(63);
                if info.overpruned {
                    l.overpruned += 1;
                    let allowed = info.distinct.min(c.size.max(8)) as u64;
                    let score = info.palette as u64 * 1000 / allowed;
                    // cheap pre-filter: only candidates at least as drastic as the best so far
                    if score <= self.worst_score.load(Ordering::Relaxed) {
                        let cand = json!({"case": c.json(), "distinct_colours": info.distinct, "palette": info.palette, "allowed": allowed});
                        let mut g = self.worst_overprune.lock().unwrap();
                        let better = match &*g {
                            None => true,
                            Some((s, v)) => (score, cand.to_string().len(), cand.to_string()) < (*s, v.to_string().len(), v.to_string()),
                        };
                        if better {
                            self.worst_score.fetch_min(score, Ordering::Relaxed);
                            *g = Some((score, cand));
                        }
                    }
                }
                let hh = hash64(&(c.h, c.w, &c.pixels, c.size, c.dither, c.bg, c.crop));
                if self.sample_filter.wants(hh) {
                    if let Some(sm) = self.samples.lock().unwrap().as_ref() {
                        sm.offer(hh, || json!({"case": c.json(), "distinct_colours": info.distinct, "palette_size": info.palette}));
                    }
                }
            }
            Err((kind, detail)) => {
                self.add_ranked(format!("quantize:{}", kind), c.rank(), || {
                    (
                        format!(
                            "{}x{} image, requested {}, dither {}, bg {:?}{}: {}",
                            c.h, c.w, c.size, c.dither, c.bg, if c.crop { ", cropped" } else { "" }, detail
                        ),
                        c.json(),
                    )
                });
            }
        }
    }
    fn merge(&self, l: Local) {
        self.q_evals.fetch_add(l.evals, Ordering::Relaxed);
        self.q_pruned.fetch_add(l.pruned, Ordering::Relaxed);
        self.q_overpruned.fetch_add(l.overpruned, Ordering::Relaxed);
        self.q_exact_claims.fetch_add(l.exact, Ordering::Relaxed);
        self.q_alpha.fetch_add(l.alpha, Ordering::Relaxed);
        let mut g = self.palette_sizes_seen.lock().unwrap();
        for b in 0..64 {
            if l.sizes >> b & 1 == 1 {
                g.insert(b);
            }
        }
    }
}

// ---------------------------------------------------------------------------------------
// (1a) all small images
// ---------------------------------------------------------------------------------------

fn arrangements(n: usize) -> Vec<(usize, usize)> {
    (1..=n).filter(|h| n % h == 0).map(|h| (h, n / h)).collect()
}

fn sweep_small(sh: &Shared, tier: Tier) -> u64 {
    let max_n = tier.pick(4, 6);
    let nbg = tier.pick(2, 3);
    let mut images = 0u64;
    for n in 1..=max_n {
        let total = 12u64.pow(n as u32);
        images += total;
        // the 6-pixel level of the thorough tier uses a reduced list of requested sizes: below 9
        // distinct colours the requested size only selects the oracle branch
        let sizes: Vec<usize> = if n >= 6 { vec![1, 3, 6, 256] } else { SIZES.to_vec() };
        let crop_too = n <= tier.pick(3, 4);
        (0..total).into_par_iter().for_each(|mut i| {
            if sh.stop.load(Ordering::Relaxed) {
                return;
            }
            let mut pixels = Vec::with_capacity(n);
            for _ in 0..n {
                pixels.push(ALPHABET[(i % 12) as usize]);
                i /= 12;
            }
            let mut l = Local::default();
            for (h, w) in arrangements(n) {
                for crop in [false, true] {
                    if crop && !crop_too {
                        continue;
                    }
                    for size in &sizes {
                        for dither in [false, true] {
                            for bg in &BACKGROUNDS[..nbg] {
                                let c = QCase { h, w, pixels: pixels.clone(), size: *size, dither, bg: *bg, crop, transposed: false };
                                sh.quant(&c, &mut l);
                            }
                        }
                    }
                }
            }
            sh.merge(l);
        });
    }
    images
}

/// (1d) alpha ladder: all images of 1..=4 pixels over {three RGB values, black among them} x {alpha 0, 64, 128, 200, 255}: pixels that
/// share their RGB and differ only in alpha, next to each other in scan order, over the three backgrounds.
/// Logging switched on (`quantize` is instrumented: its arguments are formatted when a subscriber listens): every
/// image of one or two pixels over the alpha ladder, on this thread under a subscriber that formats everything.
fn sweep_logging(sh: &Shared) -> u64 {
    let mut ladder: Vec<[u8; 4]> = vec![];
    for rgb in [[200u8, 0, 0], [10, 90, 250], [0, 0, 0]] {
        for a in [0u8, 128, 255] {
            ladder.push([rgb[0], rgb[1], rgb[2], a]);
        }
    }
    let mut n = 0u64;
    crate::engine::logging::with_logging(|| {
        let mut images: Vec<Vec<[u8; 4]>> = ladder.iter().map(|p| vec![*p]).collect();
        for a in &ladder {
            for b in &ladder {
                images.push(vec![*a, *b]);
            }
        }
        for pixels in images {
            for size in [1usize, 2, 16] {
                for dither in [false, true] {
                    for bg in &BACKGROUNDS {
                        let c = QCase { h: 1, w: pixels.len(), pixels: pixels.clone(), size, dither, bg: *bg, crop: false, transposed: false };
                        n += 1;
                        if let Err((kind, detail)) = eval_q(&c) {
                            sh.add_ranked(format!("logging:quantize:{}", kind), c.rank(), || {
                                let mut w = c.json();
                                w["logging"] = json!(true);
                                (format!("with a tracing subscriber listening: {}x{} image, requested {}, dither {}, bg {:?}: {}", c.h, c.w, c.size, c.dither, c.bg, detail), w)
                            });
                        }
                    }
                }
            }
        }
    });
    n
}

fn sweep_alpha(sh: &Shared) -> u64 {
    let mut ladder: Vec<[u8; 4]> = vec![];
    for rgb in [[200u8, 0, 0], [10, 90, 250], [0, 0, 0]] {
        for a in [0u8, 64, 128, 200, 255] {
            ladder.push([rgb[0], rgb[1], rgb[2], a]);
        }
    }
    let k = ladder.len() as u64;
    let mut images = 0u64;
    for n in 1..=4usize {
        let total = k.pow(n as u32);
        images += total;
        (0..total).into_par_iter().for_each(|mut i| {
            if sh.stop.load(Ordering::Relaxed) {
                return;
            }
            let mut pixels = Vec::with_capacity(n);
            for _ in 0..n {
                pixels.push(ladder[(i % k) as usize]);
                i /= k;
            }
            let mut l = Local::default();
            for (h, w) in arrangements(n) {
                for size in [2usize, 16] {
                    for dither in [false, true] {
                        for bg in &BACKGROUNDS {
                            let c = QCase { h, w, pixels: pixels.clone(), size, dither, bg: *bg, crop: false, transposed: false };
                            sh.quant(&c, &mut l);
                            if h > 1 && w > 1 {
                                let c = QCase { transposed: true, ..c };
                                sh.quant(&c, &mut l);
                            }
                        }
                    }
                }
            }
            sh.merge(l);
        });
    }
    images
}

// ---------------------------------------------------------------------------------------
// (1b) multiset images: colour j occurs m_j times, m in 0..=maxmult
// ---------------------------------------------------------------------------------------

fn multiset_pixels(mut i: u64, radix: u64) -> Vec<[u8; 4]> {
    let mut pixels = vec![];
    for a in ALPHABET.iter() {
        for _ in 0..(i % radix) {
            pixels.push(*a);
        }
        i /= radix;
    }
    pixels
}

/// `full` = all MULTI_SIZES x dither x backgrounds; otherwise the pruning-relevant core only.
fn sweep_multiset(sh: &Shared, radix: u64, full: bool, nbg: usize, only_new: bool) -> u64 {
    let total = radix.pow(12);
    let images = AtomicU64::new(0);
    (1..total).into_par_iter().for_each(|i| {
        if sh.stop.load(Ordering::Relaxed) {
            return;
        }
        if only_new {
            // skip images already covered by the radix-1 sweep (no multiplicity == radix-1)
            let mut j = i;
            let mut has = false;
            for _ in 0..12 {
                if j % radix == radix - 1 {
                    has = true;
                }
                j /= radix;
            }
            if !has {
                return;
            }
        }
        let pixels = multiset_pixels(i, radix);
        let n = pixels.len();
        images.fetch_add(1, Ordering::Relaxed);
        let mut l = Local::default();
        // one row; for the full sweep also the most square arrangement
        let mut arr = vec![(1, n)];
        if full && nbg >= 3 {
            if let Some(a) = arrangements(n).into_iter().filter(|(h, w)| h <= w).last() {
                if a.0 > 1 {
                    arr.push(a);
                }
            }
        }
        for (h, w) in arr {
            if full {
                for size in MULTI_SIZES {
                    if nbg < 3 && size == 5 {
                        continue; // quick tier: 1, 5 and 8 all prune to 8 leaves
                    }
                    for dither in [false, true] {
                        for bg in &BACKGROUNDS[..nbg] {
                            let c = QCase { h, w, pixels: pixels.clone(), size, dither, bg: *bg, crop: false, transposed: false };
                            sh.quant(&c, &mut l);
                        }
                    }
                }
            } else {
                for size in [8usize, 9, 10] {
                    let c = QCase { h, w, pixels: pixels.clone(), size, dither: false, bg: None, crop: false, transposed: false };
                    sh.quant(&c, &mut l);
                }
            }
        }
        sh.merge(l);
    });
    images.load(Ordering::Relaxed)
}

// ---------------------------------------------------------------------------------------
// (1c) periodic images large enough to be subsampled
// ---------------------------------------------------------------------------------------

fn sweep_large(sh: &Shared) -> u64 {
    let mut cases = vec![];
    for (h, w) in [(1usize, 200usize), (200, 1), (10, 20), (20, 20), (2, 300), (17, 31)] {
        for m in [1usize, 2, 3, 5, 12] {
            for step in [1usize, 5] {
                for phase in [0usize, 1] {
                    let pixels: Vec<[u8; 4]> = (0..h * w).map(|i| ALPHABET[((i * step + phase) % m) % 12]).collect();
                    for size in [1usize, 2] {
                        for dither in [false, true] {
                            for bg in &BACKGROUNDS[..2] {
                                for crop in [false, true] {
                                    cases.push(QCase { h, w, pixels: pixels.clone(), size, dither, bg: *bg, crop, transposed: false });
                                }
                            }
                        }
                    }
                }
            }
        }
    }
    // large flat areas: one colour repeated n times around the first count whose channel sum leaves the exactly
    // representable range of a 32-bit float (255 * 65794 > 2^24), small enough for the requested size not to be
    // subsampled, so the reproduction must still be exact
    for n in 65_788usize..=65_812 {
        for colour in [[255u8, 255, 255, 255], [255, 127, 1, 255], [254, 253, 251, 255]] {
            for extra in [0usize, 1] {
                let mut pixels = vec![colour; n];
                for _ in 0..extra {
                    pixels.push([0, 0, 0, 255]);
                }
                for dither in [false, true] {
                    cases.push(QCase { h: 1, w: pixels.len(), pixels: pixels.clone(), size: 512, dither, bg: None, crop: false, transposed: false });
                }
            }
        }
    }
    // more distinct colours than a 16-bit index can address, all of them requested: exact reproduction
    for n in [65_535usize, 65_536, 65_537, 67_584] {
        let pixels: Vec<[u8; 4]> = (0..n).map(|i| [(i % 256) as u8, (i / 256 % 256) as u8, (i / 65_536 * 85 + 3) as u8, 255]).collect();
        cases.push(QCase { h: 1, w: n, pixels, size: 70_000, dither: false, bg: None, crop: false, transposed: false });
    }
    for n in [132_100usize, 132_107, 132_111, 197_379, 197_383] {
        let pixels = vec![[254u8, 254, 254, 255]; n];
        cases.push(QCase { h: 1, w: n, pixels, size: 1024, dither: false, bg: None, crop: false, transposed: false });
    }
    let n = cases.len() as u64;
    cases.par_iter().for_each(|c| {
        if sh.stop.load(Ordering::Relaxed) {
            return;
        }
        let mut l = Local::default();
        sh.quant(c, &mut l);
        sh.merge(l);
    });
    n
}

// ---------------------------------------------------------------------------------------
// (2) palettes and nearest-colour lookup
// ---------------------------------------------------------------------------------------

/// Some((kind, detail)) on violation.
fn judge_find(colors: &[[u8; 3]], q: [u8; 3], got: (usize, RGBA), best: i64) -> Option<(String, String)> {
    let (i, col) = got;
    if i >= colors.len() {
        return Some(("index-out-of-range".into(), format!("find({:?}) returned index {} of {}", q, i, colors.len())));
    }
    if col.to_rgb() != colors[i] {
        return Some((
            "colour-index-mismatch".into(),
            format!("find({:?}) returned index {} ({:?}) together with colour {:?}", q, i, colors[i], col.to_rgb()),
        ));
    }
    let d = dist(q, colors[i]);
    if d != best {
        return Some((
            "not-nearest".into(),
            format!("find({:?}) returned entry {} {:?} at squared distance {}, brute force finds {}", q, i, colors[i], d, best),
        ));
    }
    None
}

fn find_witness(colors: &[[u8; 3]], q: [u8; 3], name: &str) -> Value {
    json!({"kind": "find", "palette_name": name, "palette": colors.iter().map(|c| c.to_vec()).collect::<Vec<_>>(), "query": q.to_vec()})
}

fn eval_find(colors: &[[u8; 3]], q: [u8; 3]) -> Option<(String, String)> {
    let pal = match catch(|| ColorPalette::new(colors.iter().map(|c| RGBA::new(c[0], c[1], c[2], 255)).collect())) {
        Err(p) => return Some((p.key(), format!("ColorPalette::new panicked: {}", p.message))),
        Ok(None) => return Some(("none-for-nonempty".into(), "ColorPalette::new returned None for a non-empty list".into())),
        Ok(Some(p)) => p,
    };
    if pal.size() != colors.len() || pal.colors().iter().map(|c| c.to_rgb()).collect::<Vec<_>>() != colors {
        return Some(("palette-content".into(), "colors()/size() differ from the list the palette was built from".into()));
    }
    let best = colors.iter().map(|c| dist(q, *c)).min().unwrap();
    let tree = match catch(|| pal.find(RGBA::new(q[0], q[1], q[2], 255))) {
        Err(p) => Some((p.key(), format!("find panicked: {} ({}:{})", p.message, p.file, p.line))),
        Ok(got) => judge_find(colors, q, got, best),
    };
    if tree.is_some() {
        return tree;
    }
    // the palette's other public lookup, the linear one
    match catch(|| pal.find_naive(RGBA::new(q[0], q[1], q[2], 255))) {
        Err(p) => Some((format!("find_naive:{}", p.key()), format!("find_naive panicked: {} ({}:{})", p.message, p.file, p.line))),
        Ok(got) => judge_find(colors, q, got, best).map(|(k, d)| (format!("find_naive:{k}"), format!("find_naive: {d}"))),
    }
}

fn sweep_small_palettes(sh: &Shared) -> (u64, u64) {
    let lat: Vec<[u8; 3]> = {
        let l = [0u8, 85, 170, 255];
        let mut v = vec![];
        for r in l {
            for g in l {
                for b in l {
                    v.push([r, g, b]);
                }
            }
        }
        v
    };
    let queries: Vec<[u8; 3]> = {
        let l = [0u8, 64, 128, 192, 255];
        let mut v = vec![];
        for r in l {
            for g in l {
                for b in l {
                    v.push([r, g, b]);
                }
            }
        }
        v
    };
    // palettes of four and five colours over coarser lattices: the search tree gets a second level on both sides,
    // so a sub-tree of two or three entries is split on the green or the blue axis
    let cube = |l: &[u8]| -> Vec<[u8; 3]> {
        let mut v = vec![];
        for r in l {
            for g in l {
                for b in l {
                    v.push([*r, *g, *b]);
                }
            }
        }
        v
    };
    let lat3 = cube(&[0, 128, 255]);
    let lat2 = cube(&[0, 255]);
    let spaces: Vec<(&Vec<[u8; 3]>, u32)> = vec![(&lat, 1), (&lat, 2), (&lat, 3), (&lat3, 4), (&lat2, 5)];
    let sizes: Vec<u64> = spaces.iter().map(|(l, k)| (l.len() as u64).pow(*k)).collect();
    let total: u64 = sizes.iter().sum();
    let evals = AtomicU64::new(0);
    (0..total).into_par_iter().for_each(|i| {
        let mut j = i;
        let mut si = 0;
        while j >= sizes[si] {
            j -= sizes[si];
            si += 1;
        }
        let (l, k) = spaces[si];
        let n = l.len() as u64;
        let mut colors: Vec<[u8; 3]> = Vec::with_capacity(k as usize);
        for _ in 0..k {
            colors.push(l[(j % n) as usize]);
            j /= n;
        }
        let pal = match catch(|| ColorPalette::new(colors.iter().map(|c| RGBA::new(c[0], c[1], c[2], 255)).collect())) {
            Ok(Some(p)) => p,
            _ => {
                if let Some((kind, detail)) = eval_find(&colors, queries[0]) {
                    sh.add_find(&kind, &colors, queries[0], "lattice", detail);
                }
                return;
            }
        };
        let mut nt = 0u64;
        let mut ties = 0u64;
        for q in &queries {
            let best = colors.iter().map(|c| dist(*q, *c)).min().unwrap();
            let mut r = match catch(|| pal.find(RGBA::new(q[0], q[1], q[2], 255))) {
                Err(p) => Some((p.key(), format!("find panicked: {}", p.message))),
                Ok(got) => judge_find(&colors, *q, got, best),
            };
            if r.is_none() {
                r = match catch(|| pal.find_naive(RGBA::new(q[0], q[1], q[2], 255))) {
                    Err(p) => Some((format!("find_naive:{}", p.key()), format!("find_naive panicked: {}", p.message))),
                    Ok(got) => judge_find(&colors, *q, got, best).map(|(k, d)| (format!("find_naive:{k}"), format!("find_naive: {d}"))),
                };
            }
            if let Some((kind, detail)) = r {
                sh.add_find(&kind, &colors, *q, "lattice", detail);
            }
            if best > 0 {
                nt += 1;
            }
            if colors.iter().filter(|c| dist(*q, **c) == best).count() > 1 {
                ties += 1;
            }
        }
        evals.fetch_add(queries.len() as u64, Ordering::Relaxed);
        sh.find_nontrivial.fetch_add(nt, Ordering::Relaxed);
        sh.find_ties.fetch_add(ties, Ordering::Relaxed);
    });
    (total, evals.load(Ordering::Relaxed))
}

pub fn xterm256() -> Vec<[u8; 3]> {
    let mut v: Vec<[u8; 3]> = vec![
        [0, 0, 0], [205, 0, 0], [0, 205, 0], [205, 205, 0], [0, 0, 238], [205, 0, 205], [0, 205, 205], [229, 229, 229],
        [127, 127, 127], [255, 0, 0], [0, 255, 0], [255, 255, 0], [92, 92, 255], [255, 0, 255], [0, 255, 255], [255, 255, 255],
    ];
    let l = [0u8, 95, 135, 175, 215, 255];
    for r in l {
        for g in l {
            for b in l {
                v.push([r, g, b]);
            }
        }
    }
    for i in 0..24u8 {
        let g = 8 + 10 * i;
        v.push([g, g, g]);
    }
    v
}

pub fn structured_palettes() -> Vec<(&'static str, Vec<[u8; 3]>)> {
    let mut out: Vec<(&'static str, Vec<[u8; 3]>)> = vec![("xterm-256", xterm256())];
    out.push(("clustered-16", (0..16u8).map(|i| [100 + i % 4, 100 + i / 4, 100]).collect()));
    out.push(("all-equal-40", vec![[7, 7, 7]; 40]));
    out.push(("two-point", vec![[0, 0, 0], [255, 255, 255]]));
    let l8 = [0u8, 36, 73, 109, 146, 182, 219, 255];
    let mut lat = vec![];
    for r in l8 {
        for g in l8 {
            for b in l8 {
                lat.push([r, g, b]);
            }
        }
    }
    out.push(("lattice-512", lat));
    let mut dup = vec![[10u8, 20, 30]; 200];
    for i in 0..56u32 {
        dup.push([(i * 37 % 256) as u8, (i * 101 % 256) as u8, (i * 53 % 256) as u8]);
    }
    out.push(("duplicates-200-of-256", dup));
    out.push(("grey-ramp-256", (0..=255u8).map(|i| [i, i, i]).collect()));
    let mut plane = vec![];
    for g in 0..8u8 {
        for b in 0..8u8 {
            plane.push([128, g * 36, 255 - b * 36]);
        }
    }
    out.push(("constant-red-plane-64", plane));
    out
}

/// Both public lookups for the queries at and right next to the palette's own entries (every entry, every offset in
/// {-1, 0, 1}^3): where an exact or almost exact match exists the search may not stop at the first close entry.
fn sweep_near_entries(sh: &Shared, name: &'static str, colors: &[[u8; 3]]) -> u64 {
    let mut n = 0u64;
    let mut seen = std::collections::HashSet::new();
    for c in colors {
        for dr in -1i32..=1 {
            for dg in -1i32..=1 {
                for db in -1i32..=1 {
                    let q = [c[0] as i32 + dr, c[1] as i32 + dg, c[2] as i32 + db];
                    if q.iter().any(|v| !(0..=255).contains(v)) {
                        continue;
                    }
                    let q = [q[0] as u8, q[1] as u8, q[2] as u8];
                    if !seen.insert(q) {
                        continue;
                    }
                    n += 1;
                    if let Some((kind, detail)) = eval_find(colors, q) {
                        sh.add_find(&kind, colors, q, name, detail);
                    }
                }
            }
        }
    }
    n
}

/// all 2^24 queries against brute force
fn sweep_full_queries(sh: &Shared, name: &'static str, colors: &[[u8; 3]]) -> u64 {
    let pal = match catch(|| ColorPalette::new(colors.iter().map(|c| RGBA::new(c[0], c[1], c[2], 255)).collect())) {
        Ok(Some(p)) => p,
        _ => {
            if let Some((kind, detail)) = eval_find(colors, [0, 0, 0]) {
                sh.add_find(&kind, colors, [0, 0, 0], name, detail);
            }
            return 0;
        }
    };
    if pal.size() != colors.len() || pal.colors().iter().map(|c| c.to_rgb()).collect::<Vec<_>>() != colors {
        sh.add_find("palette-content", colors, [0, 0, 0], name, "colors()/size() differ from the input".to_string());
        return 0;
    }
    let cr: Vec<i32> = colors.iter().map(|c| c[0] as i32).collect();
    let cg: Vec<i32> = colors.iter().map(|c| c[1] as i32).collect();
    let cb: Vec<i32> = colors.iter().map(|c| c[2] as i32).collect();
    // one work item = one (r, g) pair, all 256 b
    (0..65536u32).into_par_iter().with_min_len(16).for_each(|rg| {
        let (r, g) = ((rg >> 8) as u8, (rg & 255) as u8);
        let mut nt = 0u64;
        let mut ties = 0u64;
        // squared distance restricted to r,g once per palette entry
        let base: Vec<i32> = (0..colors.len()).map(|j| (r as i32 - cr[j]).pow(2) + (g as i32 - cg[j]).pow(2)).collect();
        for b in 0..=255u8 {
            let mut best = i32::MAX;
            let mut cnt = 0u32;
            for j in 0..colors.len() {
                let d = base[j] + (b as i32 - cb[j]).pow(2);
                if d < best {
                    best = d;
                    cnt = 1;
                } else if d == best {
                    cnt += 1;
                }
            }
            let q = [r, g, b];
            let res = match catch(|| pal.find(RGBA::new(r, g, b, 255))) {
                Err(p) => Some((p.key(), format!("find panicked: {} ({}:{})", p.message, p.file, p.line))),
                Ok(got) => judge_find(colors, q, got, best as i64),
            };
            if let Some((kind, detail)) = res {
                sh.add_find(&kind, colors, q, name, detail);
            }
            if best > 0 {
                nt += 1;
            }
            if cnt > 1 {
                ties += 1;
            }
        }
        sh.find_nontrivial.fetch_add(nt, Ordering::Relaxed);
        sh.find_ties.fetch_add(ties, Ordering::Relaxed);
    });
    1 << 24
}

fn cpu_secs() -> f64 {
    let mut ts = libc::timespec { tv_sec: 0, tv_nsec: 0 };
    unsafe { libc::clock_gettime(libc::CLOCK_PROCESS_CPUTIME_ID, &mut ts) };
    ts.tv_sec as f64 + ts.tv_nsec as f64 * 1e-9
}

// ---------------------------------------------------------------------------------------
// driver
// ---------------------------------------------------------------------------------------

struct Sizes {
    small_images: u64,
    multiset_images: u64,
    multiset_extra_images: u64,
    large_cases: u64,
    small_palettes: u64,
    small_palette_queries: u64,
    full_query_palettes: Vec<(String, usize)>,
    completed: Vec<&'static str>,
}

fn sweep_all(sh: &Shared, ctx: &Ctx) -> Sizes {
    let tier = ctx.tier;
    let mut s = Sizes {
        small_images: 0,
        multiset_images: 0,
        multiset_extra_images: 0,
        large_cases: 0,
        small_palettes: 0,
        small_palette_queries: 0,
        full_query_palettes: vec![],
        completed: vec![],
    };
    let live = |sh: &Shared| !sh.stop.load(Ordering::Relaxed) && !ctx.over_cap();
    // (2a)
    let (p, q) = sweep_small_palettes(sh);
    s.small_palettes = p;
    s.small_palette_queries = q;
    sh.find_evals.fetch_add(q, Ordering::Relaxed);
    s.completed.push("2a-lattice-palettes");
        sh.phase_secs.lock().unwrap().push(("2a-lattice-palettes".to_string(), cpu_secs()));
    // (2b)
    for (name, colors) in structured_palettes() {
        if !live(sh) {
            return s;
        }
        // both lookups at and around every entry (all palettes, both tiers)
        let near = sweep_near_entries(sh, name, &colors);
        sh.find_evals.fetch_add(near, Ordering::Relaxed);
        // quick: the xterm palette and the small degenerate ones; thorough: all eight
        if tier == Tier::Quick && colors.len() > 64 && name != "xterm-256" {
            continue;
        }
        let n = sweep_full_queries(sh, name, &colors);
        sh.find_evals.fetch_add(n, Ordering::Relaxed);
        s.full_query_palettes.push((name.to_string(), colors.len()));
    }
    s.completed.push("2b-structured-palettes-all-queries");
        sh.phase_secs.lock().unwrap().push(("2b-structured-palettes-all-queries".to_string(), cpu_secs()));
    // (1c)
    if !live(sh) {
        return s;
    }
    s.large_cases = sweep_large(sh) + sweep_alpha(sh) + sweep_logging(sh);
    s.completed.push("1c-subsampled-images");
    s.completed.push("1d-alpha-ladder");
        sh.phase_secs.lock().unwrap().push(("1c-subsampled-images".to_string(), cpu_secs()));
    // (1a)
    if !live(sh) {
        return s;
    }
    s.small_images = sweep_small(sh, tier);
    if live(sh) {
        s.completed.push("1a-small-images");
        sh.phase_secs.lock().unwrap().push(("1a-small-images".to_string(), cpu_secs()));
    }
    // (1b)
    if !live(sh) {
        return s;
    }
    s.multiset_images = sweep_multiset(sh, 3, true, tier.pick(2, 3), false);
    if live(sh) {
        s.completed.push("1b-multiset-images-mult<=2");
        sh.phase_secs.lock().unwrap().push(("1b-multiset-images-mult<=2".to_string(), cpu_secs()));
    }
    if tier == Tier::Thorough && live(sh) {
        s.multiset_extra_images = sweep_multiset(sh, 4, false, 1, true);
        if live(sh) {
            s.completed.push("1b-multiset-images-mult<=3-core");
        sh.phase_secs.lock().unwrap().push(("1b-multiset-images-mult<=3-core".to_string(), cpu_secs()));
        }
    }
    s
}

pub fn run(ctx: &Ctx) -> Result<Report, String> {
    let sh = Arc::new(Shared {
        best: Default::default(),
        raw_viol: AtomicU64::new(0),
        samples: Mutex::new(Some(Samples::new(ctx.seed))),
        sample_filter: Samples::new(ctx.seed),
        watch: Watch::new(ctx.threads.max(rayon::current_num_threads()) + 1),
        seed: ctx.seed,
        q_evals: AtomicU64::new(0),
        q_pruned: AtomicU64::new(0),
        q_overpruned: AtomicU64::new(0),
        q_exact_claims: AtomicU64::new(0),
        q_alpha: AtomicU64::new(0),
        find_evals: AtomicU64::new(0),
        find_nontrivial: AtomicU64::new(0),
        find_ties: AtomicU64::new(0),
        worst_overprune: Mutex::new(None),
        worst_score: AtomicU64::new(u64::MAX),
        phase_secs: Mutex::new(vec![]),
        palette_sizes_seen: Mutex::new(Default::default()),
        stop: AtomicBool::new(false),
    });
    // the sweeps run in their own thread; this thread is the watchdog
    let (tx, rx) = mpsc::channel();
    {
        let sh = sh.clone();
        let ctx2 = ctx.clone();
        std::thread::Builder::new()
            .stack_size(16 << 20)
            .spawn(move || {
                let r = catch(|| sweep_all(&sh, &ctx2));
                let _ = tx.send(r);
            })
            .map_err(|e| e.to_string())?;
    }
    let mut hang: Option<QCase> = None;
    let sizes = loop {
        match rx.recv_timeout(Duration::from_millis(500)) {
            Ok(Ok(s)) => break Some(s),
            Ok(Err(p)) => return Err(format!("sweep panicked: {:?}", p)),
            Err(mpsc::RecvTimeoutError::Timeout) => {
                if let Some(c) = sh.watch.stuck() {
                    // confirm in a fresh thread before calling it a verdict
                    match eval_q_timed(&c, HANG_SECS) {
                        None => {
                            hang = Some(c);
                            sh.stop.store(true, Ordering::Relaxed);
                            break None;
                        }
                        Some(_) => {
                            return Err(format!(
                                "a worker sat on case {} for more than {HANG_SECS}s but the case finishes on its own: machine too loaded (machinery failure)",
                                c.json()
                            ));
                        }
                    }
                }
            }
            Err(mpsc::RecvTimeoutError::Disconnected) => return Err("sweep thread vanished".into()),
        }
    };
    if let Some(c) = &hang {
        sh.add_ranked("quantize:hang".to_string(), c.rank(), || {
            (
                format!(
                    "quantize did not return within {HANG_SECS}s (twice): {}x{} image, requested {}, dither {}",
                    c.h, c.w, c.size, c.dither
                ),
                c.json(),
            )
        });
    }
    let capped = sizes.is_none() || ctx.over_cap();
    let q = sh.q_evals.load(Ordering::Relaxed);
    let f = sh.find_evals.load(Ordering::Relaxed);
    let pruned = sh.q_pruned.load(Ordering::Relaxed);
    let fnt = sh.find_nontrivial.load(Ordering::Relaxed);
    let mut r = Report::new("exploration");
    r.set("evaluations", q + f)
        .set("distinct_nontrivial", pruned + fnt)
        .set(
            "rule",
            "cases are (image pixels, arrangement, crop, requested size, dither, background) and (palette, query), all distinct by \
             construction; a quantisation is non-trivial when the octree had to be pruned (more distinct composited colours than \
             max(requested, 8), image not subsampled); a lookup is non-trivial when the query is not itself a palette colour",
        )
        .set("quantisations", q)
        .set("quantisations_with_pruning", pruned)
        .set("quantisations_with_exactness_claim", sh.q_exact_claims.load(Ordering::Relaxed))
        .set("quantisations_with_alpha", sh.q_alpha.load(Ordering::Relaxed))
        .set("lookups", f)
        .set("lookups_query_not_in_palette", fnt)
        .set("lookups_with_tied_nearest", sh.find_ties.load(Ordering::Relaxed))
        .set(
            "palette_sizes_seen",
            sh.palette_sizes_seen.lock().unwrap().iter().map(|x| json!(x)).collect::<Vec<_>>(),
        )
        .set("lead_overpruned_quantisations", sh.q_overpruned.load(Ordering::Relaxed))
        .set(
            "lead_overpruned_worst",
            sh.worst_overprune.lock().unwrap().as_ref().map(|(_, v)| v.clone()).unwrap_or(Value::Null),
        )
        .set("exhaustive", !capped)
        .set("capped", capped)
        .set("alphabet", ALPHABET.iter().map(|c| json!(c.to_vec())).collect::<Vec<_>>())
        .set("watchdog_seconds", HANG_SECS)
        .set("phase_done_at_cpu_s", sh.phase_secs.lock().unwrap().iter().map(|(n, t)| json!({"phase": n, "t": (t * 10.0).round() / 10.0})).collect::<Vec<_>>());
    if let Some(s) = &sizes {
        r.set("small_images", s.small_images)
            .set("multiset_images_mult_le_2", s.multiset_images)
            .set("multiset_images_with_a_mult_3_core_only", s.multiset_extra_images)
            .set("subsampled_cases", s.large_cases)
            .set("lattice_palettes", s.small_palettes)
            .set("lattice_palette_queries", s.small_palette_queries)
            .set(
                "structured_palettes_all_2^24_queries",
                s.full_query_palettes.iter().map(|(n, k)| json!({"name": n, "colours": k})).collect::<Vec<_>>(),
            )
            .set("completed", s.completed.iter().map(|x| json!(x)).collect::<Vec<_>>());
    }
    r.assume("alpha compositing is rasterize::Color::blend_over (external crate), as called by the library; the oracle composites with the same function");
    r.assume("'Euclidean RGB distance' is compared as squared distance on the 8-bit sRGB components");
    r.assume("which of several equidistant palette entries is returned is not checked");
    r.assume("a palette smaller than necessary is allowed by the statement; over-pruning is counted (lead_overpruned_*) but is not a violation");
    r.assume("with dithering only palette bound, index validity and (when the colours fit) exact reproduction are checked");
    let mut viols: Vec<Violation> = sh.best.read().unwrap().values().map(|(_, v)| v.clone()).collect();
    viols.sort_by(|a, b| a.key.cmp(&b.key));
    let samples = sh.samples.lock().unwrap().take().ok_or("samples already taken")?;
    r.set("raw_violations", sh.raw_viol.load(Ordering::Relaxed));
    r.set("samples", samples.into_vec());
    r.violations = viols;
    Ok(r)
}

pub fn replay(w: &Value) -> Result<(bool, String), String> {
    if w["logging"] == json!(true) {
        let mut w2 = w.clone();
        w2["logging"] = json!(false);
        return crate::engine::logging::with_logging(|| replay(&w2));
    }
    match w["kind"].as_str() {
        Some("quantize") => {
            let c = QCase::from_json(w)?;
            let comp = c.composited();
            let head = format!(
                "quantize {}x{} requested {} dither {} bg {:?} crop {}; composited pixels {:?}\n",
                c.h, c.w, c.size, c.dither, c.bg, c.crop, comp
            );
            match eval_q_timed(&c, HANG_SECS) {
                None => Ok((true, format!("{head}expected: returns; observed: no result within {HANG_SECS}s (hang)"))),
                Some(Err((kind, detail))) => Ok((true, format!("{head}[{kind}] {detail}"))),
                Some(Ok(info)) => Ok((
                    false,
                    format!(
                        "{head}palette of {} colours for {} distinct colours (allowed 1..={}); all checks hold",
                        info.palette, info.distinct, c.size.max(8)
                    ),
                )),
            }
        }
        Some("find") => {
            let colors: Vec<[u8; 3]> = w["palette"]
                .as_array()
                .ok_or("palette")?
                .iter()
                .map(|c| [c[0].as_u64().unwrap_or(0) as u8, c[1].as_u64().unwrap_or(0) as u8, c[2].as_u64().unwrap_or(0) as u8])
                .collect();
            let q = &w["query"];
            let q = [q[0].as_u64().ok_or("query")? as u8, q[1].as_u64().ok_or("query")? as u8, q[2].as_u64().ok_or("query")? as u8];
            let best = colors.iter().map(|c| dist(q, *c)).min().ok_or("empty palette")?;
            let head = format!("find({:?}) in a palette of {} colours; expected: an entry at squared distance {}\n", q, colors.len(), best);
            match eval_find(&colors, q) {
                Some((kind, detail)) => Ok((true, format!("{head}[{kind}] {detail}"))),
                None => Ok((false, format!("{head}library returns an entry at that distance"))),
            }
        }
        _ => Err("witness kind must be quantize or find".into()),
    }
}
