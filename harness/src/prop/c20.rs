//! C20 -- colours reduced for 256-colour and grey terminals are the closest available ones.
//!
//! Complete sweep of all 2^24 opaque colours through the real `TTYEncoder` (public API only):
//! `Face{fg}` (quick) and also `Face{bg}` and `FaceModify{underline_color}` (thorough), under
//! `EightBit`, `Gray` and `TrueColor`. The emitted bytes are read by a small SGR parameter
//! parser written here. Oracles:
//!
//! * EightBit: the selected index i is in 16..=255 and d(c, entry i) <= min_j d(c, entry j) + 1e-5
//!   over all 240 non-system entries of the xterm palette (cube levels 0,95,135,175,215,255;
//!   greys 8+10k), d = the library's own `LinColor::distance`, entries converted from their sRGB
//!   definition by the library's own `LinColor::from(RGBA)`. Brute force, no shortcut.
//! * Gray: the emitted ANSI grey (30 < 90 < 37 < 97, +10 for background) is the level of
//!   {0, .33, .66, 1} nearest to luma (ties: either side), and levels are monotone in luma over
//!   the complete sweep.
//! * TrueColor: exactly `2;r;g;b`.
use crate::engine::report::{Ctx, Report, Samples, Tier, Violations};
use crate::engine::catch;
use rayon::prelude::*;
use serde_json::{json, Value};
use std::collections::BTreeMap;
use surf_n_term::encoder::{ColorDepth, Encoder, TTYEncoder};
use surf_n_term::{Face, FaceModify, LinColor, TerminalCaps, TerminalCommand, RGBA};

/// tolerance of the optimality oracle (absorbs the six-digit hand-typed linear tables)
const TOL: f64 = 1e-5;
/// tolerance for luma ties (library computes luma in f32, the oracle in f64)
const LUMA_TOL: f64 = 1e-6;

// ---------------------------------------------------------------------------------------------
// specification: xterm 256-colour palette (non-system part) and ANSI greys

const CUBE_LEVELS: [u8; 6] = [0, 95, 135, 175, 215, 255];

/// sRGB definition of xterm palette entry `index` (16..=255).
pub fn xterm_entry(index: usize) -> [u8; 3] {
    assert!((16..=255).contains(&index));
    if index < 232 {
        let i = index - 16;
        [CUBE_LEVELS[i / 36], CUBE_LEVELS[(i / 6) % 6], CUBE_LEVELS[i % 6]]
    } else {
        let v = (8 + 10 * (index - 232)) as u8;
        [v, v, v]
    }
}

/// Grey levels available on a grey-only terminal and the SGR foreground codes that show them,
/// darkest first: black, bright black, white, bright white.
const GRAY_LEVELS: [f64; 4] = [0.0, 0.33, 0.66, 1.0];
const GRAY_FG_CODES: [u32; 4] = [30, 90, 37, 97];

/// Rec.709 weights applied to the sRGB components (the library's notion of luma).
fn luma(c: [u8; 3]) -> f64 {
    0.2126 * (c[0] as f64 / 255.0) + 0.7152 * (c[1] as f64 / 255.0) + 0.0722 * (c[2] as f64 / 255.0)
}

// ---------------------------------------------------------------------------------------------
// tiny SGR reader

#[derive(Debug, Clone, Copy, PartialEq, Eq)]
pub enum Col {
    /// 38;5;N
    Idx(u32),
    /// 38;2;r;g;b
    Rgb(u32, u32, u32),
    /// 30..37 / 90..97 (stored as the foreground code, background has 10 subtracted)
    Basic(u32),
}

#[derive(Debug, Clone, Copy, PartialEq, Eq, Default)]
pub struct Sgr {
    pub fg: Option<Col>,
    pub bg: Option<Col>,
    pub ul: Option<Col>,
}

/// Parse zero or more `ESC [ params m` sequences and return the colours they set.
pub fn parse_sgr(bytes: &[u8]) -> Result<Sgr, String> {
    let mut sgr = Sgr::default();
    let mut rest = bytes;
    while !rest.is_empty() {
        if rest.len() < 3 || rest[0] != 0x1b || rest[1] != b'[' {
            return Err("not a CSI sequence".into());
        }
        let end = rest.iter().position(|b| *b == b'm').ok_or("no final byte m")?;
        let body = &rest[2..end];
        if !body.iter().all(|b| b.is_ascii_digit() || *b == b';' || *b == b':') {
            return Err("unexpected byte in SGR parameters".into());
        }
        let body = std::str::from_utf8(body).map_err(|e| e.to_string())?;
        // flatten `38:5:N` style sub-parameters of colour parameters into the same stream
        let mut params: Vec<Option<u32>> = Vec::new();
        for tok in body.split(';') {
            let head = tok.split(':').next().unwrap_or("");
            if tok.contains(':') && !matches!(head, "38" | "48" | "58") {
                // e.g. 4:3 underline styles -- one parameter, irrelevant here
                params.push(None);
                continue;
            }
            for sub in tok.split(':') {
                if sub.is_empty() {
                    params.push(Some(0));
                } else {
                    params.push(Some(sub.parse::<u32>().map_err(|e| format!("parameter {sub:?}: {e}"))?));
                }
            }
        }
        let mut i = 0;
        while i < params.len() {
            let p = params[i];
            i += 1;
            let Some(p) = p else { continue };
            match p {
                0 => sgr = Sgr::default(),
                30..=37 | 90..=97 => sgr.fg = Some(Col::Basic(p)),
                40..=47 | 100..=107 => sgr.bg = Some(Col::Basic(p - 10)),
                39 => sgr.fg = None,
                49 => sgr.bg = None,
                59 => sgr.ul = None,
                38 | 48 | 58 => {
                    let get = |k: usize| -> Result<u32, String> {
                        params.get(k).copied().flatten().ok_or_else(|| "truncated colour parameter".to_string())
                    };
                    let col = match get(i)? {
                        5 => {
                            let c = Col::Idx(get(i + 1)?);
                            i += 2;
                            c
                        }
                        2 => {
                            let c = Col::Rgb(get(i + 1)?, get(i + 2)?, get(i + 3)?);
                            i += 4;
                            c
                        }
                        other => return Err(format!("unknown colour space {other}")),
                    };
                    match p {
                        38 => sgr.fg = Some(col),
                        48 => sgr.bg = Some(col),
                        _ => sgr.ul = Some(col),
                    }
                }
                _ => {}
            }
        }
        rest = &rest[end + 1..];
    }
    Ok(sgr)
}

// ---------------------------------------------------------------------------------------------
// cases

#[derive(Debug, Clone, Copy, PartialEq, Eq, PartialOrd, Ord)]
pub enum Role {
    /// `Face{fg}`
    Fg,
    /// `Face{bg}`
    Bg,
    /// `FaceModify{underline_color}`
    Ul,
    /// `FaceModify{fg}` (a separate call site in the encoder)
    ModFg,
    /// `FaceModify{bg}`
    ModBg,
}

const ALL_ROLES: [Role; 5] = [Role::Fg, Role::Bg, Role::Ul, Role::ModFg, Role::ModBg];

impl Role {
    fn name(self) -> &'static str {
        match self {
            Role::Fg => "fg",
            Role::Bg => "bg",
            Role::Ul => "underline",
            Role::ModFg => "modify-fg",
            Role::ModBg => "modify-bg",
        }
    }
    fn from_name(s: &str) -> Option<Role> {
        ALL_ROLES.into_iter().find(|r| r.name() == s)
    }
}

fn depth_name(d: ColorDepth) -> &'static str {
    match d {
        ColorDepth::EightBit => "EightBit",
        ColorDepth::Gray => "Gray",
        ColorDepth::TrueColor => "TrueColor",
    }
}

fn depth_from_name(s: &str) -> Option<ColorDepth> {
    [ColorDepth::EightBit, ColorDepth::Gray, ColorDepth::TrueColor]
        .into_iter()
        .find(|d| depth_name(*d) == s)
}

fn hex_color(c: [u8; 3]) -> String {
    format!("#{:02x}{:02x}{:02x}", c[0], c[1], c[2])
}

fn parse_hex(s: &str) -> Option<[u8; 3]> {
    let s = s.strip_prefix('#')?;
    if s.len() != 6 {
        return None;
    }
    let v = u32::from_str_radix(s, 16).ok()?;
    Some([(v >> 16) as u8, (v >> 8) as u8, v as u8])
}

struct Palette {
    lin: Vec<LinColor>, // index 0 == palette entry 16
}

impl Palette {
    fn new() -> Self {
        let lin = (16..=255usize)
            .map(|i| {
                let [r, g, b] = xterm_entry(i);
                LinColor::from(RGBA::new(r, g, b, 255))
            })
            .collect();
        Self { lin }
    }

    /// brute force: (best entry index, its distance) -- first minimum in index order
    fn best(&self, c: LinColor) -> (usize, f32) {
        let mut best = (16usize, f32::INFINITY);
        for (k, e) in self.lin.iter().enumerate() {
            let d = c.distance(*e);
            if d < best.1 {
                best = (16 + k, d);
            }
        }
        best
    }
}

fn new_encoder(depth: ColorDepth) -> TTYEncoder {
    TTYEncoder::new(TerminalCaps { depth, ..TerminalCaps::default() })
}

/// Drive the real encoder for one colour in one role; the emitted bytes land in `out`.
fn emit(enc: &mut TTYEncoder, out: &mut Vec<u8>, role: Role, c: [u8; 3]) -> Result<(), String> {
    emit_rgba(enc, out, role, [c[0], c[1], c[2], 255])
}

fn emit_rgba(enc: &mut TTYEncoder, out: &mut Vec<u8>, role: Role, c: [u8; 4]) -> Result<(), String> {
    out.clear();
    let rgba = RGBA::new(c[0], c[1], c[2], c[3]);
    let cmd = match role {
        Role::Fg => TerminalCommand::Face(Face { fg: Some(rgba), ..Face::default() }),
        Role::Bg => TerminalCommand::Face(Face { bg: Some(rgba), ..Face::default() }),
        Role::Ul => TerminalCommand::FaceModify(FaceModify { underline_color: Some(rgba), ..FaceModify::default() }),
        Role::ModFg => TerminalCommand::FaceModify(FaceModify { fg: Some(rgba), ..FaceModify::default() }),
        Role::ModBg => TerminalCommand::FaceModify(FaceModify { bg: Some(rgba), ..FaceModify::default() }),
    };
    enc.encode(&mut *out, cmd).map_err(|e| format!("encode error: {e:?}"))
}

/// One command that sets foreground and background together (`Face` or `FaceModify`).
fn emit_both(enc: &mut TTYEncoder, out: &mut Vec<u8>, modify: bool, fg: [u8; 4], bg: [u8; 3]) -> Result<(), String> {
    out.clear();
    let fg = RGBA::new(fg[0], fg[1], fg[2], fg[3]);
    let bg = RGBA::new(bg[0], bg[1], bg[2], 255);
    let cmd = if modify {
        TerminalCommand::FaceModify(FaceModify { fg: Some(fg), bg: Some(bg), ..FaceModify::default() })
    } else {
        TerminalCommand::Face(Face { fg: Some(fg), bg: Some(bg), ..Face::default() })
    };
    enc.encode(&mut *out, cmd).map_err(|e| format!("encode error: {e:?}"))
}

struct Fail {
    kind: &'static str,
    /// how far beyond the oracle (distance excess, or luma error); larger = worse
    excess: f64,
    /// only filled in when asked for (`verbose`): formatting millions of failures is slow
    detail: String,
    /// Gray: the level shown, when the emitted code is one of the four greys
    level: Option<u32>,
}

macro_rules! detail {
    ($verbose:expr, $($t:tt)*) => {
        if $verbose { format!($($t)*) } else { String::new() }
    };
}

/// Outcome of one evaluation that passed the oracle.
struct Pass {
    /// EightBit: selected index; Gray: level 0..4; TrueColor: 0
    outcome: u32,
    /// EightBit: distance excess over the brute-force optimum (<= TOL)
    excess: f64,
    nontrivial: bool,
}

fn slot(sgr: &Sgr, role: Role) -> Option<Col> {
    match role {
        Role::Fg | Role::ModFg => sgr.fg,
        Role::Bg | Role::ModBg => sgr.bg,
        Role::Ul => sgr.ul,
    }
}

/// The oracle for one (role, depth, colour) given the bytes the encoder emitted.
fn judge(pal: &Palette, role: Role, depth: ColorDepth, c: [u8; 3], bytes: &[u8], verbose: bool) -> Result<Pass, Fail> {
    let sgr = parse_sgr(bytes).map_err(|e| Fail {
        kind: "unparseable", level: None,
        excess: 0.0,
        detail: detail!(verbose, "emitted {:?}: {e}", crate::engine::util::esc(bytes)),
    })?;
    let got = slot(&sgr, role);
    let shown = || crate::engine::util::esc(bytes);
    match depth {
        ColorDepth::TrueColor => {
            let want = Col::Rgb(c[0] as u32, c[1] as u32, c[2] as u32);
            if got == Some(want) {
                Ok(Pass { outcome: 0, excess: 0.0, nontrivial: false })
            } else {
                Err(Fail {
                    kind: "truecolor-changed", level: None,
                    excess: 0.0,
                    detail: detail!(verbose, "expected {} to be sent as 2;{};{};{} but emitted {} ({:?})", hex_color(c), c[0], c[1], c[2], shown(), got),
                })
            }
        }
        ColorDepth::EightBit => {
            let idx = match got {
                Some(Col::Idx(i)) => i,
                other => {
                    return Err(Fail {
                        kind: "no-palette-index", level: None,
                        excess: 0.0,
                        detail: detail!(verbose, "expected a 5;N palette colour for {}, emitted {} ({:?})", hex_color(c), shown(), other),
                    })
                }
            };
            if !(16..=255).contains(&idx) {
                return Err(Fail {
                    kind: "index-out-of-range", level: None,
                    excess: 0.0,
                    detail: detail!(verbose, "index {idx} for {} is not one of the 240 non-system entries 16..=255 ({})", hex_color(c), shown()),
                });
            }
            let lin = LinColor::from(RGBA::new(c[0], c[1], c[2], 255));
            let (best, dmin) = pal.best(lin);
            let dsel = lin.distance(pal.lin[idx as usize - 16]);
            let excess = dsel as f64 - dmin as f64;
            if excess > TOL {
                let e = xterm_entry(idx as usize);
                let b = xterm_entry(best);
                return Err(Fail {
                    kind: "not-nearest", level: None,
                    excess,
                    detail: detail!(verbose, 
                        "{}: library chose entry {idx} {} at distance {dsel:.6}, but entry {best} {} is at distance {dmin:.6} (excess {excess:.6} > 1e-5)",
                        hex_color(c),
                        hex_color(e),
                        hex_color(b)
                    ),
                });
            }
            Ok(Pass { outcome: idx, excess, nontrivial: dmin > 0.0 })
        }
        ColorDepth::Gray => {
            let code = match got {
                Some(Col::Basic(code)) => code,
                other => {
                    return Err(Fail {
                        kind: "no-grey-code", level: None,
                        excess: 0.0,
                        detail: detail!(verbose, "expected one of the four ANSI greys for {}, emitted {} ({:?})", hex_color(c), shown(), other),
                    })
                }
            };
            let Some(level) = GRAY_FG_CODES.iter().position(|g| *g == code) else {
                return Err(Fail {
                    kind: "not-a-grey", level: None,
                    excess: 0.0,
                    detail: detail!(verbose, "SGR colour {code} for {} is not black/bright black/white/bright white ({})", hex_color(c), shown()),
                });
            };
            let l = luma(c);
            let dsel = (l - GRAY_LEVELS[level]).abs();
            let (best, dmin) = GRAY_LEVELS
                .iter()
                .enumerate()
                .map(|(i, g)| (i, (l - g).abs()))
                .fold((0, f64::INFINITY), |a, b| if b.1 < a.1 { b } else { a });
            if dsel > dmin + LUMA_TOL {
                return Err(Fail {
                    kind: "not-nearest-level",
                    level: Some(level as u32),
                    excess: dsel - dmin,
                    detail: detail!(verbose, 
                        "{} has luma {l:.6}: library chose level {} (SGR {code}), nearest is level {} (SGR {})",
                        hex_color(c),
                        GRAY_LEVELS[level],
                        GRAY_LEVELS[best],
                        GRAY_FG_CODES[best]
                    ),
                });
            }
            Ok(Pass { outcome: level as u32, excess: 0.0, nontrivial: dmin > 0.0 })
        }
    }
}

fn eval_once(pal: &Palette, enc: &mut TTYEncoder, out: &mut Vec<u8>, role: Role, depth: ColorDepth, c: [u8; 3], verbose: bool) -> Result<Pass, Fail> {
    match catch(|| emit(enc, out, role, c)) {
        Err(p) => Err(Fail { kind: "panic", level: None, excess: 0.0, detail: detail!(verbose, "panicked: {} ({}:{})", p.message, p.file, p.line) }),
        Ok(Err(e)) => Err(Fail { kind: "encode-error", level: None, excess: 0.0, detail: e }),
        Ok(Ok(())) => judge(pal, role, depth, c, out, verbose),
    }
}

// ---------------------------------------------------------------------------------------------
// the depth a terminal object really encodes with

/// environments of the terminal-level pass: (TERM, COLORTERM, the emulator answers the face query like a
/// true-colour terminal)
const TERMINAL_ENVS: [(&str, Option<&str>, bool); 7] = [
    ("dumb", None, false),
    ("linux", None, false),
    ("dumb", Some("truecolor"), false),
    ("xterm", None, false),
    ("xterm", Some("truecolor"), false),
    ("xterm", Some("24bit"), false),
    ("xterm", None, true),
];

fn terminal_colours() -> Vec<[u8; 3]> {
    let lv = [0u8, 64, 128, 191, 255];
    let mut v = vec![];
    for r in lv {
        for g in lv {
            for b in lv {
                v.push([r, g, b]);
            }
        }
    }
    v
}

fn role_command(role: Role, c: [u8; 3]) -> TerminalCommand {
    let rgba = RGBA::new(c[0], c[1], c[2], 255);
    match role {
        Role::Fg => TerminalCommand::Face(Face { fg: Some(rgba), ..Face::default() }),
        Role::Bg => TerminalCommand::Face(Face { bg: Some(rgba), ..Face::default() }),
        Role::Ul => TerminalCommand::FaceModify(FaceModify { underline_color: Some(rgba), ..FaceModify::default() }),
        Role::ModFg => TerminalCommand::FaceModify(FaceModify { fg: Some(rgba), ..FaceModify::default() }),
        Role::ModBg => TerminalCommand::FaceModify(FaceModify { bg: Some(rgba), ..FaceModify::default() }),
    }
}

/// split the stream at the `|` written after every command
fn sgr_pieces(stream: &[u8]) -> Result<Vec<&[u8]>, String> {
    let mut out: Vec<&[u8]> = stream.split(|b| *b == b'|').collect();
    match out.pop() {
        Some(last) if last.is_empty() => Ok(out),
        _ => Err("the output does not end with the separator written after the last command".into()),
    }
}

/// One environment: every colour of a 5x5x5 lattice in every role through `execute` of a terminal object opened on
/// a pty; each emitted sequence is judged by the oracle of the depth the terminal object REPORTS
/// (`capabilities().depth`). Returns (depth name, evaluations, failures (kind, detail, witness)).
fn terminal_env_check(pal: &Palette, env_index: usize) -> Result<(String, u64, Vec<(String, String, Value)>), String> {
    let (term_env, colorterm, reply) = TERMINAL_ENVS[env_index];
    let colours = terminal_colours();
    let mut cmds = vec![];
    let mut meta = vec![];
    for role in ALL_ROLES {
        for c in &colours {
            cmds.push(role_command(role, *c));
            meta.push((role, *c));
        }
    }
    let (depth, stream) = super::term_common::commands_on_real_terminal(term_env, colorterm, reply, &cmds)?;
    let w = |role: Role, c: [u8; 3]| json!({"sub": "terminal", "env": env_index, "term": term_env, "colorterm": colorterm, "truecolor_reply": reply, "role": role.name(), "color": hex_color(c)});
    let mut fails = vec![];
    let pieces = match sgr_pieces(&stream) {
        Ok(p) if p.len() == cmds.len() => p,
        Ok(p) => {
            fails.push(("terminal:command-count".to_string(), format!("TERM={term_env} COLORTERM={colorterm:?}: {} face commands were executed, the pty received {} SGR sequences", cmds.len(), p.len()), w(Role::Fg, [0, 0, 0])));
            return Ok((depth_name(depth).to_string(), 0, fails));
        }
        Err(e) => {
            fails.push(("terminal:stream".to_string(), format!("TERM={term_env} COLORTERM={colorterm:?}: {e}"), w(Role::Fg, [0, 0, 0])));
            return Ok((depth_name(depth).to_string(), 0, fails));
        }
    };
    let mut n = 0u64;
    for ((role, c), piece) in meta.iter().zip(pieces) {
        if *role == Role::Ul && depth == ColorDepth::Gray {
            // no SGR form exists
            continue;
        }
        n += 1;
        if let Err(f) = judge(pal, *role, depth, *c, piece, true) {
            fails.push((
                format!("terminal:{}:{}:{}", depth_name(depth), role.name(), f.kind),
                format!(
                    "terminal object opened with TERM={term_env} COLORTERM={colorterm:?}{} reports depth {}; executing the face command for {} in role {} sent {:?}: {}",
                    if reply { " on an emulator that answers the face query with the true-colour face" } else { "" },
                    depth_name(depth), hex_color(*c), role.name(), crate::engine::util::esc(piece), f.detail
                ),
                w(*role, *c),
            ));
        }
    }
    Ok((depth_name(depth).to_string(), n, fails))
}

/// child-process entry (`snt-mc C20 --terminal`): all environments, one after the other (the environment
/// variables belong to the process)
pub fn terminal_main() {
    let pal = Palette::new();
    let mut envs = vec![];
    for i in 0..TERMINAL_ENVS.len() {
        match catch(|| terminal_env_check(&pal, i)) {
            Ok(Ok((depth, n, fails))) => {
                let fs: Vec<Value> = fails.iter().map(|(k, d, w)| json!([k, d, w])).collect();
                envs.push(json!({"env": i, "term": TERMINAL_ENVS[i].0, "colorterm": TERMINAL_ENVS[i].1, "truecolor_reply": TERMINAL_ENVS[i].2, "reported_depth": depth, "evaluations": n, "failures": fs}));
            }
            Ok(Err(e)) => {
                println!("TERMINAL {}", json!({"error": format!("environment {i}: {e}")}));
                return;
            }
            Err(p) => {
                println!("TERMINAL {}", json!({"error": format!("environment {i}: panicked: {}", p.message)}));
                return;
            }
        }
    }
    println!("TERMINAL {}", json!({"envs": envs}));
}

fn terminal_in_child() -> Result<Value, String> {
    let exe = std::env::current_exe().map_err(|e| format!("{e}"))?;
    let out = std::process::Command::new(exe).arg("C20").arg("--terminal").output().map_err(|e| format!("{e}"))?;
    let text = String::from_utf8_lossy(&out.stdout);
    for line in text.lines() {
        if let Some(rest) = line.strip_prefix("TERMINAL ") {
            let v: Value = serde_json::from_str(rest).map_err(|e| format!("{e}"))?;
            if let Some(e) = v.get("error") {
                return Err(format!("terminal-level pass: {e}"));
            }
            return Ok(v);
        }
    }
    Err(format!("terminal-level child produced no summary (status {})", out.status))
}

fn witness(role: Role, depth: ColorDepth, c: [u8; 3]) -> Value {
    json!({"role": role.name(), "depth": depth_name(depth), "color": hex_color(c)})
}

/// per (role, depth) accumulator, merged deterministically
#[derive(Clone, Default)]
struct Acc {
    evals: u64,
    nontrivial: u64,
    outcomes: Vec<u64>, // histogram indexed by outcome (256 slots)
    max_ok_excess: f64,
    /// brute-force distance evaluations actually performed
    dist_evals: u64,
    /// kind -> (count, worst excess, colour, detail); ties broken by smaller colour
    fails: BTreeMap<&'static str, (u64, f64, [u8; 3], String)>,
    /// Gray: per level (min luma, colour), (max luma, colour)
    level_span: Vec<Option<((f64, [u8; 3]), (f64, [u8; 3]))>>,
}

impl Acc {
    fn new() -> Self {
        Acc { outcomes: vec![0; 256], level_span: vec![None; 4], ..Default::default() }
    }
    fn span(&mut self, level: u32, c: [u8; 3]) {
        let l = luma(c);
        let s = &mut self.level_span[level as usize & 3];
        *s = match s.take() {
            None => Some(((l, c), (l, c))),
            Some((mn, mx)) => Some((if (l, c) < mn { (l, c) } else { mn }, if (l, c) > mx { (l, c) } else { mx })),
        };
    }
    fn fail(&mut self, c: [u8; 3], f: Fail) {
        if let Some(level) = f.level {
            self.span(level, c);
        }
        let e = self.fails.entry(f.kind).or_insert((0, f64::NEG_INFINITY, c, String::new()));
        e.0 += 1;
        if f.excess > e.1 || (f.excess == e.1 && c < e.2) {
            e.1 = f.excess;
            e.2 = c;
            e.3 = f.detail;
        }
    }
    fn merge(mut self, o: Acc) -> Acc {
        self.evals += o.evals;
        self.nontrivial += o.nontrivial;
        for (a, b) in self.outcomes.iter_mut().zip(o.outcomes) {
            *a += b;
        }
        self.max_ok_excess = self.max_ok_excess.max(o.max_ok_excess);
        self.dist_evals += o.dist_evals;
        for (k, v) in o.fails {
            match self.fails.get_mut(k) {
                None => {
                    self.fails.insert(k, v);
                }
                Some(e) => {
                    e.0 += v.0;
                    if v.1 > e.1 || (v.1 == e.1 && v.2 < e.2) {
                        e.1 = v.1;
                        e.2 = v.2;
                        e.3 = v.3;
                    }
                }
            }
        }
        for (a, b) in self.level_span.iter_mut().zip(o.level_span) {
            *a = match (a.take(), b) {
                (None, x) | (x, None) => x,
                (Some((amin, amax)), Some((bmin, bmax))) => Some((
                    if (bmin.0, bmin.1) < (amin.0, amin.1) { bmin } else { amin },
                    if (bmax.0, bmax.1) > (amax.0, amax.1) { bmax } else { amax },
                )),
            };
        }
        self
    }
}

/// channel values of a sweep: every value, or the lattice {0} u {3, 7, .., 255} (65 values)
fn channel_values(full: bool) -> Vec<u32> {
    (0u32..256).filter(|v| full || *v == 0 || v % 4 == 3).collect()
}

/// All colours whose three channels are in `values`, for one role and depth.
fn sweep(pal: &Palette, samples: &Samples, role: Role, depth: ColorDepth, values: &[u32]) -> Acc {
    values
        .par_iter()
        .map(|&r| {
            let mut acc = Acc::new();
            let mut enc = new_encoder(depth);
            let mut out = Vec::with_capacity(32);
            for &g in values {
                for &b in values {
                    let c = [r as u8, g as u8, b as u8];
                    acc.evals += 1;
                    match eval_once(pal, &mut enc, &mut out, role, depth, c, false) {
                        Ok(p) => {
                            if depth == ColorDepth::EightBit {
                                acc.dist_evals += pal.lin.len() as u64 + 1;
                            }
                            acc.nontrivial += p.nontrivial as u64;
                            acc.outcomes[(p.outcome & 255) as usize] += 1;
                            if p.excess > acc.max_ok_excess {
                                acc.max_ok_excess = p.excess;
                            }
                            if depth == ColorDepth::Gray {
                                acc.span(p.outcome, c);
                            }
                            let index = ((role as u64) << 40) | ((depth as u64) << 32) | ((r as u64) << 16 | (g as u64) << 8 | b as u64);
                            if samples.wants(index.wrapping_mul(0x2545_f491_4f6c_dd1d) >> 8) {
                                let bytes = out.clone();
                                samples.offer(index.wrapping_mul(0x2545_f491_4f6c_dd1d) >> 8, || {
                                    json!({"role": role.name(), "depth": depth_name(depth), "color": hex_color(c),
                                           "emitted": crate::engine::util::esc(&bytes), "outcome": p.outcome})
                                });
                            }
                        }
                        Err(f) => {
                            // a panicking encoder may be left in an odd state: start afresh
                            if f.kind == "panic" {
                                enc = new_encoder(depth);
                            }
                            acc.fail(c, f)
                        }
                    }
                }
            }
            acc
        })
        .reduce(Acc::new, Acc::merge)
}

/// One encoder, two emissions: `(first role, first colour)` then `(role, colour)`; the second one is judged
/// exactly like an emission of a fresh encoder. First colours: the colour itself, its neighbour (blue
/// channel +-1) and the colour at half opacity; colours: the 16^3 lattice with channels in {0, 17, .., 255}; all 25 ordered role pairs.
/// Returns (evaluations, failures as (key, count, witness, detail of the smallest failing case)).
fn sweep_history(pal: &Palette, depth: ColorDepth) -> (u64, Vec<(String, u64, Value, String)>) {
    let values: Vec<u8> = (0..16u32).map(|v| (v * 17) as u8).collect();
    let per_row: Vec<(u64, BTreeMap<String, (u64, Value, String)>)> = values
        .par_iter()
        .map(|&r| {
            let mut evals = 0u64;
            let mut fails: BTreeMap<String, (u64, Value, String)> = BTreeMap::new();
            let mut out = Vec::with_capacity(32);
            for &g in &values {
                for &b in &values {
                    let c = [r, g, b];
                    for first_c in [[r, g, b, 255], [r, g, b ^ 1, 255], [r, g, b, 128]] {
                        // the two colours in ONE command: the background must not depend on the foreground next to it
                        for modify in [false, true] {
                            evals += 1;
                            let mut enc = new_encoder(depth);
                            let res = match catch(|| emit_both(&mut enc, &mut out, modify, first_c, c)) {
                                Err(p) => Err(Fail { kind: "panic", level: None, excess: 0.0, detail: format!("panicked: {}", p.message) }),
                                Ok(Err(e)) => Err(Fail { kind: "encode-error", level: None, excess: 0.0, detail: e }),
                                Ok(Ok(())) => judge(pal, if modify { Role::ModBg } else { Role::Bg }, depth, c, &out, false),
                            };
                            if let Err(f) = res {
                                let role = if modify { Role::ModBg } else { Role::Bg };
                                let key = format!("{}:{}:with-fg-in-same-command:{}", role.name(), depth_name(depth), f.kind);
                                let e = fails.entry(key).or_insert_with(|| {
                                    let mut w = witness(role, depth, c);
                                    w["same_command_fg"] = json!([hex_color([first_c[0], first_c[1], first_c[2]]), first_c[3]]);
                                    (0, w, String::new())
                                });
                                e.0 += 1;
                            }
                        }
                        for first_role in ALL_ROLES {
                            for role in ALL_ROLES {
                                if role == Role::Ul && depth == ColorDepth::Gray {
                                    continue;
                                }
                                // the first emission into a sink that fails after "ESC [": the next one, into a working
                                // sink, is judged like a fresh encoder's
                                if first_c[3] == 255 && b % 51 == 0 {
                                    evals += 1;
                                    let mut enc = new_encoder(depth);
                                    let _ = catch(|| {
                                        let mut small = [0u8; 2];
                                        let mut sink: &mut [u8] = &mut small;
                                        let rgba = RGBA::new(first_c[0], first_c[1], first_c[2], 255);
                                        let cmd = match first_role {
                                            Role::Fg => TerminalCommand::Face(Face { fg: Some(rgba), ..Face::default() }),
                                            Role::Bg => TerminalCommand::Face(Face { bg: Some(rgba), ..Face::default() }),
                                            Role::Ul => TerminalCommand::FaceModify(FaceModify { underline_color: Some(rgba), ..FaceModify::default() }),
                                            Role::ModFg => TerminalCommand::FaceModify(FaceModify { fg: Some(rgba), ..FaceModify::default() }),
                                            Role::ModBg => TerminalCommand::FaceModify(FaceModify { bg: Some(rgba), ..FaceModify::default() }),
                                        };
                                        let _ = enc.encode(&mut sink, cmd);
                                    });
                                    if let Err(f) = eval_once(pal, &mut enc, &mut out, role, depth, c, false) {
                                        let key = format!("{}:{}:after-failed-{}:{}", role.name(), depth_name(depth), first_role.name(), f.kind);
                                        let e = fails.entry(key).or_insert_with(|| {
                                            let mut w = witness(role, depth, c);
                                            w["before_failed"] = json!([first_role.name(), hex_color([first_c[0], first_c[1], first_c[2]])]);
                                            (0, w, String::new())
                                        });
                                        e.0 += 1;
                                    }
                                }
                                evals += 1;
                                let mut enc = new_encoder(depth);
                                let _ = catch(|| emit_rgba(&mut enc, &mut out, first_role, first_c));
                                if let Err(f) = eval_once(pal, &mut enc, &mut out, role, depth, c, false) {
                                    let key = format!("{}:{}:after-{}:{}", role.name(), depth_name(depth), first_role.name(), f.kind);
                                    let e = fails.entry(key).or_insert_with(|| {
                                        let mut w = witness(role, depth, c);
                                        w["before"] = json!([[first_role.name(), hex_color([first_c[0], first_c[1], first_c[2]]), first_c[3]]]);
                                        (0, w, String::new())
                                    });
                                    e.0 += 1;
                                }
                                // third emission: the first command once more (an encoder may remember what it
                                // sent last); it must come out like a fresh encoder's
                                if first_c[3] == 255 && !(first_role == Role::Ul && depth == ColorDepth::Gray) {
                                    evals += 1;
                                    let fc = [first_c[0], first_c[1], first_c[2]];
                                    if let Err(f) = eval_once(pal, &mut enc, &mut out, first_role, depth, fc, false) {
                                        let key = format!("{}:{}:again-after-{}:{}", first_role.name(), depth_name(depth), role.name(), f.kind);
                                        let e = fails.entry(key).or_insert_with(|| {
                                            let mut w = witness(first_role, depth, fc);
                                            w["before"] = json!([[first_role.name(), hex_color(fc), 255], [role.name(), hex_color(c), 255]]);
                                            (0, w, String::new())
                                        });
                                        e.0 += 1;
                                    }
                                }
                            }
                        }
                    }
                }
            }
            (evals, fails)
        })
        .collect();
    let mut evals = 0;
    let mut all: BTreeMap<String, (u64, Value, String)> = BTreeMap::new();
    for (n, fails) in per_row {
        evals += n;
        for (k, v) in fails {
            match all.get_mut(&k) {
                None => {
                    all.insert(k, v);
                }
                Some(e) => e.0 += v.0,
            }
        }
    }
    let out = all
        .into_iter()
        .map(|(k, (n, w, _))| {
            let detail = match replay(&w) {
                Ok((_, text)) => text,
                Err(e) => e,
            };
            (k, n, w, detail)
        })
        .collect();
    (evals, out)
}

/// Check monotonicity of grey level in luma from the per-level luma spans of a complete sweep.
fn monotone_failures(acc: &Acc) -> Vec<(f64, [u8; 3], [u8; 3], String)> {
    let mut out = vec![];
    for i in 0..4 {
        for j in i + 1..4 {
            if let (Some((_, (max_i, ci))), Some(((min_j, cj), _))) = (&acc.level_span[i], &acc.level_span[j]) {
                if *max_i > *min_j + LUMA_TOL {
                    out.push((
                        max_i - min_j,
                        *ci,
                        *cj,
                        format!(
                            "{} (luma {:.6}) is shown at level {} but the darker {} (luma {:.6}) at the higher level {}",
                            hex_color(*ci), max_i, GRAY_LEVELS[i], hex_color(*cj), min_j, GRAY_LEVELS[j]
                        ),
                    ));
                }
            }
        }
    }
    out
}

pub fn run(ctx: &Ctx) -> Result<Report, String> {
    let pal = Palette::new();
    // sanity of the specification tables (not of the library)
    if xterm_entry(16) != [0, 0, 0] || xterm_entry(231) != [255, 255, 255] || xterm_entry(232) != [8, 8, 8] || xterm_entry(255) != [238, 238, 238] || xterm_entry(110) != [135, 175, 215] {
        return Err("xterm palette table is wrong".into());
    }
    // measured: one full (role, EightBit+Gray+TrueColor) sweep costs about 50 core-seconds (3.5 s on 16
    // idle cores), nearly all of it the 240-entry brute force. quick: the foreground role over all 2^24
    // colours, the other two roles of the statement over the 65^3 lattice; thorough: all 2^24 colours
    // at all five call sites.
    let roles: Vec<Role> = ctx.tier.pick(vec![Role::Fg, Role::Bg, Role::Ul], ALL_ROLES.to_vec());
    let full_values = channel_values(true);
    let lattice_values = channel_values(false);
    let depths = [ColorDepth::EightBit, ColorDepth::Gray, ColorDepth::TrueColor];
    let viol = Violations::new();
    let samples = Samples::new(ctx.seed);
    let mut evals = 0u64;
    let mut nontrivial = 0u64;
    let mut dist_evals = 0u64;
    let mut sub = serde_json::Map::new();
    let mut capped = false;
    let mut skipped = vec![];
    // a few fixed cases for the evidence file (the hashed samples below are spread over everything)
    for c in [[0x80u8, 0x80, 0x80], [0xff, 0x88, 0x00], [0x12, 0x34, 0x56], [0x5f, 0x5f, 0x5f]] {
        let mut enc = new_encoder(ColorDepth::EightBit);
        let mut out = Vec::new();
        if let Ok(p) = eval_once(&pal, &mut enc, &mut out, Role::Fg, ColorDepth::EightBit, c, false) {
            let e = xterm_entry(p.outcome as usize);
            samples.force(json!({"role": "fg", "depth": "EightBit", "color": hex_color(c), "emitted": crate::engine::util::esc(&out),
                                 "selected_entry": hex_color(e), "excess_over_brute_force": p.excess}));
        }
    }
    for role in &roles {
        for depth in depths {
            if *role == Role::Ul && depth == ColorDepth::Gray {
                // there is no SGR form for an underline colour out of the 16-colour set; the library
                // emits nothing, and the statement has nothing to compare
                skipped.push("underline x Gray (no SGR form exists; nothing to compare)");
                continue;
            }
            if ctx.over_cap() {
                capped = true;
                continue;
            }
            let t0 = std::time::Instant::now();
            let full = ctx.tier == Tier::Thorough || *role == Role::Fg;
            let values = if full { &full_values } else { &lattice_values };
            let acc = sweep(&pal, &samples, *role, depth, values);
            evals += acc.evals;
            nontrivial += acc.nontrivial;
            dist_evals += acc.dist_evals;
            for (kind, (count, excess, c, _)) in &acc.fails {
                // details are not built during the sweep: re-evaluate the worst case verbosely
                let detail = match eval_once(&pal, &mut new_encoder(depth), &mut Vec::new(), *role, depth, *c, true) {
                    Err(f) => f.detail,
                    Ok(_) => "(not reproduced on re-evaluation: nondeterministic encoder?)".to_string(),
                };
                viol.add(
                    format!("{}:{}:{}", role.name(), depth_name(depth), kind),
                    format!("{} of {} colours fail; worst: {} [worst excess {:.6}]", count, acc.evals, detail, excess),
                    witness(*role, depth, *c),
                );
            }
            if depth == ColorDepth::Gray {
                for (gap, ci, cj, detail) in monotone_failures(&acc) {
                    let mut w = witness(*role, depth, ci);
                    w["color2"] = json!(hex_color(cj));
                    viol.add(
                        format!("{}:{}:not-monotone", role.name(), depth_name(depth)),
                        format!("grey level is not monotone in luma: {detail} [gap {gap:.6}]"),
                        w,
                    );
                }
            }
            let distinct = acc.outcomes.iter().filter(|n| **n > 0).count();
            sub.insert(
                format!("{}:{}", role.name(), depth_name(depth)),
                json!({
                    "colours": acc.evals,
                    "complete_2_pow_24": full,
                    "nontrivial": acc.nontrivial,
                    "distinct_outcomes": distinct,
                    "failing": acc.fails.values().map(|v| v.0).sum::<u64>(),
                    "max_excess_within_tolerance": acc.max_ok_excess,
                    "wall_s": (t0.elapsed().as_secs_f64() * 100.0).round() / 100.0,
                }),
            );
        }
    }
    // one encoder used for two emissions in a row
    let mut history_evals = 0u64;
    for depth in depths {
        let (n, fails) = sweep_history(&pal, depth);
        history_evals += n;
        for (key, count, w, detail) in fails {
            viol.add(key, format!("{count} two-emission histories fail; first: {detail}"), w);
        }
    }
    evals += history_evals;
    // the depth a terminal object really encodes with (child process: real terminal objects on ptys)
    let terminal = terminal_in_child()?;
    let mut terminal_evals = 0u64;
    if let Some(envs) = terminal["envs"].as_array() {
        for e in envs {
            terminal_evals += e["evaluations"].as_u64().unwrap_or(0);
            let mut by_key: BTreeMap<String, (u64, String, Value)> = BTreeMap::new();
            for f in e["failures"].as_array().cloned().unwrap_or_default() {
                let k = f[0].as_str().unwrap_or("terminal").to_string();
                let entry = by_key.entry(k).or_insert((0, f[1].as_str().unwrap_or("").to_string(), f[2].clone()));
                entry.0 += 1;
            }
            for (k, (count, detail, w)) in by_key {
                viol.add(k, format!("{count} face commands fail; first: {detail}"), w);
            }
        }
    }
    evals += terminal_evals;
    let mut r = Report::new("exploration");
    r.set("two_emission_histories", history_evals);
    r.set("terminal_objects", json!({
        "what": "terminal objects opened on ptys under every listed environment (TERM, COLORTERM, emulator answering the face query or not); 125 colours x 5 roles through execute(), each emitted sequence judged by the oracle of the depth the object reports",
        "evaluations": terminal_evals,
        "environments": terminal["envs"].as_array().map(|v| v.iter().map(|e| json!({"term": e["term"], "colorterm": e["colorterm"], "truecolor_reply": e["truecolor_reply"], "reported_depth": e["reported_depth"], "evaluations": e["evaluations"]})).collect::<Vec<_>>()),
    }));
    r.set("evaluations", evals)
        .set("distinct_nontrivial", nontrivial)
        .set(
            "rule",
            "cases = (role, colour depth, 24-bit opaque colour), all distinct by construction; for each (role, depth) \
             listed under sub_spaces either every one of the 2^24 colours (complete_2_pow_24) or every colour of the \
             lattice with channels in {0,3,7,..,255} (65^3); non-trivial = the colour is not itself an available \
             palette entry / grey level, so a real reduction happens (TrueColor cases are all trivial)",
        )
        .set("samples", samples.into_vec())
        .set("exhaustive", !capped)
        .set("capped", capped)
        .set("sub_spaces", Value::Object(sub))
        .set("roles", roles.iter().map(|r| r.name()).collect::<Vec<_>>())
        .set("not_applicable", skipped)
        .set("palette_entries", pal.lin.len())
        .set("brute_force_distance_evaluations", dist_evals)
        .set("tolerance", TOL)
        .set("raw_violations", viol.raw_count());
    r.assume("the xterm 256-colour palette: cube levels 0,95,135,175,215,255 at 16+36r+6g+b, greys 8+10k at 232+k");
    r.assume("the metric is the library's own LinColor::distance on LinColor::from(RGBA) (rasterize crate), as the statement says; these two functions are trusted, not checked");
    r.assume("grey-only terminals show SGR 30 < 90 < 37 < 97 (background +10) as the four levels 0, .33, .66, 1; luma = Rec.709 weights on sRGB components");
    r.assume("ties (two entries within 1e-5 in distance, or two levels within 1e-6 in luma) may go either way");
    if ctx.tier == Tier::Quick {
        r.set("tier_note", "quick: Face{fg} over all 2^24 colours; Face{bg} and FaceModify{underline_color} over the 65^3 lattice. thorough: all 2^24 colours for those three and for the FaceModify{fg}, FaceModify{bg} call sites");
    }
    r.violations = viol.into_vec();
    Ok(r)
}

pub fn replay(w: &Value) -> Result<(bool, String), String> {
    if w["sub"].as_str() == Some("terminal") {
        let v = terminal_in_child()?;
        let env = w["env"].as_u64().ok_or("env")?;
        let e = v["envs"].as_array().and_then(|a| a.iter().find(|e| e["env"].as_u64() == Some(env))).cloned().ok_or("environment not run")?;
        let fails = e["failures"].as_array().cloned().unwrap_or_default();
        let mut detail = format!("TERM={} COLORTERM={} reported depth {}: {} of {} face commands fail\n", e["term"], e["colorterm"], e["reported_depth"], fails.len(), e["evaluations"]);
        for f in fails.iter().take(5) {
            detail += &format!("  [{}] {}\n", f[0].as_str().unwrap_or(""), f[1].as_str().unwrap_or(""));
        }
        return Ok((!fails.is_empty(), detail));
    }
    let role = w["role"].as_str().and_then(Role::from_name).ok_or("bad role")?;
    let depth = w["depth"].as_str().and_then(depth_from_name).ok_or("bad depth")?;
    let c = w["color"].as_str().and_then(parse_hex).ok_or("bad color")?;
    let pal = Palette::new();
    let mut enc = new_encoder(depth);
    let mut out = Vec::new();
    let mut before = String::new();
    if let Some(list) = w.get("before").and_then(|v| v.as_array()) {
        // emissions made on the same encoder before the judged one
        for item in list {
            let r0 = item[0].as_str().and_then(Role::from_name).ok_or("bad role in before")?;
            let c0 = item[1].as_str().and_then(parse_hex).ok_or("bad color in before")?;
            let a0 = item[2].as_u64().unwrap_or(255) as u8;
            let _ = catch(|| emit_rgba(&mut enc, &mut out, r0, [c0[0], c0[1], c0[2], a0]));
            before.push_str(&format!("after {} alpha {} as {} (emitted {}) on the same encoder: ", hex_color(c0), a0, r0.name(), crate::engine::util::esc(&out)));
        }
    }
    if let Some(bf) = w.get("before_failed") {
        let r0 = bf[0].as_str().and_then(Role::from_name).ok_or("bad role in before_failed")?;
        let c0 = bf[1].as_str().and_then(parse_hex).ok_or("bad color in before_failed")?;
        let _ = catch(|| {
            let mut small = [0u8; 2];
            let mut sink: &mut [u8] = &mut small;
            let rgba = RGBA::new(c0[0], c0[1], c0[2], 255);
            let cmd = match r0 {
                Role::Fg => TerminalCommand::Face(Face { fg: Some(rgba), ..Face::default() }),
                Role::Bg => TerminalCommand::Face(Face { bg: Some(rgba), ..Face::default() }),
                Role::Ul => TerminalCommand::FaceModify(FaceModify { underline_color: Some(rgba), ..FaceModify::default() }),
                Role::ModFg => TerminalCommand::FaceModify(FaceModify { fg: Some(rgba), ..FaceModify::default() }),
                Role::ModBg => TerminalCommand::FaceModify(FaceModify { bg: Some(rgba), ..FaceModify::default() }),
            };
            let _ = enc.encode(&mut sink, cmd);
        });
        before.push_str(&format!("after {} as {} written into a sink that failed after two bytes, on the same encoder: ", hex_color(c0), r0.name()));
    }
    let first = if let Some(fgv) = w.get("same_command_fg") {
        // foreground and background set by one command; the background is judged
        let fc = fgv[0].as_str().and_then(parse_hex).ok_or("bad same_command_fg")?;
        let fa = fgv[1].as_u64().unwrap_or(255) as u8;
        before.push_str(&format!("in one command with fg {} alpha {}: ", hex_color(fc), fa));
        match catch(|| emit_both(&mut enc, &mut out, matches!(role, Role::ModBg), [fc[0], fc[1], fc[2], fa], c)) {
            Err(p) => Err(Fail { kind: "panic", level: None, excess: 0.0, detail: format!("panicked: {}", p.message) }),
            Ok(Err(e)) => Err(Fail { kind: "encode-error", level: None, excess: 0.0, detail: e }),
            Ok(Ok(())) => judge(&pal, role, depth, c, &out, true),
        }
    } else {
        eval_once(&pal, &mut enc, &mut out, role, depth, c, true)
    };
    let bytes1 = format!("{before}{}", crate::engine::util::esc(&out));
    if let Some(c2) = w.get("color2").and_then(|v| v.as_str()).and_then(parse_hex) {
        // monotonicity witness: colour 1 is brighter (by luma) than colour 2 yet shown darker
        let mut enc = new_encoder(depth);
        let second = eval_once(&pal, &mut enc, &mut out, role, depth, c2, true);
        let bytes2 = crate::engine::util::esc(&out);
        let (l1, l2) = (luma(c), luma(c2));
        let level = |r: &Result<Pass, Fail>| match r {
            Ok(p) => Some(p.outcome),
            Err(f) => f.level,
        };
        return Ok(match (level(&first), level(&second)) {
            (Some(v1), Some(v2)) => {
                let bad = (l1 > l2 + LUMA_TOL && v1 < v2) || (l2 > l1 + LUMA_TOL && v2 < v1);
                (
                    bad,
                    format!(
                        "{} luma {:.6} -> {} (level {}); {} luma {:.6} -> {} (level {}); expected: level non-decreasing in luma; observed: {}",
                        hex_color(c), l1, bytes1, GRAY_LEVELS[v1 as usize & 3], hex_color(c2), l2, bytes2, GRAY_LEVELS[v2 as usize & 3],
                        if bad { "order inverted" } else { "monotone" }
                    ),
                )
            }
            _ => match (first, second) {
                (Err(f), _) | (_, Err(f)) => (true, format!("[{}] {}", f.kind, f.detail)),
                _ => (false, "no grey level could be read".to_string()),
            },
        });
    }
    Ok(match first {
        Ok(p) => (
            false,
            format!("{} as {} under {}: emitted {}, outcome {} satisfies the oracle (excess {:.7})", hex_color(c), role.name(), depth_name(depth), bytes1, p.outcome, p.excess),
        ),
        Err(f) => (true, format!("{} as {} under {}: emitted {}; [{}] {}", hex_color(c), role.name(), depth_name(depth), bytes1, f.kind, f.detail)),
    })
}
