//! C08 -- row/column range arguments resolve with Python slice semantics.
//!
//! Complete sweep: every selector form over all ten integer types; for the 8-bit types every
//! value and every pair of values; for wider types a boundary lattice (plus every 16-bit value
//! for the one-bound forms and a dense band around zero for all pairs); axis lengths
//! 0..=40 and powers-of-two edges. Oracle: Python's `slice.indices` in i128 (itself checked
//! against CPython at start-up).
use crate::engine::report::{Ctx, Report, Samples, Tier, Violations};
use crate::engine::catch;
use crate::model::slice::{resolve, Form};
use rayon::prelude::*;
use serde_json::{json, Value};
use std::sync::atomic::{AtomicU64, Ordering};
use surf_n_term::surface::ViewBounds;
use surf_n_term::{Color, Image, Position, Shape, Size, Surface, SurfaceMut, SurfaceOwned, RGBA};

const TYPES: [&str; 10] = ["i8", "u8", "i16", "u16", "i32", "u32", "i64", "u64", "isize", "usize"];

fn type_range(t: &str) -> (i128, i128) {
    match t {
        "i8" => (i8::MIN as i128, i8::MAX as i128),
        "u8" => (0, u8::MAX as i128),
        "i16" => (i16::MIN as i128, i16::MAX as i128),
        "u16" => (0, u16::MAX as i128),
        "i32" => (i32::MIN as i128, i32::MAX as i128),
        "u32" => (0, u32::MAX as i128),
        "i64" | "isize" => (i64::MIN as i128, i64::MAX as i128),
        "u64" | "usize" => (0, u64::MAX as i128),
        _ => unreachable!(),
    }
}

macro_rules! call_typed {
    ($t:ty, $form:expr, $a:expr, $b:expr, $n:expr) => {{
        let a = $a as $t;
        let b = $b as $t;
        match $form {
            Form::Index => a.view_bounds($n),
            Form::Range => (a..b).view_bounds($n),
            Form::From => (a..).view_bounds($n),
            Form::To => (..b).view_bounds($n),
            Form::Inclusive => (a..=b).view_bounds($n),
            Form::ToInclusive => (..=b).view_bounds($n),
            Form::Full => (..).view_bounds($n),
        }
    }};
}

/// Call the real library for the selector written in type `t`.
fn call(t: &str, form: Form, a: i128, b: i128, n: usize) -> Option<(usize, usize)> {
    match t {
        "i8" => call_typed!(i8, form, a, b, n),
        "u8" => call_typed!(u8, form, a, b, n),
        "i16" => call_typed!(i16, form, a, b, n),
        "u16" => call_typed!(u16, form, a, b, n),
        "i32" => call_typed!(i32, form, a, b, n),
        "u32" => call_typed!(u32, form, a, b, n),
        "i64" => call_typed!(i64, form, a, b, n),
        "u64" => call_typed!(u64, form, a, b, n),
        "isize" => call_typed!(isize, form, a, b, n),
        "usize" => call_typed!(usize, form, a, b, n),
        _ => unreachable!(),
    }
}

#[derive(Debug, Clone)]
struct Case {
    t: &'static str,
    form: Form,
    a: i128,
    b: i128,
    n: usize,
}

impl Case {
    fn json(&self) -> Value {
        json!({"type": self.t, "form": self.form.name(), "a": self.a.to_string(), "b": self.b.to_string(), "n": self.n})
    }
}

/// Evaluate one case; Some((kind, detail)) on violation.
fn eval(c: &Case) -> Option<(String, String)> {
    let expect = resolve(c.form, c.a, c.b, c.n as i128);
    match catch(|| call(c.t, c.form, c.a, c.b, c.n)) {
        Err(p) => Some((
            p.key(),
            format!("panicked: {} ({}:{}); python gives {:?}", p.message, p.file, p.line, expect),
        )),
        Ok(got) => {
            let got128 = got.map(|(s, e)| (s as i128, e as i128));
            if got128 == expect {
                if let Some((s, e)) = got {
                    if !(s < e && e <= c.n) {
                        return Some(("invariant".into(), format!("result {:?} violates 0<=s<e<=n", got)));
                    }
                }
                None
            } else {
                let kind = match (expect, got128) {
                    (None, Some(_)) => "selects-but-python-empty",
                    (Some(_), None) => "empty-but-python-selects",
                    _ => "wrong-bounds",
                };
                Some((kind.to_string(), format!("library {:?}, python {:?}", got, expect)))
            }
        }
    }
}

// ---------------------------------------------------------------------------------------
// the entry points that take a selector
// ---------------------------------------------------------------------------------------

/// (first selected index, extent) read off a surface whose cells hold their own (row, col) in the root surface;
/// None for an empty surface. `rows`: the selector was applied to the rows.
fn read_off<S: Surface<Item = (usize, usize)>>(s: &S, rows: bool, origin: usize) -> Option<(usize, usize)> {
    read_off2(s, rows, rows, origin)
}

/// `root_row`: the selected axis is the row axis of the ROOT surface (whose coordinates the cells hold);
/// `height`: the selected axis is the row axis of the surface `s` itself (they differ under a transpose)
fn read_off2<S: Surface<Item = (usize, usize)>>(s: &S, root_row: bool, height: bool, origin: usize) -> Option<(usize, usize)> {
    if s.height() == 0 || s.width() == 0 {
        return None;
    }
    let first = s.get(Position::new(0, 0))?;
    let idx = if root_row { first.0 } else { first.1 };
    Some((idx - origin, if height { s.height() } else { s.width() }))
}

fn grid(h: usize, w: usize) -> SurfaceOwned<(usize, usize)> {
    SurfaceOwned::new_with(Size::new(h, w), |p| (p.row, p.col))
}

/// Every public way to apply the selector `sel` to an axis of length `n`; each returns what it selected as
/// (first index, extent) of that axis, or None for an empty selection.
fn entry_points<R: ViewBounds + Clone>(sel: R, n: usize) -> Vec<(&'static str, Option<(usize, usize)>)> {
    let mut out: Vec<(&'static str, Option<(usize, usize)>)> = vec![];
    // Shape::view, rows and columns of a row-major shape
    {
        let sh = Shape::from(Size::new(n, 3)).view(sel.clone(), ..);
        out.push(("Shape::view(rows)", if sh.height == 0 || sh.width == 0 { None } else { Some((sh.start / 3, sh.height)) }));
        let sh = Shape::from(Size::new(3, n)).view(.., sel.clone());
        out.push(("Shape::view(cols)", if sh.height == 0 || sh.width == 0 { None } else { Some((sh.start % n.max(1), sh.width)) }));
    }
    // Surface::view on an owned surface and on its transpose (column-major parent)
    {
        let g = grid(n, 3);
        out.push(("Surface::view(rows)", read_off(&g.view(sel.clone(), ..), true, 0)));
        let g = grid(3, n);
        out.push(("Surface::view(cols)", read_off(&g.view(.., sel.clone()), false, 0)));
        // transposed: the rows of the transpose are the columns of the root
        let g = grid(3, n);
        let t = g.transpose();
        out.push(("transpose().view(rows)", read_off2(&t.view(sel.clone(), ..), false, true, 0)));
        let g = grid(n, 3);
        let t = g.transpose();
        out.push(("transpose().view(cols)", read_off2(&t.view(.., sel.clone()), true, false, 0)));
        let mut g = grid(n, 3);
        out.push(("view_mut(rows)", read_off(&g.view_mut(sel.clone(), ..), true, 0)));
    }
    // view_owned, and view_owned of an owned view that is itself a restriction (method calls on the concrete types)
    {
        out.push(("view_owned(rows)", read_off(&grid(n, 3).view_owned(sel.clone(), ..), true, 0)));
        out.push(("view_owned(1..n+1, ..).view_owned(rows)", read_off(&grid(n + 2, 3).view_owned(1..n + 1, ..).view_owned(sel.clone(), ..), true, 1)));
        out.push(("view_owned(.., 1..n+1).view_owned(cols)", read_off(&grid(3, n + 2).view_owned(.., 1..n + 1).view_owned(.., sel.clone()), false, 1)));
        out.push(("transpose().view_owned(rows)", read_off2(&grid(3, n).transpose().view_owned(sel.clone(), ..), false, true, 0)));
    }
    // Image::crop on a row-major and on a column-major image (pixel (r, c) holds r in red and c in green)
    {
        let px = |h: usize, w: usize| SurfaceOwned::new_with(Size::new(h, w), |p| RGBA::new(p.row as u8, p.col as u8, 0, 255));
        let rd2 = |img: &Image, root_row: bool, height: bool| -> Option<(usize, usize)> {
            if img.height() == 0 || img.width() == 0 {
                return None;
            }
            let [r, g, _, _] = img.get(Position::new(0, 0))?.to_rgba();
            Some((if root_row { r as usize } else { g as usize }, if height { img.height() } else { img.width() }))
        };
        let rd = |img: &Image, rows: bool| rd2(img, rows, rows);
        let img = Image::from(px(n, 3));
        out.push(("Image::crop(rows)", rd(&img.crop(sel.clone(), ..), true)));
        let img = Image::from(px(3, n));
        out.push(("Image::crop(cols)", rd(&img.crop(.., sel.clone()), false)));
        let img = Image::new(px(3, n).transpose());
        out.push(("column-major Image::crop(rows)", rd2(&img.crop(sel.clone(), ..), false, true)));
        let img = Image::new(px(n, 3).transpose());
        out.push(("column-major Image::crop(cols)", rd2(&img.crop(.., sel.clone()), true, false)));
    }
    out
}

macro_rules! with_form {
    ($form:expr, $a:expr, $b:expr, $x:ident, $body:expr) => {{
        let (a, b) = ($a as i32, $b as i32);
        match $form {
            Form::Index => { let $x = a; $body }
            Form::Range => { let $x = a..b; $body }
            Form::From => { let $x = a..; $body }
            Form::To => { let $x = ..b; $body }
            Form::Inclusive => { let $x = a..=b; $body }
            Form::ToInclusive => { let $x = ..=b; $body }
            Form::Full => { let $x = ..; $body }
        }
    }};
}

/// One selector through every entry point; Some((kind, detail)) on the first disagreement with the reference.
fn eval_entry_points(form: Form, a: i128, b: i128, n: usize) -> Option<(String, String)> {
    let expect = resolve(form, a, b, n as i128).map(|(s, e)| (s as usize, (e - s) as usize));
    let got = match catch(|| with_form!(form, a, b, sel, entry_points(sel, n))) {
        Err(p) => return Some((format!("entry-point:{}", p.key()), format!("panicked: {} ({}:{})", p.message, p.file, p.line))),
        Ok(g) => g,
    };
    for (name, g) in got {
        if g != expect {
            return Some((
                format!("entry-point:{name}"),
                format!("{name} on an axis of {n} selects (first index, extent) {:?}, python gives {:?}", g, expect),
            ));
        }
    }
    None
}

fn lengths() -> Vec<usize> {
    let mut v: Vec<usize> = (0..=40).collect();
    v.extend([
        63, 64, 65, 127, 128, 129, 255, 256, 257, 32767, 32768, 65535, 65536,
        (1usize << 31) - 1, 1usize << 31, 1usize << 32, (1usize << 32) + 1,
        // axes longer than the signed pointer range (a surface of zero-sized items can be that long)
        isize::MAX as usize - 1, isize::MAX as usize, isize::MAX as usize + 1, usize::MAX - 1, usize::MAX,
    ]);
    v
}

fn lattice(t: &str, n: usize) -> Vec<i128> {
    let (lo, hi) = type_range(t);
    let n = n as i128;
    let mut v = vec![lo, lo + 1, -n - 1, -n, -n + 1, -2, -1, 0, 1, 2, n - 1, n, n + 1, hi - 1, hi];
    v.retain(|x| *x >= lo && *x <= hi);
    v.sort();
    v.dedup();
    v
}

fn validate_reference_against_cpython() -> Result<u64, String> {
    // n <= 12, bounds -14..=14, all range-like forms (python has no inclusive ranges: those are
    // derived by the b+1 / -1 rule which is part of the statement)
    let script = r#"
import sys
out=[]
for n in range(0,13):
    for a in range(-14,15):
        r=range(*slice(a,None).indices(n)); out.append("F %d %d %d %d"%(n,a,r.start if len(r) else -1,r.stop if len(r) else -1))
        r=range(*slice(None,a).indices(n)); out.append("T %d %d %d %d"%(n,a,r.start if len(r) else -1,r.stop if len(r) else -1))
        l=list(range(n))
        try:
            l[a]; i=a if a>=0 else a+n; out.append("I %d %d %d %d"%(n,a,i,i+1))
        except IndexError:
            out.append("I %d %d -1 -1"%(n,a))
        for b in range(-14,15):
            r=range(*slice(a,b).indices(n)); out.append("R %d %d %d %d %d"%(n,a,b,r.start if len(r) else -1,r.stop if len(r) else -1))
sys.stdout.write("\n".join(out))
"#;
    let out = std::process::Command::new("python3")
        .arg("-c")
        .arg(script)
        .output()
        .map_err(|e| format!("python3 not runnable: {e}"))?;
    if !out.status.success() {
        return Err(format!("python3 failed: {}", String::from_utf8_lossy(&out.stderr)));
    }
    let text = String::from_utf8_lossy(&out.stdout);
    let mut checked = 0u64;
    for line in text.lines() {
        let f: Vec<&str> = line.split(' ').collect();
        let p = |i: usize| f[i].parse::<i128>().unwrap();
        let (form, n, a, b, s, e) = match f[0] {
            "F" => (Form::From, p(1), p(2), 0, p(3), p(4)),
            "T" => (Form::To, p(1), 0, p(2), p(3), p(4)),
            "I" => (Form::Index, p(1), p(2), 0, p(3), p(4)),
            "R" => (Form::Range, p(1), p(2), p(3), p(4), p(5)),
            _ => continue,
        };
        let expect = if s < 0 { None } else { Some((s, e)) };
        let got = resolve(form, a, b, n);
        if got != expect {
            return Err(format!(
                "reference slice model disagrees with CPython on {line}: model {:?}",
                got
            ));
        }
        checked += 1;
    }
    Ok(checked)
}

pub fn run(ctx: &Ctx) -> Result<Report, String> {
    let py_checked = match validate_reference_against_cpython() {
        Ok(n) => n,
        Err(e) if e.contains("not runnable") => 0,
        Err(e) => return Err(e),
    };
    let viol = Violations::new();
    let samples = Samples::new(ctx.seed);
    let evals = AtomicU64::new(0);
    let nontrivial = AtomicU64::new(0);
    let lens = lengths();
    let dense: i128 = ctx.tier.pick(130, 320);

    // work items: (type, n)
    let items: Vec<(&'static str, usize)> = TYPES
        .iter()
        .flat_map(|t| lens.iter().map(move |n| (*t, *n)))
        .collect();
    items.par_iter().for_each(|(t, n)| {
        let (lo, hi) = type_range(t);
        let n = *n;
        let mut local_evals = 0u64;
        let mut local_nt = 0u64;
        let mut run_case = |form: Form, a: i128, b: i128| {
            let c = Case { t, form, a, b, n };
            local_evals += 1;
            let nn = n as i128;
            if (form.uses_a() && (a < 0 || a > nn)) || (form.uses_b() && (b < 0 || b > nn)) {
                local_nt += 1;
            }
            samples.offer(
                crate::engine::util::hash64(&(c.t, c.form, c.a as i64, c.b as i64, c.n)),
                || c.json(),
            );
            if let Some((kind, detail)) = eval(&c) {
                viol.add(
                    format!("{}:{}:{}", c.form.name(), c.t, kind),
                    format!("{} on axis {} with a={} b={} as {}: {}", c.form.name(), n, a, b, c.t, detail),
                    c.json(),
                );
            }
        };
        // value sets
        let eight = *t == "i8" || *t == "u8";
        let sixteen = *t == "i16" || *t == "u16";
        let singles: Vec<i128> = if eight || sixteen {
            (lo..=hi).collect()
        } else {
            let mut v = lattice(t, n);
            v.extend((-dense..=dense).filter(|x| *x >= lo && *x <= hi));
            v.sort();
            v.dedup();
            v
        };
        let pair_vals: Vec<i128> = if eight {
            (lo..=hi).collect()
        } else {
            let mut v = lattice(t, n);
            v.extend((-dense..=dense).filter(|x| *x >= lo && *x <= hi));
            v.sort();
            v.dedup();
            v
        };
        run_case(Form::Full, 0, 0);
        for a in &singles {
            run_case(Form::Index, *a, 0);
            run_case(Form::From, *a, 0);
            run_case(Form::To, 0, *a);
            run_case(Form::ToInclusive, 0, *a);
        }
        for a in &pair_vals {
            for b in &pair_vals {
                run_case(Form::Range, *a, *b);
                run_case(Form::Inclusive, *a, *b);
            }
        }
        evals.fetch_add(local_evals, Ordering::Relaxed);
        nontrivial.fetch_add(local_nt, Ordering::Relaxed);
    });

    // every public entry point that takes a selector, on axes of 0..=6: i32 selectors with bounds in -9..=9
    let entry_evals = AtomicU64::new(0);
    (0..=6usize).into_par_iter().for_each(|n| {
        for form in Form::ALL {
            for a in -9i128..=9 {
                for b in -9i128..=9 {
                    if (!form.uses_a() && a != 0) || (!form.uses_b() && b != 0) {
                        continue;
                    }
                    entry_evals.fetch_add(1, Ordering::Relaxed);
                    if let Some((kind, detail)) = eval_entry_points(form, a, b, n) {
                        let c = Case { t: "i32", form, a, b, n };
                        let mut w = c.json();
                        w["entry_points"] = json!(true);
                        viol.add(format!("{}:{}", form.name(), kind), format!("{}: {}", c.json(), detail), w);
                    }
                }
            }
        }
    });
    evals.fetch_add(entry_evals.load(Ordering::Relaxed) * 17, Ordering::Relaxed);
    let mut r = Report::new("exploration");
    r.set("entry_point_selectors", json!({"selectors": entry_evals.load(Ordering::Relaxed), "entry_points_each": 17, "what": "Shape::view, Surface::view / view_mut / view_owned (also chained on a restricted owned view and on transposed surfaces), Image::crop on row-major and column-major images"}));
    r.set("evaluations", evals.load(Ordering::Relaxed))
        .set("distinct_nontrivial", nontrivial.load(Ordering::Relaxed))
        .set(
            "rule",
            "cases = (integer type, selector form, bounds, axis length), all distinct by construction; \
             i8/u8: every value and every pair; i16/u16: every value for one-bound forms; all types: \
             boundary lattice {MIN,MIN+1,-n-1,-n,-n+1,-2,-1,0,1,2,n-1,n,n+1,MAX-1,MAX} plus every value in \
             [-dense,dense], all pairs; non-trivial = some bound is negative or beyond the axis length \
             (needs wrap or clamp)",
        )
        .set("samples", samples.into_vec())
        .set("exhaustive", true)
        .set("axis_lengths", lens.len())
        .set("dense_band", dense as i64)
        .set("traces_validated_against_impl", py_checked)
        .set(
            "reference_validation",
            format!("{py_checked} (form,n,a,b) results of the reference model compared with CPython slice.indices / list indexing"),
        )
        .set("raw_violations", viol.raw_count());
    r.assume("Python slice semantics as implemented by CPython's slice.indices (cross-checked at start-up)");
    r.assume("an inclusive end b denotes python stop b+1, except b=-1 which denotes the end of the axis");
    r.assume("wider integer types are covered on a boundary lattice, not every value");
    if ctx.tier == Tier::Thorough {
        r.set("tier_note", "thorough widens the dense band to [-320,320]");
    }
    r.violations = viol.into_vec();
    Ok(r)
}

pub fn replay(w: &Value) -> Result<(bool, String), String> {
    let t = TYPES
        .iter()
        .find(|t| Some(**t) == w["type"].as_str())
        .ok_or("bad type")?;
    let form = Form::ALL
        .iter()
        .find(|f| Some(f.name()) == w["form"].as_str())
        .ok_or("bad form")?;
    let a: i128 = w["a"].as_str().ok_or("a")?.parse().map_err(|_| "a")?;
    let b: i128 = w["b"].as_str().ok_or("b")?.parse().map_err(|_| "b")?;
    let n = w["n"].as_u64().ok_or("n")? as usize;
    let c = Case { t, form: *form, a, b, n };
    let expect = resolve(c.form, a, b, n as i128);
    if w["entry_points"].as_bool() == Some(true) {
        return Ok(match eval_entry_points(*form, a, b, n) {
            Some((kind, detail)) => (true, format!("case {} expected(python)={:?}: {} [{}]", c.json(), expect, detail, kind)),
            None => (false, format!("case {} expected(python)={:?}: every entry point agrees", c.json(), expect)),
        });
    }
    Ok(match eval(&c) {
        Some((kind, detail)) => (true, format!("case {} expected(python)={:?}: {} [{}]", c.json(), expect, detail, kind)),
        None => (false, format!("case {} expected(python)={:?}: library agrees", c.json(), expect)),
    })
}
