//! C16 -- terminal output is delivered in order, exactly once, and frames are never torn.
//!
//! (a) explicit-state BFS on the real `IOQueue` against a byte model (prop/ioqueue.rs);
//! (b) deviation-bounded exploration of the real `UnixTerminal` on a pseudo-terminal whose
//!     kernel answers are owned by the harness (prop/term_common.rs): short writes, EAGAIN,
//!     EINTR, withheld writability, at every system call of every session, up to the bound.
use super::term_common::{self as tc, Focus};
use crate::engine::report::{Ctx, Report, Samples, Tier, Violation, Violations};
use crate::engine::workers::{self, WorkerCtx};
use serde_json::{json, Value};
use std::time::{Duration, Instant};

pub fn units(focus: Focus) -> Vec<(usize, usize)> {
    let sessions = match focus {
        Focus::C16 => tc::sessions_c16(),
        Focus::C17 => tc::sessions_c17(),
    };
    let mut u = vec![];
    for (i, s) in sessions.iter().enumerate() {
        // every crash point (the terminal is dropped after the first k actions) and the full session
        for k in 0..=s.acts.len() {
            // Arrive/Schedule alone change nothing observable for a crash point
            if k > 0 && k < s.acts.len() && matches!(s.acts[k - 1], tc::Act::Schedule(_)) {
                continue;
            }
            u.push((i, k));
        }
    }
    u
}

pub fn worker_for(focus: Focus, ctx: &Ctx, mut wc: WorkerCtx) {
    tc::prepare_process();
    let sessions = match focus {
        Focus::C16 => tc::sessions_c16(),
        Focus::C17 => tc::sessions_c17(),
    };
    let all = units(focus);
    for (ui, (si, upto)) in all.iter().enumerate() {
        if ui % wc.shards != wc.shard {
            continue;
        }
        if (ui as u64) < wc.resume {
            continue;
        }
        let s = &sessions[*si];
        let desc = format!("{}:{}", s.name, upto);
        wc.begin_case(ui as u64, desc.as_bytes());
        let mut found = vec![];
        let unit_started = Instant::now();
        let (b_all, b_short, short_points) = match ctx.tier {
            Tier::Quick => (2usize, 3usize, 22usize),
            Tier::Thorough => (3, 4, 20),
        };
        let first = match tc::explore_session(focus, s, *upto, b_all, 400_000, &mut found, &mut || wc.begin_case(ui as u64, desc.as_bytes())) {
            Ok(st) => st,
            Err(e) => {
                wc.note("machinery_error", json!(e));
                continue;
            }
        };
        let mut st = first.clone();
        let mut bound = b_all;
        // quick tier: sessions that push more than 64 KiB through the kernel model cost ~10 ms per execution;
        // they stay at the general bound (the thorough tier raises it for them too)
        let payload: usize = s.acts.iter().map(|a| if let tc::Act::Write(n) = a { *n } else { 0 }).sum();
        let heavy = ctx.tier == Tier::Quick && payload > 64 * 1024;
        if first.max_points <= short_points && found.is_empty() && !heavy {
            match tc::explore_session(focus, s, *upto, b_short, 400_000, &mut found, &mut || wc.begin_case(ui as u64, desc.as_bytes())) {
                Ok(s2) => {
                    st = s2;
                    bound = b_short;
                }
                Err(e) => {
                    wc.note("machinery_error", json!(e));
                    continue;
                }
            }
        }
        wc.count("executions", st.executions);
        wc.count("units", 1);
        wc.count("distinct_outcomes", st.distinct_outcomes as u64);
        for (d, n) in st.by_deviations.iter().enumerate() {
            wc.count(&format!("executions_with_{d}_deviations"), *n);
        }
        if st.capped {
            wc.count("capped_units", 1);
        }
        wc.note(
            "unit",
            json!({"session": s.name, "upto": upto, "bound": bound, "executions": st.executions, "choice_points": st.max_points, "distinct_outcomes": st.distinct_outcomes,
                   "wall_s": (unit_started.elapsed().as_secs_f64() * 100.0).round() / 100.0}),
        );
        // logging switched on (the terminal logs through `tracing`; what a log line computes is computed only when a
        // subscriber listens): the same unit once more with at most one deviation (none for the heavy sessions)
        // under a subscriber that formats every log line; nothing may be found that the silent runs did not find
        if found.is_empty() && *upto == s.acts.len() {
            // a panic inside the terminal while it is being released aborts the process: the published case says that
            // logging was on, so that the death is attributed and confirmed with logging on
            let desc_logged = format!("{}:{}:logging", s.name, upto);
            wc.begin_case(ui as u64, desc_logged.as_bytes());
            let mut found_logged = vec![];
            let r = crate::engine::catch(|| {
                crate::engine::logging::with_logging(|| {
                    tc::explore_session(focus, s, *upto, if payload > 64 * 1024 { 0 } else { 1 }, 400_000, &mut found_logged, &mut || {})
                })
            });
            match r {
                Ok(Ok(stl)) => wc.count("executions_with_logging_on", stl.executions),
                Ok(Err(_)) => {}
                Err(p) => found.push(tc::Found {
                    key: format!("logging:{}", p.key()),
                    what: format!("session {} with a tracing subscriber listening: the terminal panicked: {} ({}:{})", s.name, p.message, p.file, p.line),
                    witness: json!({"kind": "session-unit", "session": s.name, "upto": upto, "logging": true}),
                }),
            }
            for f in found_logged {
                let mut w = f.witness.clone();
                w["logging"] = json!(true);
                found.push(tc::Found { key: format!("logging:{}", f.key), what: format!("with a tracing subscriber listening: {}", f.what), witness: w });
            }
        }
        for f in found {
            wc.violation(&Violation { key: f.key, what: f.what, witness: f.witness });
        }
        wc.checkpoint();
    }
    wc.finish();
}

pub fn worker(ctx: &Ctx, wc: WorkerCtx, _extra: &[String]) {
    worker_for(Focus::C16, ctx, wc)
}

fn describe_crash(desc: &[u8], how: &str) -> (String, String, Value) {
    let d = String::from_utf8_lossy(desc).to_string();
    let mut it = d.split(':');
    let name = it.next().unwrap_or("").to_string();
    let upto: usize = it.next().and_then(|x| x.parse().ok()).unwrap_or(0);
    let logging = it.next() == Some("logging");
    (
        format!("{}process-died:{name}", if logging { "logging:" } else { "" }),
        format!("exploring session {name} (crash point {upto}){} killed or stalled the worker ({how})", if logging { " with a tracing subscriber listening" } else { "" }),
        json!({"kind": "session-unit", "session": name, "upto": upto, "logging": logging}),
    )
}

pub fn run_terminal(ctx: &Ctx, focus: Focus, prop: &'static str) -> Result<workers::Merged, String> {
    let n_units = units(focus).len();
    let spec = workers::Spec {
        prop,
        tier: ctx.tier,
        seed: ctx.seed,
        shards: n_units.min(ctx.threads * 3).max(1),
        parallel: ctx.threads,
        extra_args: vec![],
        stall_timeout: Duration::from_secs(120),
        max_restarts_per_shard: 3,
        deadline: Instant::now() + Duration::from_secs_f64(ctx.wall_cap_s),
    };
    let merged = workers::run_shards(&spec, &describe_crash)?;
    if let Some(errs) = merged.notes.get("machinery_error") {
        return Err(format!("terminal exploration: {}", errs[0]));
    }
    Ok(merged)
}

pub fn run(ctx: &Ctx) -> Result<Report, String> {
    let viol = Violations::new();
    let samples = Samples::new(ctx.seed);
    let (depth, cap) = ctx.tier.pick((8, 10), (12, 14));
    let q = super::ioqueue::explore(ctx, depth, cap, &viol, &samples);
    // second pass over one-byte and >= 64 KiB operations (buffer re-allocation thresholds)
    let (big_depth, big_cap) = ctx.tier.pick((7, 210_000), (9, 280_000));
    let qb = super::ioqueue::explore_big(ctx, big_depth, big_cap, &viol, &samples);
    // third pass: a 3.3 MB chunk with consumes of more than 1 MiB and more than 2 MiB
    let huge_depth = ctx.tier.pick(4, 5);
    let qh = super::ioqueue::explore_huge(ctx, huge_depth, 7_000_000, &viol, &samples);
    let merged = run_terminal(ctx, Focus::C16, "C16")?;
    // hooks-inert conformance pass on the real kernel (in a child process: it changes TERM and
    // plays with signals); samples the kernel's schedules, decides nothing
    let conf = conformance_in_child();
    let c = |k: &str| merged.counters.get(k).copied().unwrap_or(0);
    let mut r = Report::new("model_checking");
    let mut s = samples.into_vec();
    if let Some(u) = merged.notes.get("unit") {
        s.extend(u.iter().take(3).cloned());
    }
    r.set("states", q.states + qb.states + qh.states)
        .set("transitions", q.transitions + qb.transitions + qh.transitions)
        .set("traces_validated_against_impl", q.transitions + qb.transitions + qh.transitions + c("executions"))
        .set("ioqueue_huge_operations", json!({"states": qh.states, "transitions": qh.transitions, "levels": qh.levels, "depth_bound": huge_depth,
            "alphabet": super::ioqueue::huge_ops().iter().map(super::ioqueue::op_json).collect::<Vec<_>>(), "capped": qh.capped}))
        .set("ioqueue_big_operations", json!({"states": qb.states, "transitions": qb.transitions, "levels": qb.levels, "depth_bound": big_depth, "payload_cap": big_cap,
            "alphabet": super::ioqueue::big_ops().iter().map(super::ioqueue::op_json).collect::<Vec<_>>(), "big_sizes": super::ioqueue::BIG, "fixpoint": qb.fixpoint, "capped": qb.capped}))
        .set("ioqueue", json!({"states": q.states, "transitions": q.transitions, "levels": q.levels, "depth_bound": depth, "payload_cap": cap, "fixpoint": q.fixpoint, "capped": q.capped}))
        .set("terminal_schedules_explored", c("executions"))
        .set("terminal_counters", json!(merged.counters))
        .set("terminal_units", json!(merged.notes.get("unit").cloned().unwrap_or_default()))
        .set("conformance_real_pty", conf.clone())
        .set("exhaustive", !q.capped && !qb.capped && !qh.capped && !merged.capped && c("capped_units") == 0)
        .set("capped", q.capped || qb.capped || qh.capped || merged.capped || c("capped_units") > 0)
        .set("samples", s);
    r.assume("kernel model of the H2 seam: write accepts a prefix or fails with EAGAIN/EINTR, select may omit tty writability or fail with EINTR but never invents readiness, a waker write is atomic");
    r.assume("the peer answers the DA1 query as soon as it has received it; TERM=dumb (no capability probing)");
    r.assume("encoding of commands is taken from the library's encoder (C05 judges it); here only transport is judged");
    viol.extend(merged.violations);
    // the conformance pass samples the real kernel and decides nothing: disagreements are shown
    // in the evidence and on stderr, they are not verdicts
    if let Some(ps) = conf["problems"].as_array() {
        for p in ps {
            eprintln!("NOTE (conformance, not a verdict): {}", p);
        }
    }
    r.violations = viol.into_vec();
    Ok(r)
}

/// run the conformance pass in a child process and return its JSON summary
fn conformance_in_child() -> Value {
    let exe = match std::env::current_exe() {
        Ok(e) => e,
        Err(e) => return json!({"skipped": format!("{e}")}),
    };
    match std::process::Command::new(exe).arg("C16").arg("--conformance").output() {
        Ok(out) => {
            let text = String::from_utf8_lossy(&out.stdout);
            for line in text.lines() {
                if let Some(rest) = line.strip_prefix("CONFORMANCE ") {
                    if let Ok(v) = serde_json::from_str::<Value>(rest) {
                        return v;
                    }
                }
            }
            json!({"skipped": format!("child produced no summary (status {})", out.status)})
        }
        Err(e) => json!({"skipped": format!("{e}")}),
    }
}

pub fn conformance_main() {
    match tc::conformance_pass() {
        Ok((runs, problems)) => {
            let ps: Vec<Value> = problems.iter().map(|(k, w)| json!([k, w])).collect();
            println!("CONFORMANCE {}", json!({"runs": runs, "problems": ps}));
        }
        Err(e) => println!("CONFORMANCE {}", json!({"skipped": e})),
    }
}

pub fn replay(w: &Value) -> Result<(bool, String), String> {
    match w["kind"].as_str() {
        Some("ioqueue") => super::ioqueue::replay(w),
        Some("session") => tc::replay_session(w),
        Some("conformance") => {
            let (runs, problems) = tc::conformance_pass()?;
            Ok((!problems.is_empty(), format!("{runs} real-pty runs: {:?}", problems)))
        }
        Some("session-unit") => {
            // re-explore the unit (used to confirm a worker death)
            tc::prepare_process();
            let name = w["session"].as_str().ok_or("session")?;
            let upto = w["upto"].as_u64().ok_or("upto")? as usize;
            let all: Vec<tc::Session> = tc::sessions_c16().into_iter().chain(tc::sessions_c17()).collect();
            let s = all.iter().find(|s| s.name == name).ok_or("unknown session")?;
            let mut found = vec![];
            if w["logging"] == json!(true) {
                // with a subscriber that formats every log line; a panic is the finding
                let r = crate::engine::catch(|| crate::engine::logging::with_logging(|| tc::explore_session(Focus::C16, s, upto, 1, 100_000, &mut found, &mut || {})));
                return Ok(match r {
                    Err(p) => (true, format!("session {name} with a tracing subscriber listening: the terminal panicked: {} ({}:{})", p.message, p.file, p.line)),
                    Ok(Err(e)) => return Err(e),
                    Ok(Ok(st)) => (!found.is_empty(), format!("unit re-explored with logging on: {} executions, {} findings", st.executions, found.len())),
                });
            }
            let st = tc::explore_session(Focus::C16, s, upto, 1, 100_000, &mut found, &mut || {})?;
            Ok((false, format!("unit re-explored: {} executions, {} findings", st.executions, found.len())))
        }
        _ => Err("unknown witness kind".into()),
    }
}
