//! Shared driver for the decoder properties C02 (totality) and C03 (read-boundary independence,
//! leftmost-longest tokenisation): runs the real decoders over a byte string under a set of
//! partitions into reads and compares with a reference tokenisation computed only from the
//! per-prefix acceptance of the production automata (hook H1(b)).
use crate::engine::catch;
use crate::engine::panics::PanicInfo;
use std::io::Cursor;
use std::sync::OnceLock;
use surf_n_term::decoder::verif::{command_dfa, event_dfa, DfaView, Snapshot};
use surf_n_term::decoder::{Decoder, TTYCommandDecoder, TTYEventDecoder, Utf8Decoder};
use surf_n_term::{TerminalCommand, TerminalEvent};

#[derive(Debug, Clone, Copy, PartialEq, Eq, Hash)]
pub enum Which {
    Event,
    Command,
    Utf8,
}

impl Which {
    pub fn name(self) -> &'static str {
        match self {
            Which::Event => "event",
            Which::Command => "command",
            Which::Utf8 => "utf8",
        }
    }
    pub fn from_name(s: &str) -> Option<Self> {
        Some(match s {
            "event" => Which::Event,
            "command" => Which::Command,
            "utf8" => Which::Utf8,
            _ => return None,
        })
    }
}

/// Flat copy of a production DFA (read through the H1 view).
pub struct Table {
    pub size: usize,
    pub start: usize,
    pub next: Vec<u16>, // size*256, u16::MAX = dead
    pub accepting: Vec<bool>,
    pub terminal: Vec<bool>,
    pub tags: Vec<Vec<String>>,
    /// byte -> global class id (bytes with identical columns)
    pub class_of: [u16; 256],
    pub class_reps: Vec<u8>,
}

pub const DEAD: u16 = u16::MAX;

impl Table {
    fn build(view: &DfaView) -> Self {
        let size = view.size();
        assert!(size < DEAD as usize);
        let mut next = vec![DEAD; size * 256];
        let mut accepting = vec![false; size];
        let mut terminal = vec![false; size];
        let mut tags = vec![vec![]; size];
        for s in 0..size {
            for b in 0..256usize {
                if let Some(t) = view.transition(s, b as u8) {
                    next[s * 256 + b] = t as u16;
                }
            }
            let (a, t, g) = view.info(s);
            accepting[s] = a;
            terminal[s] = t;
            tags[s] = g;
        }
        // global byte classes
        let mut class_of = [0u16; 256];
        let mut cols: Vec<(Vec<u16>, u8)> = Vec::new();
        for b in 0..256usize {
            let col: Vec<u16> = (0..size).map(|s| next[s * 256 + b]).collect();
            match cols.iter().position(|(c, _)| *c == col) {
                Some(i) => class_of[b] = i as u16,
                None => {
                    class_of[b] = cols.len() as u16;
                    cols.push((col, b as u8));
                }
            }
        }
        Table {
            size,
            start: view.start(),
            next,
            accepting,
            terminal,
            tags,
            class_of,
            class_reps: cols.into_iter().map(|(_, b)| b).collect(),
        }
    }

    #[inline]
    pub fn step(&self, s: usize, b: u8) -> Option<usize> {
        let t = self.next[s * 256 + b as usize];
        if t == DEAD {
            None
        } else {
            Some(t as usize)
        }
    }
}

pub fn table(which: Which) -> &'static Table {
    static EV: OnceLock<Table> = OnceLock::new();
    static CMD: OnceLock<Table> = OnceLock::new();
    match which {
        Which::Event => EV.get_or_init(|| Table::build(&event_dfa())),
        Which::Command => CMD.get_or_init(|| Table::build(&command_dfa())),
        Which::Utf8 => panic!("no table for utf8"),
    }
}

/// Reference item: what the leftmost-longest tokenisation says about a span of the input.
#[derive(Debug, Clone, PartialEq, Eq, Hash)]
pub enum RefItem {
    /// `input[start..end]` is the longest accepted prefix starting at `start`
    Token { start: usize, end: usize },
    /// no prefix starting at `start` is accepted; bytes up to the first dead byte are garbage
    Garbage { start: usize, end: usize },
}

/// Leftmost-longest tokenisation "given the input available": returns the items that must have
/// been emitted after all of `w` was fed, and the start of the still-pending tail.
pub fn reference(t: &Table, w: &[u8]) -> (Vec<RefItem>, usize) {
    let mut items = Vec::new();
    let mut i = 0;
    let n = w.len();
    'outer: while i < n {
        let mut s = t.start;
        let mut cand: Option<usize> = None;
        let mut k = i;
        loop {
            if k == n {
                // input exhausted while the automaton is still alive: nothing more is emitted
                return (items, i);
            }
            match t.step(s, w[k]) {
                Some(ns) => {
                    s = ns;
                    k += 1;
                    if t.accepting[s] {
                        cand = Some(k);
                        if t.terminal[s] {
                            items.push(RefItem::Token { start: i, end: k });
                            i = k;
                            continue 'outer;
                        }
                    }
                }
                None => {
                    match cand {
                        Some(j) => {
                            items.push(RefItem::Token { start: i, end: j });
                            i = j;
                        }
                        None => {
                            // garbage: everything consumed so far; a lone dead byte is garbage itself
                            let end = if k > i { k } else { i + 1 };
                            items.push(RefItem::Garbage { start: i, end });
                            i = end;
                        }
                    }
                    continue 'outer;
                }
            }
        }
    }
    (items, n)
}

/// Number of bytes the tokenisation interprets a second time: bytes consumed beyond a candidate
/// before the longer match failed (the dead byte itself not counted).
pub fn reparsed_bytes(t: &Table, w: &[u8]) -> usize {
    let mut total = 0;
    let mut i = 0;
    let n = w.len();
    'outer: while i < n {
        let mut s = t.start;
        let mut cand: Option<usize> = None;
        let mut k = i;
        loop {
            if k == n {
                return total;
            }
            match t.step(s, w[k]) {
                Some(ns) => {
                    s = ns;
                    k += 1;
                    if t.accepting[s] {
                        cand = Some(k);
                        if t.terminal[s] {
                            i = k;
                            continue 'outer;
                        }
                    }
                }
                None => {
                    match cand {
                        Some(j) => {
                            total += k - j;
                            i = j;
                        }
                        None => i = if k > i { k } else { i + 1 },
                    }
                    continue 'outer;
                }
            }
        }
    }
    total
}

/// Normalised output item of a decoder run.
#[derive(Debug, Clone, PartialEq)]
pub enum Out {
    Event(TerminalEvent),
    Command(TerminalCommand),
    Char(char),
    /// Utf8Decoder reports an error for an invalid sequence and carries on
    Utf8Error,
}

impl Out {
    pub fn raw(&self) -> Option<&[u8]> {
        match self {
            Out::Event(TerminalEvent::Raw(r)) => Some(r),
            Out::Command(TerminalCommand::Raw(r)) => Some(r),
            _ => None,
        }
    }
}

#[derive(Debug, Clone, PartialEq)]
pub struct Run {
    pub items: Vec<Out>,
    pub snapshot: Option<Snapshot>,
    /// totality problems observed during the run
    pub problems: Vec<String>,
}

enum AnyDec {
    Event(TTYEventDecoder),
    Command(TTYCommandDecoder),
    Utf8(Utf8Decoder),
}

impl AnyDec {
    fn new(which: Which) -> Self {
        match which {
            Which::Event => AnyDec::Event(TTYEventDecoder::new()),
            Which::Command => AnyDec::Command(TTYCommandDecoder::new()),
            Which::Utf8 => AnyDec::Utf8(Utf8Decoder::new()),
        }
    }

    fn decode<B: std::io::BufRead>(&mut self, cur: &mut B) -> Result<Option<Out>, String> {
        match self {
            AnyDec::Event(d) => d.decode(cur).map(|o| o.map(Out::Event)).map_err(|e| format!("{e:?}")),
            AnyDec::Command(d) => d.decode(cur).map(|o| o.map(Out::Command)).map_err(|e| format!("{e:?}")),
            AnyDec::Utf8(d) => match d.decode(cur) {
                Ok(o) => Ok(o.map(Out::Char)),
                Err(_) => Ok(Some(Out::Utf8Error)),
            },
        }
    }

    /// `Decoder::decode_into`: all items available in the reader
    fn decode_into<B: std::io::BufRead>(&mut self, cur: &mut B, out: &mut Vec<Out>) -> Result<(), String> {
        match self {
            AnyDec::Event(d) => {
                let mut v = vec![];
                let r = d.decode_into(&mut *cur, &mut v).map(|_| ()).map_err(|e| format!("{e:?}"));
                out.extend(v.into_iter().map(Out::Event));
                r
            }
            AnyDec::Command(d) => {
                let mut v = vec![];
                let r = d.decode_into(&mut *cur, &mut v).map(|_| ()).map_err(|e| format!("{e:?}"));
                out.extend(v.into_iter().map(Out::Command));
                r
            }
            AnyDec::Utf8(_) => Ok(()),
        }
    }

    fn snapshot(&self) -> Option<Snapshot> {
        match self {
            AnyDec::Event(d) => Some(d.verif_snapshot()),
            AnyDec::Command(d) => Some(d.verif_snapshot()),
            AnyDec::Utf8(_) => None,
        }
    }
}

/// One `BufRead` that hands out the parts of a byte string as successive `fill_buf` slices (like `Chain`, a
/// `BufReader` with a small buffer, or the library's own chunked queue): the read boundaries are inside one reader.
pub struct SlicedReader<'a> {
    w: &'a [u8],
    /// end offsets of the slices
    ends: Vec<usize>,
    pos: usize,
}

impl<'a> SlicedReader<'a> {
    pub fn new(w: &'a [u8], parts: &[usize]) -> Self {
        let mut ends = vec![];
        let mut off = 0;
        for p in parts {
            off += p;
            if *p > 0 {
                ends.push(off);
            }
        }
        SlicedReader { w, ends, pos: 0 }
    }
    pub fn exhausted(&self) -> bool {
        self.pos >= self.w.len()
    }
}

impl std::io::Read for SlicedReader<'_> {
    fn read(&mut self, buf: &mut [u8]) -> std::io::Result<usize> {
        let avail = std::io::BufRead::fill_buf(self)?;
        let n = avail.len().min(buf.len());
        buf[..n].copy_from_slice(&avail[..n]);
        std::io::BufRead::consume(self, n);
        Ok(n)
    }
}

impl std::io::BufRead for SlicedReader<'_> {
    fn fill_buf(&mut self) -> std::io::Result<&[u8]> {
        let end = self.ends.iter().copied().find(|e| *e > self.pos).unwrap_or(self.w.len());
        Ok(&self.w[self.pos..end])
    }
    fn consume(&mut self, n: usize) {
        let end = self.ends.iter().copied().find(|e| *e > self.pos).unwrap_or(self.w.len());
        assert!(self.pos + n <= end, "decoder consumed {} bytes of a {}-byte slice", n, end - self.pos);
        self.pos += n;
    }
}

/// Like `run_parts`, but all parts come out of ONE reader as successive `fill_buf` slices.
pub fn run_parts_one_reader(which: Which, w: &[u8], parts: &[usize]) -> Run {
    let mut dec = AnyDec::new(which);
    let mut items = Vec::new();
    let mut problems = Vec::new();
    let mut reader = SlicedReader::new(w, parts);
    let budget = 2 * (w.len() + 64) + 8 + 2 * parts.len();
    let mut calls = 0;
    loop {
        calls += 1;
        if calls > budget {
            problems.push("decode does not terminate (call budget exceeded)".into());
            break;
        }
        match dec.decode(&mut reader) {
            Ok(Some(o)) => items.push(o),
            Ok(None) => {
                if reader.exhausted() {
                    break;
                }
            }
            Err(e) => {
                problems.push(format!("decode returned error {e}"));
                break;
            }
        }
    }
    Run { items, snapshot: dec.snapshot(), problems }
}

/// All parts out of ONE reader as successive `fill_buf` slices, read with `decode_into` (called again as long as the
/// reader has more to hand out).
pub fn run_parts_one_reader_into(which: Which, w: &[u8], parts: &[usize]) -> Run {
    let mut dec = AnyDec::new(which);
    let mut items = Vec::new();
    let mut problems = Vec::new();
    let mut reader = SlicedReader::new(w, parts);
    let budget = 2 * (w.len() + 64) + 8 + 2 * parts.len();
    let mut calls = 0;
    loop {
        calls += 1;
        if calls > budget {
            problems.push("decode_into does not terminate (call budget exceeded)".into());
            break;
        }
        match dec.decode_into(&mut reader, &mut items) {
            Ok(_) => {
                if reader.exhausted() {
                    break;
                }
            }
            Err(e) => {
                problems.push(format!("decode_into returned error {e}"));
                break;
            }
        }
    }
    Run { items, snapshot: dec.snapshot(), problems }
}

/// Like `run_parts`, but every read is handled with ONE `decode` call followed by `decode_into` for whatever is
/// left of it (the two entry points of the `Decoder` trait used in turn on one decoder).
pub fn run_parts_mixed_api(which: Which, w: &[u8], parts: &[usize]) -> Run {
    let mut dec = AnyDec::new(which);
    let mut items = Vec::new();
    let mut problems = Vec::new();
    let mut off = 0;
    for p in parts {
        let chunk = &w[off..off + p];
        off += p;
        let mut cur = Cursor::new(chunk);
        match dec.decode(&mut cur) {
            Ok(Some(o)) => items.push(o),
            Ok(None) => {}
            Err(e) => problems.push(format!("decode returned error {e}")),
        }
        if let Err(e) = dec.decode_into(&mut cur, &mut items) {
            problems.push(format!("decode_into returned error {e}"));
        }
        if cur.position() as usize != chunk.len() {
            problems.push(format!("decode_into returned with {} of {} bytes of the read unconsumed", chunk.len() - cur.position() as usize, chunk.len()));
        }
    }
    Run { items, snapshot: dec.snapshot(), problems }
}

/// Feed `w` cut into `parts` (lengths; a 0 is an empty read) to a fresh decoder.
/// Panics are NOT caught here (callers wrap in `catch`).
pub fn run_parts(which: Which, w: &[u8], parts: &[usize]) -> Run {
    let mut dec = AnyDec::new(which);
    let mut items = Vec::new();
    let mut problems = Vec::new();
    let mut off = 0;
    for p in parts {
        let chunk = &w[off..off + p];
        off += p;
        feed(&mut dec, chunk, off, &mut items, &mut problems);
    }
    debug_assert_eq!(off, w.len());
    // exhaustion: nothing more is available, and asking again changes nothing
    let before = dec.snapshot();
    for _ in 0..2 {
        let mut cur = Cursor::new(&[][..]);
        match dec.decode(&mut cur) {
            Ok(None) => {}
            Ok(Some(o)) => problems.push(format!("exhausted decoder produced {:?}", o)),
            Err(e) => problems.push(format!("exhausted decoder returned error {e}")),
        }
    }
    if dec.snapshot() != before {
        problems.push("empty read changed decoder state".into());
    }
    Run {
        items,
        snapshot: dec.snapshot(),
        problems,
    }
}

fn feed(dec: &mut AnyDec, chunk: &[u8], seen: usize, items: &mut Vec<Out>, problems: &mut Vec<String>) {
    let mut cur = Cursor::new(chunk);
    // every call either yields an item or consumes the whole read; items are bounded by the bytes seen so far
    // (a sequence that dies late is re-read from its start: all of its bytes may come out as items now)
    let budget = 2 * (seen + 64) + 8;
    let mut calls = 0;
    loop {
        calls += 1;
        if calls > budget {
            problems.push("decode does not terminate (call budget exceeded)".into());
            return;
        }
        match dec.decode(&mut cur) {
            Ok(Some(o)) => items.push(o),
            Ok(None) => break,
            Err(e) => {
                problems.push(format!("decode returned error {e}"));
                break;
            }
        }
    }
    if cur.position() as usize != chunk.len() {
        problems.push(format!(
            "decode returned None with {} of {} bytes of the read unconsumed",
            chunk.len() - cur.position() as usize,
            chunk.len()
        ));
    }
}

fn valid_char(c: char) -> bool {
    let v = c as u32;
    v < 0xD800 || (0xE000..=0x10FFFF).contains(&v)
}

/// Well-formedness of one output item as far as it can be judged without knowing the input.
pub fn item_problem(o: &Out) -> Option<String> {
    use surf_n_term::KeyName;
    match o {
        Out::Char(c) if !valid_char(*c) => Some(format!("invalid scalar value U+{:X}", *c as u32)),
        Out::Command(TerminalCommand::Char(c)) if !valid_char(*c) => {
            Some(format!("invalid scalar value U+{:X}", *c as u32))
        }
        Out::Event(TerminalEvent::Key(k)) => match k.name {
            KeyName::Char(c) if !valid_char(c) => Some(format!("invalid scalar value U+{:X}", c as u32)),
            _ => None,
        },
        Out::Event(TerminalEvent::Raw(r)) | Out::Command(TerminalCommand::Raw(r)) if r.is_empty() => {
            Some("empty raw event".into())
        }
        Out::Event(TerminalEvent::Paste(s)) => s.chars().find(|c| !valid_char(*c)).map(|c| format!("invalid scalar U+{:X} in paste", c as u32)),
        _ => None,
    }
}

#[derive(Debug, Clone)]
pub struct Problem {
    pub kind: String,
    pub detail: String,
}

/// Compare a run with the reference tokenisation. Silent about *what* a recognised token
/// decodes to (that is C04) - checks structure: one item per reference item, raw bytes are the
/// exact span, recognised tokens are either a non-raw item or a raw item carrying exactly the
/// token's bytes (a recognised shape whose payload the family decoder rejected), pending tail
/// is exactly what the decoder still buffers.
pub fn compare_with_reference(which: Which, w: &[u8], run: &Run) -> Option<Problem> {
    if which == Which::Utf8 {
        return None;
    }
    let t = table(which);
    let (items, pending) = reference(t, w);
    if items.len() != run.items.len() {
        return Some(Problem {
            kind: "token-count".into(),
            detail: format!(
                "reference tokenisation has {} items {:?}, decoder produced {} items {:?}",
                items.len(),
                items,
                run.items.len(),
                run.items
            ),
        });
    }
    for (r, o) in items.iter().zip(run.items.iter()) {
        match r {
            RefItem::Garbage { start, end } => {
                if o.raw() != Some(&w[*start..*end]) {
                    return Some(Problem {
                        kind: "garbage-span".into(),
                        detail: format!("expected raw {:?} for garbage span {}..{}, got {:?}", &w[*start..*end], start, end, o),
                    });
                }
            }
            RefItem::Token { start, end } => {
                if let Some(raw) = o.raw() {
                    if raw != &w[*start..*end] {
                        return Some(Problem {
                            kind: "token-span".into(),
                            detail: format!(
                                "longest accepted span {}..{} = {:?} but raw item carries {:?}",
                                start, end, &w[*start..*end], raw
                            ),
                        });
                    }
                }
            }
        }
    }
    if let Some(s) = &run.snapshot {
        if s.buffer != w[pending..] {
            return Some(Problem {
                kind: "pending-tail".into(),
                detail: format!("decoder buffers {:?}, reference says pending tail is {:?}", s.buffer, &w[pending..]),
            });
        }
        if !s.rescheduled.is_empty() {
            return Some(Problem {
                kind: "rescheduled-left".into(),
                detail: format!("rescheduled bytes {:?} left after the read was fully decoded", s.rescheduled),
            });
        }
    }
    None
}

/// Full check of one string under a list of partitions. Returns problems (kind, detail).
/// `reference_check`: also compare with the reference tokenisation.
pub fn check_string(
    which: Which,
    w: &[u8],
    partitions: &[Vec<usize>],
    reference_check: bool,
) -> Result<Vec<Problem>, PanicInfo> {
    let mut out = Vec::new();
    let mut first: Option<Run> = None;
    for parts in partitions {
        let run = catch(|| run_parts(which, w, parts))?;
        for p in &run.problems {
            out.push(Problem {
                kind: format!("totality:{}", squash(p)),
                detail: format!("{p} (reads {:?})", parts),
            });
        }
        for o in &run.items {
            if let Some(p) = item_problem(o) {
                out.push(Problem {
                    kind: format!("malformed:{}", squash(&p)),
                    detail: format!("{p} in {:?}", o),
                });
            }
        }
        match &first {
            None => {
                if reference_check {
                    if let Some(p) = compare_with_reference(which, w, &run) {
                        out.push(Problem {
                            kind: format!("tokenisation:{}", p.kind),
                            detail: format!("{} (reads {:?})", p.detail, parts),
                        });
                    }
                }
                first = Some(run);
            }
            Some(f) => {
                if f.items != run.items {
                    out.push(Problem {
                        kind: "chunking:events-differ".into(),
                        detail: format!(
                            "reads {:?} give {:?} but reads {:?} give {:?}",
                            partitions[0], f.items, parts, run.items
                        ),
                    });
                } else if f.snapshot != run.snapshot {
                    out.push(Problem {
                        kind: "chunking:state-differs".into(),
                        detail: format!(
                            "reads {:?} end in {:?} but reads {:?} end in {:?}",
                            partitions[0], f.snapshot, parts, run.snapshot
                        ),
                    });
                }
            }
        }
        // `decode` once, then `decode_into`, on every read (the whole input; single cuts for inputs of up to 6 bytes)
        if (parts.len() == 1 || (parts.len() == 2 && w.len() <= 6)) && which != Which::Utf8 {
            let mixed = catch(|| run_parts_mixed_api(which, w, parts))?;
            for p in &mixed.problems {
                out.push(Problem { kind: format!("totality:mixed-api:{}", squash(p)), detail: format!("{p} (decode then decode_into, reads {:?})", parts) });
            }
            if let Some(f) = &first {
                if f.items != mixed.items {
                    out.push(Problem {
                        kind: "chunking:events-differ:decode-then-decode_into".into(),
                        detail: format!(
                            "decode alone gives {:?} but decode followed by decode_into on each of the reads {:?} gives {:?}",
                            f.items, parts, mixed.items
                        ),
                    });
                }
            }
        }
        // the same boundaries inside one reader (successive fill_buf slices)
        if parts.iter().filter(|p| **p > 0).count() >= 2 && which != Which::Utf8 {
            let one = catch(|| run_parts_one_reader(which, w, parts))?;
            for p in &one.problems {
                out.push(Problem {
                    kind: format!("totality:one-reader:{}", squash(p)),
                    detail: format!("{p} (one reader handing out slices {:?})", parts),
                });
            }
            if let Some(f) = &first {
                if f.items != one.items {
                    out.push(Problem {
                        kind: "chunking:events-differ:one-reader".into(),
                        detail: format!(
                            "reads {:?} give {:?} but one reader handing out slices {:?} gives {:?}",
                            partitions[0], f.items, parts, one.items
                        ),
                    });
                } else if f.snapshot != one.snapshot {
                    out.push(Problem {
                        kind: "chunking:state-differs:one-reader".into(),
                        detail: format!(
                            "reads {:?} end in {:?} but one reader handing out slices {:?} ends in {:?}",
                            partitions[0], f.snapshot, parts, one.snapshot
                        ),
                    });
                }
            }
        }
        // ... and read with `decode_into`
        if parts.iter().filter(|p| **p > 0).count() >= 2 && parts.len() <= 3 && which != Which::Utf8 {
            let one = catch(|| run_parts_one_reader_into(which, w, parts))?;
            for p in &one.problems {
                out.push(Problem {
                    kind: format!("totality:one-reader-decode_into:{}", squash(p)),
                    detail: format!("{p} (decode_into on one reader handing out slices {:?})", parts),
                });
            }
            if let Some(f) = &first {
                if f.items != one.items {
                    out.push(Problem {
                        kind: "chunking:events-differ:one-reader-decode_into".into(),
                        detail: format!(
                            "reads {:?} give {:?} but decode_into on one reader handing out slices {:?} gives {:?}",
                            partitions[0], f.items, parts, one.items
                        ),
                    });
                }
            }
        }
        if out.len() > 8 {
            break;
        }
    }
    Ok(out)
}

/// remove digits/hex so that kinds are coarse
pub fn squash(s: &str) -> String {
    let mut o = String::new();
    let mut last = false;
    for c in s.chars() {
        if c.is_ascii_digit() {
            if !last {
                o.push('#');
            }
            last = true;
        } else {
            last = false;
            o.push(c);
        }
    }
    if o.len() > 80 {
        let mut end = 80;
        while !o.is_char_boundary(end) {
            end -= 1;
        }
        o.truncate(end);
    }
    o
}

/// All partitions of n bytes (as part-length lists), n <= 16.
pub fn all_partitions(n: usize) -> Vec<Vec<usize>> {
    if n == 0 {
        return vec![vec![]];
    }
    (0..(1u64 << (n - 1)))
        .map(|m| crate::engine::util::cuts_from_mask(n, m))
        .collect()
}

/// whole, every single cut, all singletons, singletons with empty reads in between
pub fn light_partitions(n: usize) -> Vec<Vec<usize>> {
    let mut v = vec![vec![n]];
    for a in 1..n {
        v.push(vec![a, n - a]);
    }
    if n > 2 {
        v.push(vec![1; n]);
    }
    if n >= 1 {
        let mut e = vec![0];
        for _ in 0..n {
            e.push(1);
            e.push(0);
        }
        v.push(e);
    }
    v
}
