//! C16 part (a): explicit-state BFS over operation histories of the real `IOQueue` against the
//! byte model (model/deque.rs).
use crate::engine::bfs::{bfs_with, BfsStats};
use crate::engine::catch;
use crate::engine::report::{Ctx, Samples, Violations};
use crate::engine::util::hash128;
use crate::model::deque::ByteModel;
use serde_json::{json, Value};
use std::io::{BufRead, Read, Write};
use surf_n_term::common::IOQueue;

#[derive(Debug, Clone, Copy, PartialEq, Eq, Hash)]
pub enum QOp {
    Write(u8),
    Flush,
    Read(u8),
    Consume(u8),
    ConsumeWith(u8),
    ConsumeWithErr,
    FillBuf,
    ClearButLast,
    /// write of BIG[k] bytes (sizes around the 64 KiB mark, where buffers are usually re-allocated)
    WriteBig(u8),
    /// consume of BIG[k] bytes
    ConsumeBig(u8),
    /// `Read::read_to_end` (whatever it returns must be the next pending bytes, in order)
    ReadToEnd,
    /// one gathered write of the slices [2 bytes, empty, 1 byte] through `Write::write_vectored`, called again with
    /// what it did not take
    WriteVectored,
}

/// the slices of `QOp::WriteVectored` for the current counter value
fn vectored_slices(counter: u8) -> [Vec<u8>; 3] {
    [vec![counter, counter.wrapping_add(1)], vec![], vec![counter.wrapping_add(2)]]
}

/// `write_vectored` until everything is taken; Err(text) when it lies about its progress
fn write_vectored_all(queue: &mut IOQueue, slices: &[Vec<u8>]) -> Result<(), String> {
    let mut rest: Vec<&[u8]> = slices.iter().map(|v| &v[..]).collect();
    let mut guard = 0;
    while rest.iter().any(|p| !p.is_empty()) {
        guard += 1;
        if guard > 16 {
            return Err("write_vectored makes no progress".into());
        }
        let io: Vec<std::io::IoSlice<'_>> = rest.iter().map(|p| std::io::IoSlice::new(p)).collect();
        let mut n = queue.write_vectored(&io).map_err(|e| format!("write_vectored failed: {e}"))?;
        if n == 0 {
            return Err("write_vectored returned 0 for non-empty input".into());
        }
        for p in rest.iter_mut() {
            let take = n.min(p.len());
            *p = &p[take..];
            n -= take;
        }
        if n > 0 {
            return Err("write_vectored reports more bytes than it was given".into());
        }
    }
    Ok(())
}

pub const BIG: [usize; 5] = [65536, 70001, 1_048_577, 2_200_000, 3_300_000];

/// the alphabet of the third pass: operations of more than 1 MiB and more than 2 MiB on a chunk of 3.3 MB
pub fn huge_ops() -> Vec<QOp> {
    vec![QOp::Write(1), QOp::WriteBig(4), QOp::Flush, QOp::Consume(1), QOp::ConsumeBig(2), QOp::ConsumeBig(3), QOp::Read(5), QOp::ClearButLast]
}

/// the alphabet of the second pass: one-byte and very large operations
pub fn big_ops() -> Vec<QOp> {
    vec![
        QOp::Write(1),
        QOp::WriteBig(0),
        QOp::WriteBig(1),
        QOp::Flush,
        QOp::Consume(1),
        QOp::ConsumeBig(0),
        QOp::Read(5),
        QOp::ClearButLast,
    ]
}

fn write_size(op: &QOp) -> Option<usize> {
    match op {
        QOp::Write(k) => Some(*k as usize),
        QOp::WriteBig(k) => Some(BIG[*k as usize]),
        _ => None,
    }
}

fn consume_size(op: &QOp) -> Option<usize> {
    match op {
        QOp::Consume(m) | QOp::ConsumeWith(m) => Some(*m as usize),
        QOp::ConsumeBig(k) => Some(BIG[*k as usize]),
        _ => None,
    }
}

/// at most the first 24 bytes of a buffer, for messages
fn short(b: &[u8]) -> String {
    if b.len() <= 24 {
        format!("{:?}", b)
    } else {
        format!("{:?}.. ({} bytes)", &b[..24], b.len())
    }
}

pub fn all_ops() -> Vec<QOp> {
    let mut v = vec![];
    for k in 0..=3 {
        v.push(QOp::Write(k));
    }
    v.push(QOp::Flush);
    for n in [0u8, 1, 2, 5] {
        v.push(QOp::Read(n));
    }
    for m in 0..=4 {
        v.push(QOp::Consume(m));
    }
    for m in 0..=4 {
        v.push(QOp::ConsumeWith(m));
    }
    v.push(QOp::ConsumeWithErr);
    v.push(QOp::FillBuf);
    v.push(QOp::ClearButLast);
    v.push(QOp::ReadToEnd);
    v.push(QOp::WriteVectored);
    v
}

pub fn op_json(op: &QOp) -> Value {
    json!(format!("{:?}", op))
}

pub fn parse_op(s: &str) -> Option<QOp> {
    all_ops().into_iter().chain(big_ops()).chain(huge_ops()).find(|o| format!("{:?}", o) == s)
}

struct Run {
    queue: IOQueue,
    model: ByteModel,
    counter: u8,
}

fn drain(queue: &mut IOQueue) -> (Vec<u8>, Vec<usize>) {
    let mut bytes = vec![];
    let mut chunks = vec![];
    let mut guard = 0;
    while !queue.is_empty() {
        let s = queue.as_slice().to_vec();
        chunks.push(s.len());
        bytes.extend_from_slice(&s);
        queue.consume(s.len());
        guard += 1;
        if guard > 1000 {
            break;
        }
    }
    (bytes, chunks)
}

/// apply ops to the real queue only (for replicas)
fn apply_real(queue: &mut IOQueue, counter: &mut u8, op: &QOp) {
    match op {
        QOp::Write(_) | QOp::WriteBig(_) => {
            let k = write_size(op).unwrap();
            let buf: Vec<u8> = (0..k).map(|i| counter.wrapping_add(i as u8)).collect();
            *counter = counter.wrapping_add(k as u8);
            let _ = queue.write(&buf);
        }
        QOp::ConsumeBig(_) => queue.consume(consume_size(op).unwrap()),
        QOp::ReadToEnd => {
            let mut v = vec![];
            let _ = queue.read_to_end(&mut v);
        }
        QOp::WriteVectored => {
            let slices = vectored_slices(*counter);
            *counter = counter.wrapping_add(3);
            let _ = write_vectored_all(queue, &slices);
        }
        QOp::Flush => {
            let _ = queue.flush();
        }
        QOp::Read(n) => {
            let mut buf = vec![0u8; *n as usize];
            let _ = queue.read(&mut buf);
        }
        QOp::Consume(m) => queue.consume(*m as usize),
        QOp::ConsumeWith(m) => {
            let m = *m as usize;
            let _ = queue.consume_with(|_| Ok::<usize, ()>(m));
        }
        QOp::ConsumeWithErr => {
            let _ = queue.consume_with(|_| Err::<usize, ()>(()));
        }
        QOp::FillBuf => {
            let _ = queue.fill_buf();
        }
        QOp::ClearButLast => queue.clear_but_last(),
    }
}

/// Replays `hist`; returns problems (kind, detail) found at the LAST operation (earlier ones were
/// checked when they were last) and the canonical key.
pub fn step(hist: &[QOp]) -> (Option<u128>, Vec<(String, String)>) {
    let mut r = Run { queue: IOQueue::new(), model: ByteModel::new(), counter: 0 };
    let mut problems: Vec<(String, String)> = vec![];
    for (i, op) in hist.iter().enumerate() {
        let last = i + 1 == hist.len();
        let mut local: Vec<(String, String)> = vec![];
        match op {
            QOp::Write(_) | QOp::WriteBig(_) => {
                let k = write_size(op).unwrap();
                let buf: Vec<u8> = (0..k).map(|j| r.counter.wrapping_add(j as u8)).collect();
                r.counter = r.counter.wrapping_add(k as u8);
                match r.queue.write(&buf) {
                    Ok(n) if n == buf.len() => {}
                    other => local.push(("write-result".into(), format!("write of {} bytes returned {:?}", buf.len(), other))),
                }
                r.model.write(&buf);
            }
            QOp::Flush => {
                let _ = r.queue.flush();
                r.model.flush();
            }
            QOp::Read(n) => {
                let mut buf = vec![0u8; *n as usize];
                match r.queue.read(&mut buf) {
                    Ok(size) => {
                        if size > buf.len() || size > r.model.len() {
                            local.push(("read-size".into(), format!("read returned {size} with {} bytes pending and a buffer of {}", r.model.len(), n)));
                        } else {
                            let expect = r.model.consume(size);
                            if buf[..size] != expect[..] {
                                local.push(("read-bytes".into(), format!("read returned {}, next pending bytes are {}", short(&buf[..size]), short(&expect))));
                            }
                        }
                    }
                    Err(e) => local.push(("read-error".into(), format!("read failed: {e}"))),
                }
            }
            QOp::Consume(_) | QOp::ConsumeWith(_) | QOp::ConsumeBig(_) => {
                let m = consume_size(op).unwrap();
                let avail = r.queue.as_slice().len();
                // enabled only when m <= avail (see `enabled`)
                if m <= avail {
                    match op {
                        QOp::Consume(_) | QOp::ConsumeBig(_) => r.queue.consume(m),
                        _ => match r.queue.consume_with(|s| if s.len() >= m { Ok::<usize, ()>(m) } else { Err(()) }) {
                            Ok(n) if n == m => {}
                            other => local.push(("consume_with-result".into(), format!("consume_with({m}) returned {:?}", other))),
                        },
                    }
                    r.model.consume(m);
                }
            }
            QOp::WriteVectored => {
                let slices = vectored_slices(r.counter);
                r.counter = r.counter.wrapping_add(3);
                if let Err(e) = write_vectored_all(&mut r.queue, &slices) {
                    local.push(("write_vectored-result".into(), e));
                }
                for sl in &slices {
                    r.model.write(sl);
                }
            }
            QOp::ReadToEnd => {
                let mut v = vec![];
                match r.queue.read_to_end(&mut v) {
                    Ok(size) => {
                        if size != v.len() || size > r.model.len() {
                            local.push(("read_to_end-size".into(), format!("read_to_end returned {size}, appended {} bytes, {} bytes pending", v.len(), r.model.len())));
                        } else {
                            let expect = r.model.consume(size);
                            if v != expect {
                                local.push(("read_to_end-bytes".into(), format!("read_to_end returned {}, next pending bytes are {}", short(&v), short(&expect))));
                            }
                        }
                    }
                    Err(e) => local.push(("read_to_end-error".into(), format!("read_to_end failed: {e}"))),
                }
            }
            QOp::ConsumeWithErr => {
                if r.queue.consume_with(|_| Err::<usize, ()>(())).is_ok() {
                    local.push(("consume_with-error".into(), "consume_with swallowed the consumer's error".into()));
                }
            }
            QOp::FillBuf => match r.queue.fill_buf() {
                Ok(s) => {
                    let s = s.to_vec();
                    let pend: Vec<u8> = r.model.pending.iter().take(s.len()).map(|(b, _)| *b).collect();
                    if s != pend {
                        local.push(("fill_buf".into(), format!("fill_buf returned {}, pending bytes start with {}", short(&s), short(&pend))));
                    }
                }
                Err(e) => local.push(("fill_buf-error".into(), format!("{e}"))),
            },
            QOp::ClearButLast => {
                r.queue.clear_but_last();
                // what is still readable after the drop: replay the prefix on a replica and drain it
                let mut replica = IOQueue::new();
                let mut c = 0u8;
                for op in &hist[..=i] {
                    apply_real(&mut replica, &mut c, op);
                }
                let (remaining, _) = drain(&mut replica);
                match r.model.legal_drop(&remaining) {
                    Ok(()) => r.model.apply_drop(remaining.len()),
                    Err(e) => {
                        local.push(("drop".into(), format!("clear_but_last: {e}")));
                        r.model.apply_drop(remaining.len().min(r.model.len()));
                    }
                }
            }
        }
        // invariants after every operation
        if r.queue.len() != r.model.len() {
            local.push((
                format!("len-after-{}", format!("{:?}", op).split('(').next().unwrap_or("")),
                format!("len() = {} but {} bytes can still be read", r.queue.len(), r.model.len()),
            ));
        }
        if r.queue.is_empty() && r.model.len() != 0 {
            local.push(("is_empty".into(), format!("is_empty() with {} readable bytes", r.model.len())));
        }
        let s = r.queue.as_slice();
        let pend: Vec<u8> = r.model.pending.iter().take(s.len()).map(|(b, _)| *b).collect();
        if s != pend.as_slice() || s.len() > r.model.len() {
            local.push(("as_slice".into(), format!("as_slice() = {}, pending bytes start with {}", short(s), short(&pend))));
        }
        if last {
            problems = local;
        } else if !local.is_empty() {
            // a violating prefix is never expanded by the BFS; replays may contain one
            problems = local;
            break;
        }
    }
    // final observation on a replica: everything pending comes out, in order, exactly once
    let mut replica = IOQueue::new();
    let mut c = 0u8;
    for op in hist {
        apply_real(&mut replica, &mut c, op);
    }
    let len_field = replica.len();
    let chunks_count = replica.chunks_count();
    let front = replica.as_slice().len();
    let (bytes, chunks) = drain(&mut replica);
    let pend: Vec<u8> = r.model.pending.iter().map(|(b, _)| *b).collect();
    if problems.is_empty() && bytes != pend {
        let at = bytes.iter().zip(pend.iter()).position(|(a, b)| a != b).unwrap_or(bytes.len().min(pend.len()));
        problems.push((
            "drain".into(),
            format!(
                "draining the queue yields {} bytes, {} bytes were written and not yet consumed/dropped; first difference at offset {at}: {} vs {}",
                bytes.len(), pend.len(), short(&bytes[at..]), short(&pend[at..])
            ),
        ));
    }
    // probe continuation on another replica: three more bytes, a flush, two more bytes - everything pending plus
    // the five new bytes must come out, in order (state the queue hides, such as a stale offset, shows here; the
    // chunk lengths seen are part of the key so that states with different futures are not merged)
    let mut probe = IOQueue::new();
    let mut c2 = 0u8;
    for op in hist {
        apply_real(&mut probe, &mut c2, op);
    }
    let probe_bytes: Vec<u8> = (0..5u8).map(|i| 200 + i).collect();
    let _ = probe.write(&probe_bytes[..3]);
    let _ = probe.flush();
    let _ = probe.write(&probe_bytes[3..]);
    let probe_len = probe.len();
    let (pbytes, pchunks) = drain(&mut probe);
    let mut want = pend.clone();
    want.extend_from_slice(&probe_bytes);
    if problems.is_empty() && (pbytes != want || probe_len != want.len()) {
        let at = pbytes.iter().zip(want.iter()).position(|(a, b)| a != b).unwrap_or(pbytes.len().min(want.len()));
        problems.push((
            "drain-after-more-writes".into(),
            format!(
                "after 3 more bytes, a flush and 2 more bytes len() = {probe_len} and draining yields {} bytes, expected {}; first difference at offset {at}: {} vs {}",
                pbytes.len(), want.len(), short(&pbytes[at.min(pbytes.len())..]), short(&want[at.min(want.len())..])
            ),
        ));
    }
    if !problems.is_empty() {
        return (None, problems);
    }
    // canonical key
    let mut fids: Vec<u32> = r.model.pending.iter().map(|(_, f)| *f).collect();
    let mut distinct = fids.clone();
    distinct.dedup();
    for f in fids.iter_mut() {
        *f = distinct.iter().position(|d| d == f).unwrap() as u32;
    }
    let started: Vec<bool> = distinct.iter().map(|d| r.model.started.contains(d)).collect();
    let next_same = distinct.last().map(|d| *d == r.model.flushes).unwrap_or(false);
    let key = hash128(&(chunks, len_field, chunks_count, front, fids, started, next_same, pchunks));
    (Some(key), problems)
}

pub fn enabled(hist: &[QOp], ops: &[QOp], cap: usize) -> Vec<usize> {
    // replay on the real queue to learn what is enabled
    let mut q = IOQueue::new();
    let mut c = 0u8;
    for op in hist {
        apply_real(&mut q, &mut c, op);
    }
    let avail = q.as_slice().len();
    let pending = q.len();
    ops.iter()
        .enumerate()
        .filter(|(_, op)| match op {
            QOp::Write(_) | QOp::WriteBig(_) => pending + write_size(op).unwrap() <= cap,
            QOp::Consume(_) | QOp::ConsumeWith(_) | QOp::ConsumeBig(_) => consume_size(op).unwrap() <= avail,
            _ => true,
        })
        .map(|(i, _)| i)
        .collect()
}

pub fn explore(ctx: &Ctx, depth: usize, cap: usize, viol: &Violations, samples: &Samples) -> BfsStats {
    explore_with(ctx, all_ops(), depth, cap, viol, samples)
}

/// second pass: one-byte and >= 64 KiB operations
pub fn explore_big(ctx: &Ctx, depth: usize, cap: usize, viol: &Violations, samples: &Samples) -> BfsStats {
    explore_with(ctx, big_ops(), depth, cap, viol, samples)
}

/// third pass: multi-megabyte operations
pub fn explore_huge(ctx: &Ctx, depth: usize, cap: usize, viol: &Violations, samples: &Samples) -> BfsStats {
    explore_with(ctx, huge_ops(), depth, cap, viol, samples)
}

fn explore_with(ctx: &Ctx, ops: Vec<QOp>, depth: usize, cap: usize, viol: &Violations, samples: &Samples) -> BfsStats {
    bfs_with(
        ctx,
        depth,
        |h| {
            let hist: Vec<QOp> = h.iter().map(|i| ops[*i]).collect();
            enabled(&hist, &ops, cap)
        },
        |h| {
            let hist: Vec<QOp> = h.iter().map(|i| ops[*i]).collect();
            match catch(|| step(&hist)) {
                Ok((key, problems)) => {
                    for (kind, detail) in problems {
                        viol.add(
                            format!("ioqueue:{kind}"),
                            format!("IOQueue after {:?}: {detail}", hist),
                            json!({"kind": "ioqueue", "history": hist.iter().map(op_json).collect::<Vec<_>>()}),
                        );
                    }
                    if let Some(k) = key {
                        samples.offer(k as u64, || json!({"ioqueue_history": hist.iter().map(op_json).collect::<Vec<_>>()}));
                    }
                    key
                }
                Err(p) => {
                    viol.add(
                        format!("ioqueue:{}", p.key()),
                        format!("IOQueue panicked after {:?}: {} ({}:{})", hist, p.message, p.file, p.line),
                        json!({"kind": "ioqueue", "history": hist.iter().map(op_json).collect::<Vec<_>>()}),
                    );
                    None
                }
            }
        },
    )
}

pub fn replay(w: &Value) -> Result<(bool, String), String> {
    let hist: Vec<QOp> = w["history"]
        .as_array()
        .ok_or("history")?
        .iter()
        .map(|v| parse_op(v.as_str().unwrap_or("")).ok_or("bad op".to_string()))
        .collect::<Result<_, _>>()?;
    match catch(|| step(&hist)) {
        Ok((_, problems)) => {
            let mut d = format!("history {:?}\n", hist);
            for (k, p) in &problems {
                d += &format!("  {k}: {p}\n");
            }
            Ok((!problems.is_empty(), d))
        }
        Err(p) => Ok((true, format!("panic: {} ({}:{})", p.message, p.file, p.line))),
    }
}
