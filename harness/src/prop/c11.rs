//! C11 -- kitty graphics output transmits exactly the image; draw and erase stay paired.
//!
//! The real `KittyImageHandler` is driven through every history of
//! draw / erase(Some) / erase(None) / handle(KittyImage ok|error) / handle(other) operations
//! over eight images (1x1, 2x3, a strided crop, a crop taken after its parent was drawn, a re-allocated copy, an empty image, an image
//! whose base64 payload is exactly 4096 bytes, a three-chunk image with a short last chunk) and
//! four positions, to depth 3 without any deduplication and to depth 4 (quick) / 6 (thorough)
//! deduplicated by (set of transmitted contents, reference terminal state). Every byte the handler writes is
//! parsed by an independent kitty-graphics parser and executed by a reference terminal
//! (`model::kitty`); the oracle is the property statement, evaluated on what that terminal saw.
//! Two further exhaustive spaces exercise the payload path: single-pixel images over every value
//! of every channel, and every image shape of a size lattice around the chunk boundaries.
use crate::engine::bfs;
use crate::engine::catch;
use crate::engine::report::{Ctx, Report, Samples, Tier, Violations};
use crate::engine::util::{esc, hash128, hash64};
use crate::model::kitty::{parse_graphics, tokenize, Chunk, Cmd, KittyTerm, Outcome, Tok};
use rayon::prelude::*;
use serde_json::{json, Value};
use std::collections::{BTreeMap, BTreeSet, HashSet};
use std::sync::atomic::{AtomicBool, AtomicU64, Ordering};
use std::sync::Mutex;
use surf_n_term::{
    Image, ImageHandler, KittyImageHandler, Position, Shape, Size, Surface, SurfaceOwned, TerminalEvent, RGBA,
};

// --------------------------------------------------------------------------------------------
// images (the harness keeps its own copy of the pixels; the library is never asked for them)
// --------------------------------------------------------------------------------------------

#[derive(Clone)]
struct Img {
    name: String,
    h: usize,
    w: usize,
    /// row-major RGBA of the image *as seen by a viewer* (after cropping)
    px: Vec<[u8; 4]>,
    image: Image,
    /// index of the content class (images with equal size and pixels share one)
    content: usize,
}

fn pixel(i: usize) -> [u8; 4] {
    [
        (i * 7 + 1) as u8,
        (i * 13 + 2) as u8,
        (i * 29 + 3) as u8,
        (i * 31 + 5) as u8,
    ]
}

fn owned(h: usize, w: usize, px: &[[u8; 4]]) -> Image {
    let surf = SurfaceOwned::new_with(Size::new(h, w), |p| {
        let [r, g, b, a] = px[p.row * w + p.col];
        RGBA::new(r, g, b, a)
    });
    Image::from(surf)
}

fn plain(name: &str, h: usize, w: usize, first: usize) -> Img {
    let px: Vec<[u8; 4]> = (0..h * w).map(|i| pixel(first + i)).collect();
    Img { name: name.into(), h, w, image: owned(h, w, &px), px, content: 0 }
}

/// rows r0..r1, cols c0..c1 of `base`, as a strided view sharing the allocation
fn cropped(name: &str, base: &Img, r0: usize, r1: usize, c0: usize, c1: usize) -> Img {
    let mut px = vec![];
    for r in r0..r1 {
        for c in c0..c1 {
            px.push(base.px[r * base.w + c]);
        }
    }
    Img {
        name: name.into(),
        h: r1 - r0,
        w: c1 - c0,
        px,
        image: base.image.crop(r0..r1, c0..c1),
        content: 0,
    }
}

fn assign_contents(imgs: &mut [Img]) -> usize {
    let mut classes: Vec<(usize, usize, Vec<[u8; 4]>)> = vec![];
    for im in imgs.iter_mut() {
        let key = (im.h, im.w, im.px.clone());
        im.content = match classes.iter().position(|c| *c == key) {
            Some(i) => i,
            None => {
                classes.push(key);
                classes.len() - 1
            }
        };
    }
    classes.len()
}

fn history_images() -> Vec<Img> {
    let a = plain("A", 1, 1, 0);
    let b = plain("B", 2, 3, 10);
    let c = cropped("C", &b, 0, 1, 1, 3);
    let d = plain("D", 1, 1, 0); // same pixels as A, different allocation
    let e = plain("E", 0, 3, 0); // empty
    let f = plain("F", 16, 48, 100); // 768 px -> 3072 bytes -> base64 exactly 4096
    let g = plain("G", 29, 53, 1000); // 1537 px -> 6148 bytes -> base64 8200 = 4096 + 4096 + 8
    // a crop taken AFTER its parent has been used (anything an image object memoises on first use - its hash,
    // say - exists by now and must not leak into what is derived from the object)
    let _ = Surface::hash(&b.image);
    {
        let mut scratch = KittyImageHandler::new();
        let _ = scratch.draw(&mut Vec::new(), &b.image, Position::new(0, 0));
    }
    let h = cropped("H", &b, 1, 2, 0, 2);
    let mut v = vec![a, b, c, d, e, f, g, h];
    assign_contents(&mut v);
    v
}

/// `h x w` view with arbitrary strides over a shared buffer of pixels `first..first+len`
fn laid_out(name: &str, first: usize, len: usize, h: usize, w: usize, start: usize, row_stride: usize, col_stride: usize) -> Img {
    let buf: Vec<[u8; 4]> = (0..len).map(|i| pixel(first + i)).collect();
    let data: std::sync::Arc<[RGBA]> = buf.iter().map(|[r, g, b, a]| RGBA::new(*r, *g, *b, *a)).collect();
    let end = if h == 0 || w == 0 { start } else { start + (h - 1) * row_stride + (w - 1) * col_stride + 1 };
    assert!(end <= len);
    let mut px = vec![];
    for r in 0..h {
        for c in 0..w {
            px.push(buf[start + r * row_stride + c * col_stride]);
        }
    }
    let shape = Shape { start, end, width: w, height: h, row_stride, col_stride };
    Img { name: name.into(), h, w, px, image: Image::from_parts(data, shape), content: 0 }
}

/// Images that differ in how the same pixels are laid out in memory: row-major, column-major (transposed
/// views), windows with a gap between rows, and re-allocated copies of what a viewer sees of them.
fn layout_images() -> Vec<Img> {
    let mut v = vec![
        laid_out("S", 300, 4, 2, 2, 0, 2, 1),   // 2x2 row-major
        laid_out("St", 300, 4, 2, 2, 0, 1, 2),  // its transpose: same buffer, other picture
        laid_out("P", 310, 6, 2, 3, 0, 3, 1),   // 2x3 row-major
        laid_out("Pt", 310, 6, 3, 2, 0, 1, 3),  // 3x2 transpose of P
        laid_out("Pr", 310, 6, 3, 2, 0, 2, 1),  // the same buffer read as 3x2 row-major
        laid_out("W", 320, 12, 3, 2, 1, 4, 1),  // 3x2 window of a 3x4 buffer (gap between rows)
        laid_out("Wt", 320, 12, 2, 3, 1, 1, 4), // transposed window
    ];
    // re-allocated row-major copies of what is seen through the views above
    for k in [1usize, 3, 5, 6] {
        let src = v[k].clone();
        v.push(Img { name: format!("{}copy", src.name), h: src.h, w: src.w, image: owned(src.h, src.w, &src.px), px: src.px, content: 0 });
    }
    assign_contents(&mut v);
    v
}

const POSITIONS: [(usize, usize); 4] = [(0, 0), (0, 1), (1, 0), (65535, 65535)];

// --------------------------------------------------------------------------------------------
// operations
// --------------------------------------------------------------------------------------------

#[derive(Debug, Clone, Copy, PartialEq, Eq, Hash)]
enum IdRef {
    Img(usize),
    Unknown,
}

#[derive(Debug, Clone, Copy, PartialEq, Eq, Hash)]
enum PlRef {
    Absent,
    Pos(usize),
    Unknown,
}

#[derive(Debug, Clone, Copy, PartialEq, Eq, Hash)]
enum Op {
    Draw(usize, usize),
    EraseAt(usize, usize),
    EraseAll(usize),
    Resp { id: IdRef, pl: PlRef, error: bool },
    Other,
}

/// What the probe pass learned from the handler's own output: image ids and placement ids.
#[derive(Clone, Default)]
struct Env {
    /// "history" or "layout": which image set `imgs` is
    set: &'static str,
    imgs: Vec<Img>,
    id_of: Vec<Option<u64>>,
    pid_of: Vec<Option<u64>>,
    unknown_id: u64,
    unknown_pid: u64,
}

impl Env {
    fn op_json(&self, op: &Op) -> Value {
        let pos = |p: usize| json!([POSITIONS[p].0, POSITIONS[p].1]);
        match op {
            Op::Draw(i, p) => json!({"op": "draw", "img": self.imgs[*i].name, "pos": pos(*p)}),
            Op::EraseAt(i, p) => json!({"op": "erase", "img": self.imgs[*i].name, "pos": pos(*p)}),
            Op::EraseAll(i) => json!({"op": "erase", "img": self.imgs[*i].name, "pos": null}),
            Op::Resp { id, pl, error } => json!({
                "op": "response",
                "error": error,
                "img": match id { IdRef::Img(i) => json!(self.imgs[*i].name), IdRef::Unknown => json!("?") },
                "placement": match pl { PlRef::Absent => Value::Null, PlRef::Pos(p) => pos(*p), PlRef::Unknown => json!("?") },
            }),
            Op::Other => json!({"op": "other-event"}),
        }
    }

    fn op_from_json(&self, v: &Value) -> Result<Op, String> {
        let img = |v: &Value| -> Result<usize, String> {
            let n = v.as_str().ok_or("img")?;
            self.imgs.iter().position(|i| i.name == n).ok_or(format!("unknown image {n}"))
        };
        let pos = |v: &Value| -> Result<usize, String> {
            let r = v[0].as_u64().ok_or("pos")? as usize;
            let c = v[1].as_u64().ok_or("pos")? as usize;
            POSITIONS.iter().position(|p| *p == (r, c)).ok_or(format!("position {r},{c} not in the alphabet"))
        };
        match v["op"].as_str().ok_or("op")? {
            "draw" => Ok(Op::Draw(img(&v["img"])?, pos(&v["pos"])?)),
            "erase" if v["pos"].is_null() => Ok(Op::EraseAll(img(&v["img"])?)),
            "erase" => Ok(Op::EraseAt(img(&v["img"])?, pos(&v["pos"])?)),
            "response" => Ok(Op::Resp {
                id: if v["img"] == json!("?") { IdRef::Unknown } else { IdRef::Img(img(&v["img"])?) },
                pl: if v["placement"].is_null() {
                    PlRef::Absent
                } else if v["placement"] == json!("?") {
                    PlRef::Unknown
                } else {
                    PlRef::Pos(pos(&v["placement"])?)
                },
                error: v["error"].as_bool().ok_or("error")?,
            }),
            "other-event" => Ok(Op::Other),
            o => Err(format!("unknown op {o}")),
        }
    }
}

fn alphabet(env: &Env) -> Vec<Op> {
    let n = env.imgs.len();
    let mut ops = vec![];
    for i in 0..n {
        for p in 0..POSITIONS.len() {
            ops.push(Op::Draw(i, p));
        }
    }
    for i in 0..n {
        for p in 0..POSITIONS.len() {
            ops.push(Op::EraseAt(i, p));
        }
        ops.push(Op::EraseAll(i));
    }
    // error responses: every (image id, placement) the handler can have produced
    for i in 0..n {
        ops.push(Op::Resp { id: IdRef::Img(i), pl: PlRef::Absent, error: true });
        for p in 0..POSITIONS.len() {
            ops.push(Op::Resp { id: IdRef::Img(i), pl: PlRef::Pos(p), error: true });
        }
    }
    // ... and ids / placements it cannot know
    ops.push(Op::Resp { id: IdRef::Unknown, pl: PlRef::Pos(1), error: true });
    ops.push(Op::Resp { id: IdRef::Unknown, pl: PlRef::Absent, error: true });
    ops.push(Op::Resp { id: IdRef::Img(1), pl: PlRef::Unknown, error: true });
    // OK responses (no state change expected): a known pair, a known id, unknown ones
    ops.push(Op::Resp { id: IdRef::Img(0), pl: PlRef::Pos(1), error: false });
    ops.push(Op::Resp { id: IdRef::Img(1), pl: PlRef::Pos(0), error: false });
    ops.push(Op::Resp { id: IdRef::Img(n - 1), pl: PlRef::Absent, error: false });
    ops.push(Op::Resp { id: IdRef::Unknown, pl: PlRef::Unknown, error: false });
    ops.push(Op::Other);
    ops
}

// --------------------------------------------------------------------------------------------
// one world: real handler + reference terminal + bookkeeping of the statement's quantities
// --------------------------------------------------------------------------------------------

#[derive(Debug, Clone)]
struct Finding {
    key: String,
    what: String,
}

struct World {
    /// the handler, held the way `UnixTerminal` holds it
    handler: Box<dyn ImageHandler>,
    /// calls go through `<Box<dyn ImageHandler> as ImageHandler>` (the library's forwarding implementation)
    /// instead of straight to the handler
    boxed: bool,
    quiet: bool,
    term: KittyTerm,
    /// contents transmitted and not evicted by an error response since
    cached: BTreeSet<usize>,
    /// placement serial -> (content, cell) of the draw that created it
    tags: BTreeMap<u64, (usize, (u32, u32))>,
    /// q value seen on a plain draw that differs from the configured one
    q_deviation: bool,
    /// (op kind, event kinds) signature of the last op
    last_sig: u64,
    last_bytes: Vec<u8>,
    last_events: Vec<String>,
}

fn fmt_chunks(ch: &[Chunk]) -> String {
    ch.iter().map(|c| format!("{}(m={})", c.len, c.more)).collect::<Vec<_>>().join(" ")
}

impl World {
    fn new(quiet: bool) -> Self {
        Self::new_with(quiet, false)
    }

    fn new_with(quiet: bool, boxed: bool) -> Self {
        let handler: Box<dyn ImageHandler> = Box::new(if quiet { KittyImageHandler::new().quiet() } else { KittyImageHandler::new() });
        World {
            handler,
            boxed,
            quiet,
            term: KittyTerm::new(),
            cached: BTreeSet::new(),
            tags: BTreeMap::new(),
            q_deviation: false,
            last_sig: 0,
            last_bytes: vec![],
            last_events: vec![],
        }
    }

    fn state_key(&self) -> u128 {
        let mut pl: Vec<(u32, u32, (u32, u32), Option<(usize, (u32, u32))>)> = self
            .term
            .placements
            .iter()
            .map(|p| (p.image, p.pid, p.at, self.tags.get(&p.serial).copied()))
            .collect();
        pl.sort();
        let imgs: Vec<u32> = self.term.images.keys().copied().collect();
        hash128(&(self.quiet, self.boxed, &self.cached, imgs, pl))
    }

    /// Execute one operation on the real handler, feed its output to the reference terminal
    /// and evaluate the statement. Returns the findings of this operation.
    fn apply(&mut self, env: &Env, op: &Op) -> Vec<Finding> {
        let mut f: Vec<Finding> = vec![];
        let mut add = |key: String, what: String| f.push(Finding { key, what });
        let mut out: Vec<u8> = Vec::new();
        self.last_events.clear();

        // ---- run the real code
        let (row, col) = match op {
            Op::Draw(_, p) | Op::EraseAt(_, p) => POSITIONS[*p],
            _ => (7, 7),
        };
        // contract of ImageHandler::draw: `pos` is the current cursor position
        self.term.cursor = (row as u32, col as u32);
        let event = match op {
            Op::Resp { id, pl, error } => {
                let idv = match id {
                    IdRef::Img(i) => match env.id_of[*i] {
                        Some(v) => v,
                        None => return vec![Finding { key: "disabled".into(), what: "id not learned".into() }],
                    },
                    IdRef::Unknown => env.unknown_id,
                };
                let plv = match pl {
                    PlRef::Absent => None,
                    PlRef::Pos(p) => match env.pid_of[*p] {
                        Some(v) => Some(v),
                        None => return vec![Finding { key: "disabled".into(), what: "placement id not learned".into() }],
                    },
                    PlRef::Unknown => Some(env.unknown_pid),
                };
                Some(TerminalEvent::KittyImage {
                    id: idv,
                    placement: plv,
                    error: if *error { Some("ENOENT:Put command refers to non-existent image".to_string()) } else { None },
                })
            }
            Op::Other => Some(TerminalEvent::KeyboardLevel(1)),
            _ => None,
        };
        // as a trait object, `Box<dyn ImageHandler>` is the Box's own implementation (which forwards), `*Box` is the
        // handler itself
        fn forwarding<T: ImageHandler>(t: &mut T) -> &mut dyn ImageHandler {
            t
        }
        let handler: &mut dyn ImageHandler = if self.boxed { forwarding::<Box<dyn ImageHandler>>(&mut self.handler) } else { &mut *self.handler };
        let res = catch(|| match op {
            Op::Draw(i, _) => handler.draw(&mut out, &env.imgs[*i].image, Position::new(row, col)).map(|_| false),
            Op::EraseAt(i, _) => handler.erase(&mut out, &env.imgs[*i].image, Some(Position::new(row, col))).map(|_| false),
            Op::EraseAll(i) => handler.erase(&mut out, &env.imgs[*i].image, None).map(|_| false),
            Op::Resp { .. } | Op::Other => handler.handle(&mut out, event.as_ref().unwrap()),
        });
        self.last_bytes = out.clone();
        match res {
            Err(p) => {
                add(format!("{}:{}", op_kind(op), p.key()), format!("panicked: {} ({}:{})", p.message, p.file, p.line));
                return f;
            }
            Ok(Err(e)) => {
                add(format!("{}:error-result", op_kind(op)), format!("returned Err({e:?}) while writing to a Vec"));
                return f;
            }
            Ok(Ok(_)) => {}
        }

        // ---- the model's view of an error response: the content is evicted
        let mut subject: Option<usize> = match op {
            Op::Draw(i, _) | Op::EraseAt(i, _) | Op::EraseAll(i) => Some(*i),
            Op::Resp { id: IdRef::Img(i), .. } => Some(*i),
            _ => None,
        };
        if let Op::Resp { id: IdRef::Img(i), error: true, .. } = op {
            self.cached.remove(&env.imgs[*i].content);
            // an error response is the terminal saying it could not use the image: from here on the
            // reference terminal does not hold it (nor its placements), so a later placement must be
            // preceded by a new transmission to "refer to a transmitted image"
            if let Some(id) = env.id_of[*i] {
                self.term.forget_image(id as u32);
            }
        }
        if let Op::Resp { error: false, .. } = op {
            subject = None;
        }

        // ---- parse
        let toks = match tokenize(&out) {
            Ok(t) => t,
            Err(e) => {
                add(format!("{}:malformed-stream", op_kind(op)), format!("output is not a sequence of escape sequences: {e}; bytes {}", esc(&out[..out.len().min(120)])));
                return f;
            }
        };
        let expected_q: u32 = if self.quiet { 1 } else { 0 };
        let mut puts = 0usize;
        let mut deletes = 0usize;
        let mut kinds: Vec<u8> = vec![];
        for tok in &toks {
            let body = match tok {
                Tok::Apc(b) => b,
                other => {
                    kinds.push(b'c');
                    if let Err(e) = self.term.control(other) {
                        add(format!("{}:unexpected-escape", op_kind(op)), e);
                    }
                    if matches!(op, Op::Draw(..) | Op::EraseAt(..) | Op::EraseAll(..)) {
                        add(format!("{}:unexpected-escape", op_kind(op)), format!("{:?} emitted by a plain draw/erase", other));
                    }
                    continue;
                }
            };
            let cmd: Cmd = match parse_graphics(body) {
                Ok(c) => c,
                Err(e) => {
                    add(format!("{}:malformed-command", op_kind(op)), format!("{e}; APC body {}", esc(&body[..body.len().min(100)])));
                    continue;
                }
            };
            if matches!(op, Op::Draw(..)) {
                if cmd.uint(b'q').unwrap_or(0) != expected_q {
                    self.q_deviation = true;
                }
            }
            let was_open = self.term.transmission_open();
            let outcome = self.term.exec(&cmd);
            self.last_events.push(format!("{} -> {}", cmd.describe(), describe_outcome(&outcome)));
            match outcome {
                Outcome::ChunkPending => kinds.push(b'k'),
                Outcome::Rejected { code, text } => {
                    kinds.push(b'r');
                    let class = if text.contains("never transmitted") {
                        "put-untransmitted-image".to_string()
                    } else if was_open {
                        "bad-chunked-transmission".to_string()
                    } else {
                        code.to_string()
                    };
                    add(
                        format!("{}:terminal-rejects:{}", op_kind(op), class),
                        format!("reference terminal rejects `{}`: {code}: {text}", cmd.describe()),
                    );
                }
                Outcome::Transmitted { id, width, height, format, chunks, bytes } => {
                    kinds.push(b't');
                    // chunk rules of the statement
                    for (n, c) in chunks.iter().enumerate() {
                        if c.len > 4096 {
                            add(format!("{}:chunk:longer-than-4096", op_kind(op)), format!("chunk {n} has {} bytes; chunks {}", c.len, fmt_chunks(&chunks)));
                        }
                        if c.len % 4 != 0 {
                            add(format!("{}:chunk:not-multiple-of-4", op_kind(op)), format!("chunk {n} has {} bytes; chunks {}", c.len, fmt_chunks(&chunks)));
                        }
                        if !c.extra_keys.is_empty() {
                            add(
                                format!("{}:chunk:continuation-carries-keys", op_kind(op)),
                                format!("chunk {n} carries keys {:?} (only m and q are allowed; a command sent during a chunked transmission is swallowed as data)", String::from_utf8_lossy(&c.extra_keys)),
                            );
                        }
                    }
                    if format != 32 {
                        add(format!("{}:transmit:format", op_kind(op)), format!("f={format}, expected 32 (RGBA)"));
                    }
                    // which content is it?
                    let data = &self.term.images[&id].data;
                    let matches_img = |im: &Img| im.w as u32 == width && im.h as u32 == height && format == 32 && flat(&im.px) == *data;
                    match subject {
                        Some(i) => {
                            let im = &env.imgs[i];
                            if (width, height) != (im.w as u32, im.h as u32) {
                                add(
                                    format!("{}:transmit:size", op_kind(op)),
                                    format!("declared s={width},v={height} but image {} is {} wide, {} high", im.name, im.w, im.h),
                                );
                            } else if !matches_img(im) {
                                let exp = flat(&im.px);
                                let at = exp.iter().zip(data.iter()).position(|(a, b)| a != b).unwrap_or(0);
                                add(
                                    format!("{}:transmit:pixels", op_kind(op)),
                                    format!("decoded payload ({bytes} bytes) differs from the RGBA pixels of {} at byte {at}: expected {:?}.. got {:?}..", im.name, &exp[at..(at + 8).min(exp.len())], &data[at..(at + 8).min(data.len())]),
                                );
                            }
                            if let Some(eid) = env.id_of[i] {
                                if eid != id as u64 {
                                    add(format!("{}:id-unstable", op_kind(op)), format!("image {} transmitted as i={id}, other handlers use i={eid}", im.name));
                                }
                            }
                            if self.cached.contains(&im.content) {
                                add(
                                    format!("{}:transmit:repeated", op_kind(op)),
                                    format!("pixel data of {} transmitted again although it was transmitted before and not evicted by an error response", im.name),
                                );
                            }
                            self.cached.insert(im.content);
                        }
                        None => match env.imgs.iter().find(|im| matches_img(im)) {
                            Some(im) => {
                                if self.cached.contains(&im.content) {
                                    add(format!("{}:transmit:repeated", op_kind(op)), format!("pixel data of {} transmitted again", im.name));
                                }
                                self.cached.insert(im.content);
                            }
                            None => add(format!("{}:transmit:unknown-content", op_kind(op)), format!("transmission i={id} {width}x{height} is none of the images")),
                        },
                    }
                }
                Outcome::Put { id, pid, serial, at, .. } => {
                    kinds.push(b'p');
                    puts += 1;
                    let stored = &self.term.images[&id];
                    let content = env
                        .imgs
                        .iter()
                        .find(|im| im.w as u32 == stored.width && im.h as u32 == stored.height && flat(&im.px) == stored.data)
                        .map(|im| im.content);
                    if let Some(c) = content {
                        self.tags.insert(serial, (c, at));
                    }
                    if let Some(i) = subject {
                        let im = &env.imgs[i];
                        if content != Some(im.content) {
                            add(
                                format!("{}:put:wrong-image", op_kind(op)),
                                format!("placement names i={id} whose stored pixels are not those of {}", im.name),
                            );
                        }
                    }
                    if pid == 0 {
                        add(
                            format!("{}:put:p0-unspecified@{},{}", op_kind(op), at.0, at.1),
                            format!("placement at cell ({},{}) is created with p=0, which the protocol defines as 'unspecified': it gets no identity, a repeated put adds another placement and it cannot be addressed by a delete", at.0, at.1),
                        );
                    }
                    // the placement id must be the one every handler uses for this cell
                    if let Some(pp) = POSITIONS.iter().position(|p| (p.0 as u32, p.1 as u32) == at) {
                        if let Some(epid) = env.pid_of[pp] {
                            if epid != pid as u64 {
                                add(
                                    format!("{}:put:placement-id-for-cell", op_kind(op)),
                                    format!("image placed at cell ({},{}) with p={pid}; a draw at that cell uses p={epid}", at.0, at.1),
                                );
                            }
                        }
                    }
                    if let Op::Resp { pl, .. } = op {
                        // re-draw after an error: same placement, same cell as the original draw
                        let want_pid = match pl {
                            PlRef::Pos(p) => env.pid_of[*p],
                            PlRef::Unknown => Some(env.unknown_pid),
                            PlRef::Absent => None,
                        };
                        if want_pid.is_some() && want_pid != Some(pid as u64) {
                            add(format!("{}:put:other-placement", op_kind(op)), format!("error response named p={:?}, re-draw used p={pid}", want_pid));
                        }
                        if let PlRef::Pos(p) = pl {
                            let cell = (POSITIONS[*p].0 as u32, POSITIONS[*p].1 as u32);
                            if cell != at {
                                add(
                                    format!("{}:put:wrong-cell", op_kind(op)),
                                    format!("placement p={pid} was created by a draw at cell {:?} but the re-draw moves the cursor to {:?}", cell, at),
                                );
                            }
                        }
                    }
                }
                Outcome::Deleted { id, pid, removed, .. } => {
                    kinds.push(b'd');
                    deletes += 1;
                    match op {
                        Op::EraseAt(i, p) => {
                            let im = &env.imgs[*i];
                            let cell = (POSITIONS[*p].0 as u32, POSITIONS[*p].1 as u32);
                            if let Some(eid) = env.id_of[*i] {
                                if eid != id as u64 {
                                    add("erase:image-id".into(), format!("erase of {} names i={id}, draw uses i={eid}", im.name));
                                }
                            }
                            if pid == 0 {
                                add(
                                    format!("erase:p0-unspecified@{},{}", cell.0, cell.1),
                                    format!("erase at cell ({},{}) sends p=0 (or no p): the protocol reads that as 'unspecified' and deletes every placement of the image", cell.0, cell.1),
                                );
                            } else if let Some(epid) = env.pid_of[*p] {
                                if epid != pid as u64 {
                                    add("erase:placement-id-differs-from-draw".into(), format!("erase at cell {:?} names p={pid}, draw at that cell creates p={epid}", cell));
                                }
                            }
                            let others: Vec<_> = removed.iter().filter(|pl| self.tags.get(&pl.serial) != Some(&(im.content, cell))).collect();
                            if !others.is_empty() {
                                let o = others[0];
                                add(
                                    format!("erase:removes-other-placements@{},{}", cell.0, cell.1),
                                    format!(
                                        "erase({}, {:?}) removed {} placement(s) that were not created by draw({}, {:?}), e.g. the one at cell {:?} (p={})",
                                        im.name, cell, others.len(), im.name, cell, o.at, o.pid
                                    ),
                                );
                            }
                        }
                        Op::EraseAll(i) => {
                            let im = &env.imgs[*i];
                            if let Some(eid) = env.id_of[*i] {
                                if eid != id as u64 {
                                    add("erase:image-id".into(), format!("erase of {} names i={id}, draw uses i={eid}", im.name));
                                }
                            }
                            if pid != 0 {
                                add("erase:all-names-a-placement".into(), format!("erase({}, None) names p={pid}", im.name));
                            }
                            if removed.iter().any(|pl| self.tags.get(&pl.serial).map(|t| t.0) != Some(im.content)) {
                                add("erase:removes-other-image".into(), format!("erase({}, None) removed placements of another image", im.name));
                            }
                        }
                        _ => add(format!("{}:unexpected-delete", op_kind(op)), format!("delete i={id} p={pid} emitted")),
                    }
                    for pl in &removed {
                        self.tags.remove(&pl.serial);
                    }
                }
            }
        }

        // ---- after the operation
        if self.term.transmission_open() {
            add(
                format!("{}:chunk:transmission-left-open", op_kind(op)),
                "the last chunk carried m=1: the terminal keeps waiting for data and will swallow the next graphics command".into(),
            );
        }
        match op {
            Op::Draw(i, p) => {
                let im = &env.imgs[*i];
                let cell = (POSITIONS[*p].0 as u32, POSITIONS[*p].1 as u32);
                if !im.px.is_empty() {
                    let n = self.term.placements.iter().filter(|pl| self.tags.get(&pl.serial) == Some(&(im.content, cell))).count();
                    if n == 0 {
                        add("draw:no-placement".into(), format!("after draw({}, {:?}) the terminal shows no placement of it at that cell", im.name, cell));
                    }
                    if puts > 1 {
                        add("draw:several-puts".into(), format!("{puts} put commands for one draw"));
                    }
                }
            }
            Op::EraseAt(i, p) => {
                let im = &env.imgs[*i];
                let cell = (POSITIONS[*p].0 as u32, POSITIONS[*p].1 as u32);
                if deletes != 1 {
                    add("erase:delete-commands".into(), format!("{deletes} delete commands for one erase"));
                }
                if self.term.placements.iter().any(|pl| self.tags.get(&pl.serial) == Some(&(im.content, cell))) {
                    add("erase:leaves-placement".into(), format!("after erase({}, {:?}) the placement created by draw({}, {:?}) is still there", im.name, cell, im.name, cell));
                }
            }
            Op::EraseAll(i) => {
                let im = &env.imgs[*i];
                if deletes != 1 {
                    add("erase:delete-commands".into(), format!("{deletes} delete commands for one erase"));
                }
                if self.term.placements.iter().any(|pl| self.tags.get(&pl.serial).map(|t| t.0) == Some(im.content)) {
                    add("erase:leaves-placement".into(), format!("after erase({}, None) a placement of it is still there", im.name));
                }
            }
            _ => {}
        }
        self.last_sig = hash64(&(op_kind(op), kinds));
        f
    }
}

fn flat(px: &[[u8; 4]]) -> Vec<u8> {
    px.iter().flat_map(|p| p.iter().copied()).collect()
}

fn op_kind(op: &Op) -> &'static str {
    match op {
        Op::Draw(..) => "draw",
        Op::EraseAt(..) | Op::EraseAll(..) => "erase",
        Op::Resp { error: true, .. } => "error-response",
        Op::Resp { error: false, .. } => "ok-response",
        Op::Other => "other-event",
    }
}

fn describe_outcome(o: &Outcome) -> String {
    match o {
        Outcome::ChunkPending => "chunk accepted, more to come".into(),
        Outcome::Transmitted { id, width, height, chunks, bytes, .. } => {
            format!("image {id} stored: {width}x{height}, {bytes} bytes, chunks {}", fmt_chunks(chunks))
        }
        Outcome::Put { id, pid, replaced, at, .. } => format!("placement (i={id}, p={pid}) at cell {:?}{}", at, if *replaced { " (replaces the previous one)" } else { "" }),
        Outcome::Deleted { id, pid, removed, .. } => format!(
            "delete i={id} p={pid} removed {} placement(s) {:?}",
            removed.len(),
            removed.iter().map(|p| (p.pid, p.at)).collect::<Vec<_>>()
        ),
        Outcome::Rejected { code, text } => format!("REJECTED {code}: {text}"),
    }
}

// --------------------------------------------------------------------------------------------
// probe: learn image ids and placement ids from the handler's own output
// --------------------------------------------------------------------------------------------

fn first_cmd(bytes: &[u8], action: u8) -> Option<Cmd> {
    let toks = tokenize(bytes).ok()?;
    for t in toks {
        if let Tok::Apc(b) = t {
            if let Ok(c) = parse_graphics(&b) {
                if c.ch(b'a') == Some(action) {
                    return Some(c);
                }
            }
        }
    }
    None
}

fn imgs_names(imgs: &[Img]) -> Vec<String> {
    imgs.iter().map(|i| i.name.clone()).collect()
}

fn image_set(name: &str) -> (&'static str, Vec<Img>) {
    if name == "layout" {
        ("layout", layout_images())
    } else {
        ("history", history_images())
    }
}

fn probe(set: &str, viol: &Violations) -> Env {
    let (set, imgs) = image_set(set);
    let mut env = Env { set, id_of: vec![None; imgs.len()], pid_of: vec![None; POSITIONS.len()], imgs, ..Default::default() };
    let names: Vec<String> = imgs_names(&env.imgs);
    let w = |what: &str, i: usize, p: usize| json!({"sub": "probe", "images": set, "what": what, "img": names[i], "pos": [POSITIONS[p].0, POSITIONS[p].1]});
    for (i, im) in env.imgs.iter().enumerate() {
        for (p, pos) in POSITIONS.iter().enumerate() {
            // ids as used by erase (works for the empty image too) and by draw
            let mut ids: Vec<u64> = vec![];
            let mut pids: Vec<u64> = vec![];
            let _ = catch(|| {
                let mut h = KittyImageHandler::new();
                let mut out = vec![];
                let _ = h.erase(&mut out, &im.image, Some(Position::new(pos.0, pos.1)));
                if let Some(c) = first_cmd(&out, b'd') {
                    ids.extend(c.uint(b'i').map(|v| v as u64));
                }
                let mut out = vec![];
                let _ = h.draw(&mut out, &im.image, Position::new(pos.0, pos.1));
                if let Some(c) = first_cmd(&out, b'p') {
                    ids.extend(c.uint(b'i').map(|v| v as u64));
                    pids.push(c.uint(b'p').unwrap_or(0) as u64);
                }
            });
            for id in ids {
                match env.id_of[i] {
                    None => env.id_of[i] = Some(id),
                    Some(old) if old != id => viol.add("probe:image-id-not-a-function-of-content", format!("image {} is named i={old} and i={id}", im.name), w("id", i, p)),
                    _ => {}
                }
            }
            for pid in pids {
                match env.pid_of[p] {
                    None => env.pid_of[p] = Some(pid),
                    Some(old) if old != pid => viol.add("probe:placement-id-not-a-function-of-position", format!("cell {:?} gets p={old} and p={pid}", pos), w("pid", i, p)),
                    _ => {}
                }
            }
        }
    }
    // distinct contents -> distinct ids; equal contents -> equal ids; distinct cells -> distinct p
    for i in 0..env.imgs.len() {
        for j in 0..i {
            if let (Some(a), Some(b)) = (env.id_of[i], env.id_of[j]) {
                let same = env.imgs[i].content == env.imgs[j].content;
                if same != (a == b) {
                    viol.add(
                        if same { "probe:equal-content-different-id" } else { "probe:different-content-same-id" },
                        format!("{} (i={a}) vs {} (i={b})", env.imgs[i].name, env.imgs[j].name),
                        w("id-pair", i, 0),
                    );
                }
            }
        }
    }
    for p in 0..POSITIONS.len() {
        for q in 0..p {
            if let (Some(a), Some(b)) = (env.pid_of[p], env.pid_of[q]) {
                if a == b {
                    viol.add("probe:distinct-cells-same-placement-id", format!("cells {:?} and {:?} both get p={a}", POSITIONS[p], POSITIONS[q]), w("pid-pair", 0, p));
                }
            }
        }
    }
    let used: HashSet<u64> = env.id_of.iter().flatten().copied().collect();
    env.unknown_id = (1000u64..).find(|v| !used.contains(v)).unwrap();
    let usedp: HashSet<u64> = env.pid_of.iter().flatten().copied().collect();
    env.unknown_pid = (77u64 + 5 * 65536..).find(|v| !usedp.contains(v)).unwrap();
    env
}

// --------------------------------------------------------------------------------------------
// history exploration
// --------------------------------------------------------------------------------------------

struct Counters {
    ops_run: AtomicU64,
    histories: AtomicU64,
    outcomes: std::sync::RwLock<HashSet<u64>>,
    q_deviation: AtomicBool,
    transmissions: AtomicU64,
}

fn run_history(env: &Env, quiet: bool, boxed: bool, hist: &[Op]) -> (World, Vec<Finding>, bool) {
    let mut w = World::new_with(quiet, boxed);
    let mut last = vec![];
    let mut prefix_bad = false;
    for (n, op) in hist.iter().enumerate() {
        let f = w.apply(env, op);
        if n + 1 == hist.len() {
            last = f;
        } else if f.iter().any(|f| !(f.key.contains(":p0-unspecified@") || f.key.contains(":removes-other-placements@"))) {
            prefix_bad = true;
        }
    }
    (w, last, prefix_bad)
}

fn history_witness(env: &Env, quiet: bool, boxed: bool, hist: &[Op]) -> Value {
    json!({"sub": "history", "images": env.set, "quiet": quiet, "boxed": boxed, "ops": hist.iter().map(|o| env.op_json(o)).collect::<Vec<_>>()})
}

fn explore(ctx: &Ctx, env: &Env, ops: &[Op], quiet: bool, boxed: bool, depth: usize, dedup: bool, viol: &Violations, samples: &Samples, cnt: &Counters) -> bfs::BfsStats {
    bfs::bfs(ctx, ops, depth, |hist: &[Op]| {
        let (w, findings, prefix_bad) = run_history(env, quiet, boxed, hist);
        cnt.histories.fetch_add(1, Ordering::Relaxed);
        cnt.ops_run.fetch_add(hist.len() as u64, Ordering::Relaxed);
        if w.q_deviation {
            cnt.q_deviation.store(true, Ordering::Relaxed);
        }
        if findings.iter().any(|f| f.key == "disabled") || prefix_bad {
            return None;
        }
        let _ = samples;
        if !hist.is_empty() {
            let seen = cnt.outcomes.read().unwrap().contains(&w.last_sig);
            if !seen {
                cnt.outcomes.write().unwrap().insert(w.last_sig);
            }
        }
        if !findings.is_empty() {
            for f in &findings {
                viol.add(f.key.clone(), format!("{} [history of {} op(s), last: {}]", f.what, hist.len(), env.op_json(hist.last().unwrap())), history_witness(env, quiet, boxed, hist));
            }
            // The reference terminal gives p=0 a well-defined meaning, so histories through a
            // cell whose placement id is 0 stay explorable; every other finding ends the branch.
            if findings.iter().any(|f| !(f.key.contains(":p0-unspecified@") || f.key.contains(":removes-other-placements@"))) {
                return None;
            }
        }
        Some(if dedup {
            // probe continuation: what the handler itself believes it has transmitted is hidden state; ask it by
            // drawing every image once more (the world is rebuilt for every history, so this costs nothing) and
            // make the answer part of the key, so that two histories are merged only if the handler, too, is in
            // the same state after them
            let mut w = w;
            let base = w.state_key();
            let mut mask = 0u32;
            for (i, im) in env.imgs.iter().enumerate() {
                let mut out = vec![];
                let handler: &mut dyn ImageHandler = &mut *w.handler;
                let _ = catch(|| handler.draw(&mut out, &im.image, Position::new(7, 7)));
                if out.windows(3).any(|x| x == b"a=t") {
                    mask |= 1 << i;
                }
            }
            hash128(&(base, mask))
        } else {
            hash128(&(quiet, boxed, hist))
        })
    })
}

// --------------------------------------------------------------------------------------------
// payload spaces: one image, fixed mini-history
// --------------------------------------------------------------------------------------------

/// A sink that takes at most `limit` bytes per `write` call.
struct ShortWriter {
    limit: usize,
    data: Vec<u8>,
}

impl std::io::Write for ShortWriter {
    fn write(&mut self, buf: &[u8]) -> std::io::Result<usize> {
        let n = buf.len().min(self.limit);
        self.data.extend_from_slice(&buf[..n]);
        Ok(n)
    }
    fn flush(&mut self) -> std::io::Result<()> {
        Ok(())
    }
}

/// draw / draw again / erase on a fresh handler into a `Vec` and into sinks that accept 1 and 7 bytes per call:
/// the bytes delivered must be the same
fn sink_check(image: &Image) -> Option<Finding> {
    let run = |limit: usize| -> Result<Vec<u8>, String> {
        let mut h = KittyImageHandler::new();
        let mut sink = ShortWriter { limit, data: vec![] };
        let pos = Position::new(1, 2);
        h.draw(&mut sink, image, pos).map_err(|e| format!("draw: {e:?}"))?;
        h.draw(&mut sink, image, Position::new(0, 1)).map_err(|e| format!("second draw: {e:?}"))?;
        h.erase(&mut sink, image, Some(pos)).map_err(|e| format!("erase: {e:?}"))?;
        h.erase(&mut sink, image, None).map_err(|e| format!("erase all: {e:?}"))?;
        Ok(sink.data)
    };
    let whole = match catch(|| run(usize::MAX)) {
        Ok(Ok(b)) => b,
        _ => return None, // judged by the history spaces
    };
    for limit in [1usize, 7] {
        match catch(|| run(limit)) {
            Err(p) => return Some(Finding { key: format!("sink:{}", p.key()), what: format!("writing to a sink that accepts {limit} byte(s) per call panicked: {}", p.message) }),
            Ok(Err(e)) => return Some(Finding { key: "sink:error".into(), what: format!("writing to a sink that accepts {limit} byte(s) per call failed: {e}") }),
            Ok(Ok(b)) => {
                if b != whole {
                    return Some(Finding {
                        key: "sink:output-depends-on-sink".into(),
                        what: format!("a sink that accepts {limit} byte(s) per write call received {} bytes, a Vec {} bytes (draw, draw, erase, erase all)", b.len(), whole.len()),
                    });
                }
            }
        }
    }
    None
}

/// A sink for very large outputs: keeps the control part of every graphics command (`ESC _ G <control> ;`) and
/// counts the payload bytes instead of storing them.
#[derive(Default)]
struct ControlSink {
    /// 0 text, 1 after ESC, 2 after ESC _, 3 inside control data, 4 inside payload, 5 payload after ESC
    state: u8,
    cur: Vec<u8>,
    controls: Vec<String>,
    payload_bytes: u64,
    /// payload bytes of commands whose terminator has been seen
    closed_payload_bytes: u64,
}

impl std::io::Write for ControlSink {
    fn write(&mut self, buf: &[u8]) -> std::io::Result<usize> {
        for &b in buf {
            self.state = match (self.state, b) {
                (0, 0x1b) => 1,
                (0, _) => 0,
                (1, b'_') => 2,
                (1, _) => 0,
                (2, b'G') => {
                    self.cur.clear();
                    3
                }
                (2, _) => 0,
                (3, b';') => {
                    self.controls.push(String::from_utf8_lossy(&self.cur).into_owned());
                    4
                }
                (3, 0x1b) => {
                    self.controls.push(String::from_utf8_lossy(&self.cur).into_owned());
                    5
                }
                (3, c) => {
                    self.cur.push(c);
                    3
                }
                (4, 0x1b) => 5,
                (4, _) => {
                    self.payload_bytes += 1;
                    4
                }
                (5, _) => {
                    self.closed_payload_bytes = self.payload_bytes;
                    0
                }
                _ => 0,
            };
        }
        Ok(buf.len())
    }
    fn flush(&mut self) -> std::io::Result<()> {
        Ok(())
    }
}

/// A first draw whose sink fails after `k` bytes (the transmission did not complete), then the same image drawn
/// again into a working sink: the placement of the second draw must refer to a transmitted image, so the second
/// draw has to carry the complete pixel data.
fn failed_draw_check(image: &Image, h: usize, w: usize) -> Option<Finding> {
    /// accepts `.0` bytes in total (recording what it accepted), then fails
    struct FailAfter(usize, ControlSink);
    impl std::io::Write for FailAfter {
        fn write(&mut self, buf: &[u8]) -> std::io::Result<usize> {
            if self.0 == 0 {
                return Err(std::io::Error::new(std::io::ErrorKind::WouldBlock, "sink is full"));
            }
            let n = buf.len().min(self.0);
            self.0 -= n;
            let _ = std::io::Write::write(&mut self.1, &buf[..n]);
            Ok(n)
        }
        fn flush(&mut self) -> std::io::Result<()> {
            Ok(())
        }
    }
    if h * w == 0 {
        return None;
    }
    let expected_payload = ((h * w * 4).div_ceil(3) * 4) as u64;
    // where a complete draw ends: the sink also fails at every offset of the last 70 bytes (inside and around the
    // placement command that follows the pixel data)
    let total = {
        let mut all = vec![];
        let mut fresh = KittyImageHandler::new();
        let _ = catch(|| fresh.draw(&mut all, image, Position::new(1, 2)));
        all.len()
    };
    let mut offsets = vec![0usize, 1, 20, 60, 4300];
    offsets.extend(total.saturating_sub(70)..total);
    for k in offsets {
        let mut handler = KittyImageHandler::new();
        let mut failing = FailAfter(k, ControlSink::default());
        let first = catch(|| handler.draw(&mut failing, image, Position::new(1, 2)).is_ok());
        match first {
            Err(p) => return Some(Finding { key: format!("failed-draw:{}", p.key()), what: format!("draw into a sink that fails after {k} bytes panicked: {}", p.message) }),
            Ok(true) => continue, // everything fitted: not a failed draw
            Ok(false) => {}
        }
        // the whole pixel data (and the end of its last command) got through before the sink failed: the image IS
        // transmitted, and "at most once per handler" means the next draw does not send the pixels again
        if failing.1.closed_payload_bytes == expected_payload {
            let mut sink = ControlSink::default();
            match catch(|| handler.draw(&mut sink, image, Position::new(1, 2)).is_ok()) {
                Err(p) => return Some(Finding { key: format!("failed-draw:{}", p.key()), what: format!("draw after a failed draw panicked: {}", p.message) }),
                Ok(false) => return Some(Finding { key: "failed-draw:second-draw-error".into(), what: format!("draw into a working sink failed after an earlier draw had failed after {k} bytes") }),
                Ok(true) => {}
            }
            if sink.payload_bytes != 0 {
                return Some(Finding {
                    key: "failed-draw:transmitted-twice".into(),
                    what: format!(
                        "the first draw of a {h}x{w} image delivered all {expected_payload} payload bytes before its sink failed after {k} bytes (inside what follows the pixel data); the next draw on the same handler transmitted {} payload bytes again",
                        sink.payload_bytes
                    ),
                });
            }
            continue;
        }
        let mut sink = ControlSink::default();
        match catch(|| handler.draw(&mut sink, image, Position::new(1, 2)).is_ok()) {
            Err(p) => return Some(Finding { key: format!("failed-draw:{}", p.key()), what: format!("draw after a failed draw panicked: {}", p.message) }),
            Ok(false) => return Some(Finding { key: "failed-draw:second-draw-error".into(), what: format!("draw into a working sink failed after an earlier draw had failed after {k} bytes") }),
            Ok(true) => {}
        }
        let puts = sink.controls.iter().filter(|c| c.split(',').any(|kv| kv == "a=p")).count();
        if puts > 0 && sink.payload_bytes != expected_payload {
            return Some(Finding {
                key: "failed-draw:placement-without-transmission".into(),
                what: format!(
                    "the first draw of a {h}x{w} image failed in the sink after {k} bytes (the image was never completely transmitted); the next draw on the same handler placed it with {} of {expected_payload} payload bytes transmitted",
                    sink.payload_bytes
                ),
            });
        }
    }
    None
}

/// A pixel buffer that is recycled: image X over a buffer is drawn, an error response evicts it, X is dropped, the
/// buffer (uniquely owned again) is repainted and wrapped into a new image Y of the same shape - same allocation,
/// same shape, other content. Y must be transmitted under its own id, placed under that id, and erased under it.
fn recycled_buffer_check() -> Vec<Finding> {
    use std::sync::Arc;
    let mut findings = vec![];
    for evict in [true, false] {
        let px = |k: usize| -> Arc<[RGBA]> { (0..6).map(|i| { let p = pixel(k + i); RGBA::new(p[0], p[1], p[2], p[3]) }).collect() };
        let mut data = px(500);
        let shape = Shape::from(Size::new(2, 3));
        let mut handler = KittyImageHandler::new();
        let r = catch(|| -> Option<String> {
            let x = Image::from_parts(data.clone(), shape);
            let mut out = vec![];
            handler.draw(&mut out, &x, Position::new(0, 0)).ok()?;
            let idx = first_cmd(&out, b'p')?.uint(b'i')? as u64;
            if evict {
                let mut said = vec![];
                handler.handle(&mut said, &TerminalEvent::KittyImage { id: idx, placement: None, error: Some("ENOENT:gone".into()) }).ok()?;
            }
            drop(x);
            let Some(slot) = Arc::get_mut(&mut data) else {
                // the handler keeps the buffer alive: it cannot be recycled, nothing to check
                return None;
            };
            for (dst, src) in slot.iter_mut().zip(px(900).iter()) {
                *dst = *src;
            }
            let y = Image::from_parts(data.clone(), shape);
            let at = Position::new(0, 1);
            let mut out = vec![];
            handler.draw(&mut out, &y, at).ok()?;
            let sent = first_cmd(&out, b't').and_then(|c| c.uint(b'i')).map(|v| v as u64);
            let put = first_cmd(&out, b'p').and_then(|c| c.uint(b'i')).map(|v| v as u64);
            let mut out = vec![];
            handler.erase(&mut out, &y, Some(at)).ok()?;
            let del = first_cmd(&out, b'd').and_then(|c| c.uint(b'i')).map(|v| v as u64);
            if put.is_none() || sent != put || del != put || put == Some(idx) {
                return Some(format!(
                    "an image drawn as i={idx}{}, dropped, its buffer repainted in place and wrapped into a new image of the same shape: the new image is transmitted as i={:?}, placed as i={:?} and erased as i={:?} (expected one id, different from {idx}, in all three)",
                    if evict { ", evicted by an error response" } else { "" }, sent, put, del
                ));
            }
            None
        });
        match r {
            Err(p) => findings.push(Finding { key: format!("recycled-buffer:{}", p.key()), what: format!("panicked: {}", p.message) }),
            Ok(Some(what)) => findings.push(Finding { key: "recycled-buffer:ids-disagree".into(), what }),
            Ok(None) => {}
        }
    }
    findings
}

/// Volume: `count` distinct opaque images of `side` x `side` pixels are drawn on one handler, then all of them
/// once more at another cell. The second round must not transmit anything ("at most once per handler"),
/// however much pixel data has gone through the handler in between.
fn volume_check(count: usize, side: usize) -> (u64, Vec<Finding>) {
    let mut findings = vec![];
    let make = |k: usize| -> Image {
        let surf = SurfaceOwned::new_with(Size::new(side, side), |p| RGBA::new((p.row % 251) as u8, (p.col % 241) as u8, k as u8, 255));
        Image::from(surf)
    };
    let images: Vec<Image> = (0..count).map(make).collect();
    let mut handler = KittyImageHandler::new();
    let mut bytes = 0u64;
    for round in 0..2 {
        for (k, img) in images.iter().enumerate() {
            let mut sink = ControlSink::default();
            match catch(|| handler.draw(&mut sink, img, Position::new(round, k)).is_ok()) {
                Err(p) => {
                    findings.push(Finding { key: format!("volume:{}", p.key()), what: format!("drawing image #{k} ({side}x{side}) panicked: {}", p.message) });
                    return (bytes, findings);
                }
                Ok(false) => {
                    findings.push(Finding { key: "volume:draw-error".into(), what: format!("drawing image #{k} ({side}x{side}) returned an error") });
                    return (bytes, findings);
                }
                Ok(true) => {}
            }
            bytes += sink.payload_bytes;
            let transmits = sink.controls.iter().filter(|c| c.split(',').any(|kv| kv == "a=t" || kv == "a=T")).count();
            let expected_payload = ((side * side * 4).div_ceil(3) * 4) as u64;
            if round == 0 && (transmits == 0 || sink.payload_bytes != expected_payload) {
                findings.push(Finding {
                    key: "volume:first-draw-not-transmitted".into(),
                    what: format!("first draw of image #{k} ({side}x{side}): {transmits} transmit command(s), {} payload bytes, expected {expected_payload}", sink.payload_bytes),
                });
                return (bytes, findings);
            }
            if round == 1 && (transmits != 0 || sink.payload_bytes != 0) {
                findings.push(Finding {
                    key: "volume:transmitted-twice".into(),
                    what: format!(
                        "image #{k} of {count} distinct {side}x{side} images was transmitted again ({} payload bytes) when drawn a second time on the same handler, after {} MiB of pixel data had gone through it",
                        sink.payload_bytes,
                        (count * side * side * 4) >> 20
                    ),
                });
                return (bytes, findings);
            }
        }
    }
    (bytes, findings)
}

const MINI: [Op; 6] = [Op::Draw(0, 1), Op::Draw(0, 1), Op::Draw(0, 2), Op::EraseAt(0, 1), Op::Draw(0, 3), Op::EraseAll(0)];

fn payload_case(h: usize, w: usize, px: Vec<[u8; 4]>) -> (Env, Vec<(usize, Finding)>, u64) {
    let mut imgs = vec![Img { name: "X".into(), h, w, image: owned(h, w, &px), px, content: 0 }];
    assign_contents(&mut imgs);
    let env = Env { set: "payload", id_of: vec![None], pid_of: vec![None; POSITIONS.len()], imgs, unknown_id: 1, unknown_pid: 1 };
    let mut world = World::new(false);
    let mut out = vec![];
    let mut sig = 0u64;
    for (n, op) in MINI.iter().enumerate() {
        for f in world.apply(&env, op) {
            // the position-related findings belong to the history space
            if !f.key.contains("p0-unspecified") {
                out.push((n, f));
            }
        }
        sig = hash64(&(sig, world.last_sig));
    }
    if let Some(f) = sink_check(&env.imgs[0].image) {
        out.push((MINI.len(), f));
    }
    if let Some(f) = failed_draw_check(&env.imgs[0].image, env.imgs[0].h, env.imgs[0].w) {
        out.push((MINI.len(), f));
    }
    (env, out, sig)
}

fn size_lattice(tier: Tier) -> Vec<(usize, usize)> {
    let mut v = vec![];
    // every pixel count around the chunk boundaries (768 px = one full chunk)
    let max_n = tier.pick(1600, 4700);
    for n in 1..=max_n {
        v.push((1, n));
    }
    for n in 2..=tier.pick(800, 1600) {
        v.push((n, 1));
    }
    for h in 2..=tier.pick(24, 48) {
        for w in 2..=tier.pick(40, 70) {
            v.push((h, w));
        }
    }
    v
}

fn size_px(h: usize, w: usize) -> Vec<[u8; 4]> {
    (0..h * w).map(|i| pixel(i + h * 3 + w)).collect()
}

pub fn run(ctx: &Ctx) -> Result<Report, String> {
    let viol = Violations::new();
    let samples = Samples::new(ctx.seed);
    let cnt = Counters {
        ops_run: AtomicU64::new(0),
        histories: AtomicU64::new(0),
        outcomes: std::sync::RwLock::new(HashSet::new()),
        q_deviation: AtomicBool::new(false),
        transmissions: AtomicU64::new(0),
    };
    let env = probe("history", &viol);
    let ops = alphabet(&env);
    let layout_env = probe("layout", &viol);
    let layout_ops: Vec<Op> = alphabet(&layout_env).into_iter().filter(|o| !matches!(o, Op::Draw(_, 3) | Op::EraseAt(_, 3) | Op::Resp { pl: PlRef::Pos(3), .. })).collect();

    // ---- histories
    let mut r = Report::new("model_checking");
    let mut states = 0u64;
    let mut transitions = 0u64;
    let mut capped = false;
    let mut parts = vec![];
    // (quiet, depth, de-duplicated, calls through the library's `impl ImageHandler for Box<T>`)
    let mut plan: Vec<(bool, usize, bool, bool)> = vec![(false, 3, false, false), (true, 2, false, true), (false, 4, true, false), (false, 4, true, true)];
    if ctx.tier == Tier::Thorough {
        plan.push((true, 3, false, false));
        plan.push((false, 6, true, false));
        plan.push((true, 5, true, true));
    }
    for (quiet, depth, dedup, boxed) in plan {
        let st = explore(ctx, &env, &ops, quiet, boxed, depth, dedup, &viol, &samples, &cnt);
        states += st.states;
        transitions += st.transitions;
        capped |= st.capped;
        parts.push(json!({
            "handler": if quiet { "KittyImageHandler::new().quiet()" } else { "KittyImageHandler::new()" },
            "called_through_box_forwarding_impl": boxed,
            "depth": depth, "deduplicated": dedup, "states": st.states, "transitions": st.transitions,
            "levels": st.levels, "pruned": st.pruned, "depth_completed": st.max_depth, "capped": st.capped,
        }));
    }

    // ---- memory layouts: every history of two operations (three in the thorough tier) over the layout image set
    {
        let depth = ctx.tier.pick(2, 3);
        let st = explore(ctx, &layout_env, &layout_ops, false, false, depth, false, &viol, &samples, &cnt);
        states += st.states;
        transitions += st.transitions;
        capped |= st.capped;
        parts.push(json!({
            "handler": "KittyImageHandler::new()", "images": "layout set", "alphabet_size": layout_ops.len(),
            "depth": depth, "deduplicated": false, "states": st.states, "transitions": st.transitions,
            "levels": st.levels, "pruned": st.pruned, "depth_completed": st.max_depth, "capped": st.capped,
        }));
    }

    // ---- logging switched on (the handler logs through `tracing`; what a log line computes is computed only when a
    // subscriber listens): every history of two operations over the history image set, boxed and direct, on this
    // thread under a subscriber that formats everything; the verdicts must be those of the silent runs (none)
    let mut logged = 0u64;
    // (the small images and the first two positions: a log line may print the whole image)
    let small = |i: &usize| [0usize, 1, 2, 4, 7].contains(i);
    let log_ops: Vec<Op> = ops
        .iter()
        .copied()
        .filter(|o| match o {
            Op::Draw(i, p) | Op::EraseAt(i, p) => small(i) && *p < 2,
            Op::EraseAll(i) => small(i),
            Op::Resp { id: IdRef::Img(i), pl, .. } => small(i) && !matches!(pl, PlRef::Pos(p) if *p >= 2),
            _ => true,
        })
        .collect();
    crate::engine::logging::with_logging(|| {
        for boxed in [false, true] {
            for a in &log_ops {
                for b in &log_ops {
                    logged += 1;
                    let hist = [*a, *b];
                    let (_, findings, prefix_bad) = run_history(&env, false, boxed, &hist);
                    if prefix_bad {
                        continue;
                    }
                    for f in findings {
                        if f.key.contains(":p0-unspecified@") || f.key.contains(":removes-other-placements@") {
                            continue;
                        }
                        let mut w = history_witness(&env, false, boxed, &hist);
                        w["logging"] = json!(true);
                        viol.add(format!("logging:{}", f.key), format!("with a tracing subscriber listening: {}", f.what), w);
                    }
                }
            }
        }
    });

    parts.push(json!({"handler": "KittyImageHandler::new(), direct and boxed", "logging": "a tracing subscriber formats every log line", "alphabet_size": log_ops.len(), "depth": 2, "histories": logged}));

    // ---- a few complete histories for the evidence file (seed only rotates which ones)
    for k in 0..6u64 {
        let pick = |m: u64, a: u64| ops[((ctx.seed.wrapping_add(k * m).wrapping_add(a)) % ops.len() as u64) as usize];
        let hist = [pick(37, 1), pick(53, 2), pick(71, 0)];
        let mut w = World::new(k % 2 == 1);
        let mut steps = vec![];
        for op in &hist {
            let f = w.apply(&env, op);
            steps.push(json!({
                "op": env.op_json(op),
                "bytes": esc(&w.last_bytes[..w.last_bytes.len().min(120)]),
                "terminal": w.last_events,
                "findings": f.iter().map(|x| x.key.clone()).collect::<Vec<_>>(),
            }));
        }
        samples.force(json!({"quiet": k % 2 == 1, "steps": steps,
            "placements_after": w.term.placements.iter().map(|p| json!([p.image, p.pid, [p.at.0, p.at.1]])).collect::<Vec<_>>()}));
    }

    // ---- single-pixel images over every value of each channel
    let base = [0x12u8, 0x34, 0x56, 0x78];
    let pixel_cases: Vec<[u8; 4]> = (0..4usize)
        .flat_map(|ch| {
            (0..=255u8).map(move |v| {
                let mut p = base;
                p[ch] = v;
                p
            })
        })
        .collect();
    let pixel_sigs: HashSet<u64> = pixel_cases
        .par_iter()
        .map(|p| {
            let (_, findings, sig) = payload_case(1, 1, vec![*p]);
            for (n, f) in findings {
                viol.add(f.key.clone(), format!("{} [single pixel {:?}, step {n}]", f.what, p), json!({"sub": "pixel", "rgba": p}));
            }
            sig
        })
        .collect();

    // ---- size lattice
    let sizes = size_lattice(ctx.tier);
    let size_sigs: HashSet<u64> = sizes
        .par_iter()
        .map(|(h, w)| {
            let (_, findings, sig) = payload_case(*h, *w, size_px(*h, *w));
            for (n, f) in findings {
                viol.add(f.key.clone(), format!("{} [image {}x{} (h x w), step {n}]", f.what, h, w), json!({"sub": "size", "h": h, "w": w}));
            }
            samples.offer(hash64(&(h, w)), || json!({"size_case": [h, w], "base64_bytes": (h * w * 4).div_ceil(3) * 4}));
            sig
        })
        .collect();
    // ---- volume: one image above 128 MiB twice; (thorough) twelve 16 MiB images twice
    let mut volume = vec![(1usize, 5800usize)];
    if ctx.tier == Tier::Thorough {
        volume.push((12, 2048));
        volume.push((40, 1024));
    }
    let mut volume_report = vec![];
    for (count, side) in volume {
        let (bytes, findings) = volume_check(count, side);
        for f in findings {
            viol.add(f.key.clone(), f.what.clone(), json!({"sub": "volume", "count": count, "side": side}));
        }
        volume_report.push(json!({"images": count, "side": side, "payload_bytes_seen": bytes}));
    }
    for f in recycled_buffer_check() {
        viol.add(f.key.clone(), f.what.clone(), json!({"sub": "recycled-buffer"}));
    }
    let extra_hist = (pixel_cases.len() + sizes.len()) as u64;
    let extra_ops = extra_hist * MINI.len() as u64;

    r.set("states", states)
        .set("transitions", transitions)
        .set("traces_validated_against_impl", cnt.histories.load(Ordering::Relaxed) + extra_hist)
        .set("operations_executed_on_real_handler", cnt.ops_run.load(Ordering::Relaxed) + extra_ops)
        .set("samples", samples.into_vec())
        .set("exhaustive", !capped)
        .set("capped", capped)
        .set("alphabet_size", ops.len())
        .set("alphabet", "28 draws (7 images x 4 cells), 28 erase(Some), 7 erase(None), 35 error responses (image x {no placement, 4 cells}), 3 error responses with unknown id / placement, 4 OK responses, 1 unrelated event")
        .set("images", env.imgs.iter().map(|i| json!({"name": i.name, "h": i.h, "w": i.w, "content_class": i.content})).collect::<Vec<_>>())
        .set("layout_images", layout_env.imgs.iter().map(|i| { let s = surf_n_term::Surface::shape(&i.image); json!({"name": i.name, "h": i.h, "w": i.w, "content_class": i.content, "start": s.start, "row_stride": s.row_stride, "col_stride": s.col_stride}) }).collect::<Vec<_>>())
        .set("learned_image_ids", env.imgs.iter().zip(&env.id_of).map(|(i, id)| json!([i.name, id])).collect::<Vec<_>>())
        .set("learned_placement_ids", POSITIONS.iter().zip(&env.pid_of).map(|(p, id)| json!([[p.0, p.1], id])).collect::<Vec<_>>())
        .set("history_spaces", parts)
        .set("distinct_op_outcomes", cnt.outcomes.read().unwrap().len())
        .set("single_pixel_images", pixel_cases.len())
        .set("single_pixel_distinct_outcomes", pixel_sigs.len())
        .set("size_lattice_images", sizes.len())
        .set("size_lattice_distinct_outcomes", size_sigs.len())
        .set("volume_histories", volume_report)
        .set("mini_history_for_payload_spaces", "draw@(0,1), draw@(0,1), draw@(1,0), erase@(0,1), draw@(65535,65535), erase(None)")
        .set("suppress_restored_in_all_histories", !cnt.q_deviation.load(Ordering::Relaxed))
        .set("raw_violations", viol.raw_count());
    if cnt.q_deviation.load(Ordering::Relaxed) {
        r.set("exhaustive", false);
        r.set("dedup_note", "a plain draw carried a q value different from the configured one: `suppress` is hidden state, the depth-4 deduplication key is not sound");
    }
    r.assume("kitty graphics protocol as documented (control keys, chunking rules, p=0 / i=0 mean 'unspecified', delete d=i with and without p)");
    r.assume("re-transmitting an id keeps the placements of that id in the reference terminal (the statement does not depend on it)");
    r.assume("the handler's only state is `imgs` and `suppress`; the deduplication key (transmitted contents, terminal images, placements with their creating draw) determines both as long as `suppress` is restored (monitored: suppress_restored_in_all_histories)");
    r.assume("image ids are content hashes: id collisions between different contents (and the id value 0) cannot be reached by enumeration and are not covered");
    r.violations = viol.into_vec();
    Ok(r)
}

pub fn replay(w: &Value) -> Result<(bool, String), String> {
    let mut text = String::new();
    let mut bad = false;
    let show = |world: &World, env: &Env, n: usize, op: &Op, f: &[Finding], text: &mut String| {
        text.push_str(&format!("step {n}: {}\n", env.op_json(op)));
        text.push_str(&format!("  bytes: {}\n", esc(&world.last_bytes[..world.last_bytes.len().min(200)])));
        for e in &world.last_events {
            text.push_str(&format!("  terminal: {e}\n"));
        }
        text.push_str(&format!(
            "  placements now: {:?}\n",
            world.term.placements.iter().map(|p| (p.image, p.pid, p.at)).collect::<Vec<_>>()
        ));
        for x in f {
            text.push_str(&format!("  VIOLATION [{}]: {}\n", x.key, x.what));
        }
    };
    match w["sub"].as_str().ok_or("sub")? {
        "history" => {
            let dummy = Violations::new();
            let env = probe(w["images"].as_str().unwrap_or("history"), &dummy);
            let quiet = w["quiet"].as_bool().unwrap_or(false);
            let boxed = w["boxed"].as_bool().unwrap_or(false);
            if w["logging"].as_bool() == Some(true) {
                let mut w2 = w.clone();
                w2["logging"] = json!(false);
                return crate::engine::logging::with_logging(|| replay(&w2));
            }
            let ops: Vec<Op> = w["ops"].as_array().ok_or("ops")?.iter().map(|o| env.op_from_json(o)).collect::<Result<_, _>>()?;
            let mut world = World::new_with(quiet, boxed);
            for (n, op) in ops.iter().enumerate() {
                let f = world.apply(&env, op);
                bad |= !f.is_empty();
                show(&world, &env, n, op, &f, &mut text);
            }
        }
        "probe" => {
            let v = Violations::new();
            let _ = probe(w["images"].as_str().unwrap_or("history"), &v);
            for x in v.into_vec() {
                bad = true;
                text.push_str(&format!("VIOLATION [{}]: {}\n", x.key, x.what));
            }
        }
        sub @ ("pixel" | "size") => {
            let (h, wd, px) = if sub == "pixel" {
                let p: Vec<u8> = w["rgba"].as_array().ok_or("rgba")?.iter().map(|v| v.as_u64().unwrap_or(0) as u8).collect();
                (1, 1, vec![[p[0], p[1], p[2], p[3]]])
            } else {
                let h = w["h"].as_u64().ok_or("h")? as usize;
                let wd = w["w"].as_u64().ok_or("w")? as usize;
                (h, wd, size_px(h, wd))
            };
            let mut imgs = vec![Img { name: "X".into(), h, w: wd, image: owned(h, wd, &px), px, content: 0 }];
            assign_contents(&mut imgs);
            let env = Env { set: "payload", id_of: vec![None], pid_of: vec![None; POSITIONS.len()], imgs, unknown_id: 1, unknown_pid: 1 };
            let mut world = World::new(false);
            for (n, op) in MINI.iter().enumerate() {
                let f: Vec<Finding> = world.apply(&env, op).into_iter().filter(|f| !f.key.contains("p0-unspecified")).collect();
                bad |= !f.is_empty();
                show(&world, &env, n, op, &f, &mut text);
            }
            if let Some(f) = sink_check(&env.imgs[0].image) {
                bad = true;
                text.push_str(&format!("  VIOLATION [{}]: {}\n", f.key, f.what));
            }
            if let Some(f) = failed_draw_check(&env.imgs[0].image, env.imgs[0].h, env.imgs[0].w) {
                bad = true;
                text.push_str(&format!("  VIOLATION [{}]: {}\n", f.key, f.what));
            }
        }
        "recycled-buffer" => {
            for f in recycled_buffer_check() {
                bad = true;
                text.push_str(&format!("  VIOLATION [{}]: {}\n", f.key, f.what));
            }
        }
        "volume" => {
            let count = w["count"].as_u64().ok_or("count")? as usize;
            let side = w["side"].as_u64().ok_or("side")? as usize;
            let (bytes, findings) = volume_check(count, side);
            text.push_str(&format!("{count} distinct {side}x{side} images drawn twice on one handler; {bytes} payload bytes seen\n"));
            for f in findings {
                bad = true;
                text.push_str(&format!("  VIOLATION [{}]: {}\n", f.key, f.what));
            }
        }
        o => return Err(format!("unknown sub-space {o}")),
    }
    text.push_str(if bad {
        "expected: every command well-formed, payload == RGBA pixels, at most one transmission per content (plus one per evicting error), puts name transmitted images, erase(img, Some(cell)) removes exactly the placement draw(img, cell) created"
    } else {
        "observed output satisfies the statement on this witness"
    });
    Ok((bad, text))
}
