//! C07 -- surface views are exact, non-aliasing windows onto their parent surface.
//!
//! Explicit-state BFS over *programs* = chains of `transpose` / `view(rows, cols)` (12 x 12
//! selector pairs, DESIGN.md) applied to base surfaces of every size h, w in 0..=5 (quick) /
//! 0..=8 (thorough) in two memory layouts (dense `SurfaceOwned`, and a padded/strided buffer
//! wrapped with the public `SurfaceView::new` / `SurfaceMutView::new`). Every cell of a base
//! holds its own coordinates. The state key is the resulting `Shape` + the base (the data slice
//! is shared, so the shape determines every future access); the search runs to the fixpoint of
//! the shape graph, so chains of any length are covered. Every transition executes the whole
//! program on the real code through four ownership paths and runs the complete access battery
//! against the list-of-lists window model (`model::window`), comparing values, *addresses* and
//! the whole parent buffer (sentinel copy) after every mutation.
//!
//! Thorough additionally replays the program set of the bases with sides <= 2 under Miri
//! (supplementary; recorded in the evidence, never the decider). `--replay` accepts either one
//! program (`{base, ops}`) or `{"program_set": {max_side, max_depth, battery_once}}`.
use crate::engine::bfs::bfs;
use crate::engine::catch;
use crate::engine::report::{Ctx, Report, Samples, Tier, Violations};
use crate::engine::util::{hash128, hash64};
use crate::model::window::{Window, SELS};
use rayon::prelude::*;
use serde_json::{json, Value};
use std::collections::HashSet;
use std::sync::atomic::{AtomicU64, Ordering};
use std::sync::Mutex;
use surf_n_term::surface::{
    Shape, Surface, SurfaceMut, SurfaceMutView, SurfaceOwned, SurfaceView,
};
use surf_n_term::{Position, Size};

/// Element type: not `Copy` on purpose (moves/clones are real operations).
#[derive(Clone, Debug, Default, PartialEq, Eq, Hash)]
pub struct E(pub u32);

const SZ: usize = std::mem::size_of::<E>();

fn code(r: usize, c: usize) -> u32 {
    1000 + 10 * r as u32 + c as u32
}
fn pad(off: usize) -> u32 {
    5000 + off as u32
}

// ---------------------------------------------------------------------------------------
// operations
// ---------------------------------------------------------------------------------------

#[derive(Clone, Copy, PartialEq, Eq, Hash, Debug)]
pub enum Op {
    T,
    V(u8, u8),
}

const NSEL: usize = SELS.len();

fn all_ops() -> Vec<Op> {
    let mut v = vec![Op::T];
    for r in 0..NSEL {
        for c in 0..NSEL {
            v.push(Op::V(r as u8, c as u8));
        }
    }
    v
}

fn op_name(op: Op) -> String {
    match op {
        Op::T => "transpose".to_string(),
        Op::V(r, c) => format!("view({}, {})", SELS[r as usize].name, SELS[c as usize].name),
    }
}

fn op_parse(s: &str) -> Option<Op> {
    all_ops().into_iter().find(|o| op_name(*o) == s)
}

/// Dispatch a selector id to a typed range expression (the library API is generic).
macro_rules! with_sel {
    ($id:expr, $x:ident, $body:expr) => {
        match $id {
            0 => {
                let $x = ..;
                $body
            }
            1 => {
                let $x = 1i32..;
                $body
            }
            2 => {
                let $x = ..-1i32;
                $body
            }
            3 => {
                let $x = 1i32..-1i32;
                $body
            }
            4 => {
                let $x = 0i32;
                $body
            }
            5 => {
                let $x = -1i32;
                $body
            }
            6 => {
                let $x = 1i32..=2i32;
                $body
            }
            7 => {
                let $x = -2i32..;
                $body
            }
            8 => {
                let $x = 5i32..;
                $body
            }
            9 => {
                let $x = 2i32..1i32;
                $body
            }
            10 => {
                let $x = ..=-9i32;
                $body
            }
            11 => {
                let $x = 1i32..=-1i32;
                $body
            }
            _ => unreachable!(),
        }
    };
}

// ---------------------------------------------------------------------------------------
// base surfaces
// ---------------------------------------------------------------------------------------

#[derive(Clone, Copy, PartialEq, Eq, Hash, Debug)]
pub enum Layout {
    Dense,
    Strided,
}

impl Layout {
    fn name(self) -> &'static str {
        match self {
            Layout::Dense => "dense",
            Layout::Strided => "strided",
        }
    }
}

#[derive(Clone, Copy, PartialEq, Eq, Hash, Debug)]
pub struct Base {
    pub h: usize,
    pub w: usize,
    pub layout: Layout,
}

const S_START: usize = 2;
const S_CS: usize = 2;

impl Base {
    fn rs(&self) -> usize {
        match self.layout {
            Layout::Dense => self.w,
            Layout::Strided => 2 * self.w + 3,
        }
    }
    fn offset(&self, r: usize, c: usize) -> usize {
        match self.layout {
            Layout::Dense => r * self.w + c,
            Layout::Strided => S_START + r * self.rs() + c * S_CS,
        }
    }
    fn buf_len(&self) -> usize {
        match self.layout {
            Layout::Dense => self.h * self.w,
            Layout::Strided => S_START + self.h * self.rs() + 3,
        }
    }
    /// shape of the strided base (dense bases get theirs from `SurfaceOwned`)
    fn strided_shape(&self) -> Shape {
        let (start, end) = if self.h * self.w == 0 {
            (S_START, S_START)
        } else {
            (S_START, self.offset(self.h - 1, self.w - 1) + 1)
        };
        Shape {
            start,
            end,
            width: self.w,
            height: self.h,
            row_stride: self.rs(),
            col_stride: S_CS,
        }
    }
    fn pristine(&self) -> Vec<E> {
        let mut v: Vec<E> = (0..self.buf_len()).map(|o| E(pad(o))).collect();
        for r in 0..self.h {
            for c in 0..self.w {
                v[self.offset(r, c)] = E(code(r, c));
            }
        }
        v
    }
    fn json(&self) -> Value {
        json!({"h": self.h, "w": self.w, "layout": self.layout.name()})
    }
}

// ---------------------------------------------------------------------------------------
// expectation derived from the model
// ---------------------------------------------------------------------------------------

struct Expect {
    h: usize,
    w: usize,
    n: usize,
    /// expected parent-buffer offset of the k-th cell in row-major order
    offs: Vec<usize>,
    /// expected value of the k-th cell
    vals: Vec<E>,
    pristine: Vec<E>,
    in_window: Vec<bool>,
}

impl Expect {
    fn new(base: &Base, win: &Window) -> Self {
        let cells = win.row_major();
        let pristine = base.pristine();
        let offs: Vec<usize> = cells.iter().map(|(r, c)| base.offset(*r, *c)).collect();
        let vals: Vec<E> = cells.iter().map(|(r, c)| E(code(*r, *c))).collect();
        let mut in_window = vec![false; pristine.len()];
        for o in &offs {
            in_window[*o] = true;
        }
        let n = cells.len();
        Expect {
            h: if n == 0 { 0 } else { win.h },
            w: if n == 0 { 0 } else { win.w },
            n,
            offs,
            vals,
            pristine,
            in_window,
        }
    }
    fn pos(&self, k: usize) -> Position {
        Position::new(k / self.w, k % self.w)
    }
    /// parent buffer after writing `f(k)` into the cells `k` for which it returns Some
    fn buf_with(&self, f: impl Fn(usize) -> Option<E>) -> Vec<E> {
        let mut b = self.pristine.clone();
        for k in 0..self.n {
            if let Some(v) = f(k) {
                b[self.offs[k]] = v;
            }
        }
        b
    }
}

#[derive(Debug, Clone)]
pub struct Finding {
    sub: &'static str,
    kind: String,
    detail: String,
}

#[derive(Default)]
struct Out {
    findings: Vec<Finding>,
    checks: u64,
}

impl Out {
    fn fail(&mut self, sub: &'static str, kind: &str, detail: String) {
        self.findings.push(Finding { sub, kind: kind.to_string(), detail });
    }
}

/// `ensure!(out, cond, sub, kind, fmt...)`: count the comparison; on failure record and leave
/// the current sub-check.
macro_rules! ensure {
    ($out:expr, $cond:expr, $sub:expr, $kind:expr, $($fmt:tt)*) => {
        $out.checks += 1;
        if !($cond) {
            $out.fail($sub, $kind, format!($($fmt)*));
            return;
        }
    };
}

fn guard(out: &mut Out, sub: &'static str, f: impl FnOnce(&mut Out)) {
    let mut local = Out::default();
    let r = catch(|| f(&mut local));
    out.checks += local.checks;
    out.findings.append(&mut local.findings);
    if let Err(p) = r {
        out.fail(
            sub,
            &format!("panic:{}", p.key()),
            format!("panicked: {} ({}:{})", p.message, p.file, p.line),
        );
    }
}

fn addr<T>(r: &T) -> usize {
    r as *const T as usize
}

// ---------------------------------------------------------------------------------------
// read-only battery
// ---------------------------------------------------------------------------------------

/// shape / size / extent / aliasing of the parent buffer. Returns false when the remaining
/// checks would only cascade.
fn chk_shape(s: &dyn Surface<Item = E>, x: &Expect, bp: usize, out: &mut Out) -> bool {
    let before = out.findings.len();
    guard(out, "shape", |out| {
        let sh = s.shape();
        if x.n == 0 {
            ensure!(out, sh.height * sh.width == 0, "shape", "cells-but-model-empty",
                "model window has no cells, library shape {:?}", sh);
        } else {
            ensure!(out, (sh.height, sh.width) == (x.h, x.w), "shape", "size",
                "model window is {}x{}, library shape {:?}", x.h, x.w, sh);
        }
        ensure!(out, s.height() == sh.height && s.width() == sh.width && s.size() == sh.size(),
            "shape", "accessors", "height()/width()/size() disagree with shape() {:?}", sh);
        ensure!(out, s.is_empty() == (x.n == 0), "shape", "is_empty",
            "is_empty() = {} for a window of {} cells (shape {:?})", s.is_empty(), x.n, sh);
        ensure!(out, s.as_ref().shape() == sh, "shape", "as_ref", "as_ref() changes the shape");
        let d = s.data();
        ensure!(out, d.as_ptr() as usize == bp && d.len() == x.pristine.len(), "data", "not-parent-buffer",
            "data() is not the parent buffer: ptr {:#x} len {} (parent {:#x} len {})",
            d.as_ptr() as usize, d.len(), bp, x.pristine.len());
    });
    if out.findings.len() != before {
        return false;
    }
    // documented meaning of the public fields: `start` = offset of the first element,
    // `end` = offset of the last element + 1
    guard(out, "shape-extent", |out| {
        if x.n > 0 {
            let sh = s.shape();
            let last = *x.offs.iter().max().unwrap();
            ensure!(out, sh.start == x.offs[0], "shape-extent", "start",
                "Shape.start = {} but the first cell of the window is at offset {} ({:?})", sh.start, x.offs[0], sh);
            ensure!(out, sh.end == last + 1, "shape-extent", "end",
                "Shape.end = {} but the last cell of the window is at offset {} (documented: last + 1 = {}); parent buffer has {} items ({:?})",
                sh.end, last, last + 1, x.pristine.len(), sh);
        }
    });
    true
}

fn probes(n: usize) -> Vec<usize> {
    let mut v: Vec<usize> = (0..=n + 1).collect();
    v.push(usize::MAX / 2 + 1);
    v.push(usize::MAX);
    v
}

fn chk_get(s: &dyn Surface<Item = E>, x: &Expect, bp: usize, out: &mut Out) {
    guard(out, "get", |out| {
        let sh = s.shape();
        for row in probes(x.h.max(sh.height)) {
            for col in probes(x.w.max(sh.width)) {
                let inside = row < x.h && col < x.w;
                let got = s.get(Position::new(row, col));
                match (inside, got) {
                    (true, Some(r)) => {
                        let k = row * x.w + col;
                        ensure!(out, addr(r) == bp + x.offs[k] * SZ, "get", "wrong-cell",
                            "get({},{}) refers to parent offset {} instead of {}", row, col,
                            (addr(r).wrapping_sub(bp)) / SZ, x.offs[k]);
                        ensure!(out, *r == x.vals[k], "get", "wrong-value",
                            "get({},{}) = {:?}, model {:?}", row, col, r, x.vals[k]);
                    }
                    (true, None) => {
                        ensure!(out, false, "get", "absent-inside", "get({},{}) = None inside a {}x{} window", row, col, x.h, x.w);
                    }
                    (false, Some(r)) => {
                        ensure!(out, false, "get", "present-outside",
                            "get({},{}) = Some({:?}) outside a {}x{} window", row, col, r, x.h, x.w);
                    }
                    (false, None) => out.checks += 1,
                }
            }
        }
    });
}

fn chk_iter(s: &dyn Surface<Item = E>, x: &Expect, bp: usize, out: &mut Out) {
    guard(out, "iter", |out| {
        let mut it = s.iter();
        for k in 0..x.n {
            ensure!(out, it.index() == k, "iter", "index", "index() = {} before item {}", it.index(), k);
            ensure!(out, it.position() == x.pos(k), "iter", "position",
                "position() = {:?} before item {} of a {}x{} window", it.position(), k, x.h, x.w);
            match it.next() {
                Some(r) => {
                    ensure!(out, addr(r) == bp + x.offs[k] * SZ, "iter", "order",
                        "item {} is parent offset {} instead of {}", k, addr(r).wrapping_sub(bp) / SZ, x.offs[k]);
                    ensure!(out, *r == x.vals[k], "iter", "value", "item {} = {:?}, model {:?}", k, r, x.vals[k]);
                }
                None => {
                    ensure!(out, false, "iter", "short", "iterator ended after {} of {} items", k, x.n);
                }
            }
        }
        ensure!(out, it.index() == x.n, "iter", "index", "index() = {} after all {} items", it.index(), x.n);
        for _ in 0..2 {
            let extra = it.next();
            ensure!(out, extra.is_none(), "iter", "long", "iterator yields {:?} after {} items", extra, x.n);
        }
        ensure!(out, s.iter().count() == x.n, "iter", "count", "iter().count() = {}, window has {} cells", s.iter().count(), x.n);
        let mut cnt = 0;
        for (k, (pos, r)) in s.iter().with_position().enumerate() {
            ensure!(out, k < x.n, "iter", "long", "with_position yields more than {} items", x.n);
            ensure!(out, pos == x.pos(k) && addr(r) == bp + x.offs[k] * SZ, "iter", "with_position",
                "with_position item {}: pos {:?} parent offset {}", k, pos, addr(r).wrapping_sub(bp) / SZ);
            cnt += 1;
        }
        ensure!(out, cnt == x.n, "iter", "count", "with_position yields {} of {} items", cnt, x.n);
    });
}

fn chk_nth(s: &dyn Surface<Item = E>, x: &Expect, bp: usize, out: &mut Out) {
    guard(out, "nth", |out| {
        for k in 0..=x.n {
            for j in 0..=(x.n - k + 1) {
                let mut it = s.iter();
                for _ in 0..k {
                    it.next();
                }
                let got = it.nth(j).map(|r| addr(r).wrapping_sub(bp) / SZ);
                let want = x.offs.get(k + j).copied();
                ensure!(out, got == want, "nth", "element",
                    "after {} items nth({}) is parent offset {:?}, model {:?}", k, j, got, want);
                if want.is_some() {
                    ensure!(out, it.index() == k + j + 1, "nth", "index", "index() = {} after nth({}) from {}", it.index(), j, k);
                }
                let got2 = it.next().map(|r| addr(r).wrapping_sub(bp) / SZ);
                let want2 = x.offs.get(k + j + 1).copied();
                ensure!(out, got2 == want2, "nth", "following",
                    "after {} items and nth({}) next() is parent offset {:?}, model {:?}", k, j, got2, want2);
            }
        }
    });
}

/// The iterator adaptors a type may override (`fold`, `try_fold`, `count`, `last`, `size_hint`, `for_each`, ...):
/// after k items taken with `next`, each must see exactly the remaining cells in order.
fn chk_adaptors(s: &dyn Surface<Item = E>, x: &Expect, bp: usize, out: &mut Out) {
    guard(out, "adaptors", |out| {
        let off = |r: &E| addr(r).wrapping_sub(bp) / SZ;
        for k in 0..=x.n {
            let want: Vec<usize> = x.offs[k..].to_vec();
            let advanced = || {
                let mut it = s.iter();
                for _ in 0..k {
                    it.next();
                }
                it
            };
            let folded = advanced().fold(Vec::new(), |mut v, r| {
                v.push(off(r));
                v
            });
            ensure!(out, folded == want, "adaptors", "fold", "after {} items fold visits parent offsets {:?}, model {:?}", k, folded, want);
            let mut each = vec![];
            advanced().for_each(|r| each.push(off(r)));
            ensure!(out, each == want, "adaptors", "for_each", "after {} items for_each visits {:?}, model {:?}", k, each, want);
            let collected: Vec<usize> = advanced().map(off).collect();
            ensure!(out, collected == want, "adaptors", "collect", "after {} items collect gives {:?}, model {:?}", k, collected, want);
            let cnt = advanced().count();
            ensure!(out, cnt == want.len(), "adaptors", "count", "after {} items count() = {}, model {}", k, cnt, want.len());
            let last = advanced().last().map(off);
            ensure!(out, last == want.last().copied(), "adaptors", "last", "after {} items last() is {:?}, model {:?}", k, last, want.last());
            let (lo, hi) = advanced().size_hint();
            ensure!(out, lo <= want.len() && hi.map_or(true, |h| h >= want.len()), "adaptors", "size_hint",
                "after {} items size_hint() = ({}, {:?}) but {} items remain", k, lo, hi, want.len());
            // try_fold family: stop at the j-th remaining item
            for j in 0..want.len() {
                let mut it = advanced();
                let found = it.find(|r| off(r) == want[j]).map(off);
                ensure!(out, found == Some(want[j]), "adaptors", "find", "after {} items find(item {}) = {:?}", k, j, found);
                let next = it.next().map(off);
                ensure!(out, next == want.get(j + 1).copied(), "adaptors", "find-then-next",
                    "after {} items and find(item {}) next() is {:?}, model {:?}", k, j, next, want.get(j + 1));
                let pos = Iterator::position(&mut advanced(), |r| off(r) == want[j]);
                ensure!(out, pos == Some(j), "adaptors", "position", "after {} items position(item {}) = {:?}", k, j, pos);
            }
            let all = advanced().all(|r| want.contains(&off(r)));
            ensure!(out, all, "adaptors", "all", "after {} items all() sees a cell outside the remaining ones", k);
        }
    });
}

fn chk_map(s: &dyn Surface<Item = E>, x: &Expect, bp: usize, out: &mut Out) {
    guard(out, "map", |out| {
        let mut calls: Vec<(Position, usize)> = vec![];
        let m = Surface::map(&s, |pos, item| {
            calls.push((pos, addr(item).wrapping_sub(bp) / SZ));
            (pos.row, pos.col, item.0)
        });
        let want_calls: Vec<(Position, usize)> = (0..x.n).map(|k| (x.pos(k), x.offs[k])).collect();
        ensure!(out, calls == want_calls, "map", "calls",
            "map called f on {:?}, model {:?}", calls, want_calls);
        if x.n > 0 {
            ensure!(out, m.shape() == Shape::from(Size::new(x.h, x.w)), "map", "shape",
                "map result shape {:?} for a {}x{} window", m.shape(), x.h, x.w);
        }
        let want: Vec<(usize, usize, u32)> = (0..x.n).map(|k| (k / x.w, k % x.w, x.vals[k].0)).collect();
        ensure!(out, m.data() == &want[..] && m.iter().count() == x.n, "map", "content",
            "map result {:?}, model {:?}", m.data(), want);
    });
    guard(out, "to_owned_surf", |out| {
        let o = s.to_owned_surf();
        if x.n > 0 {
            ensure!(out, o.shape() == Shape::from(Size::new(x.h, x.w)), "to_owned_surf", "shape",
                "copy has shape {:?} for a {}x{} window", o.shape(), x.h, x.w);
        }
        ensure!(out, o.data() == &x.vals[..] && o.iter().count() == x.n, "to_owned_surf", "content",
            "copy holds {:?}, model {:?}", o.data(), x.vals);
        let p = o.data().as_ptr() as usize;
        ensure!(out, x.n == 0 || p + x.n * SZ <= bp || p >= bp + x.pristine.len() * SZ, "to_owned_surf", "aliases-parent",
            "copy lives inside the parent buffer");
    });
}

fn chk_untouched(s: &dyn Surface<Item = E>, x: &Expect, sub: &'static str, out: &mut Out) {
    guard(out, sub, |out| cmp_buf(s.data(), &x.pristine, x, sub, "after read-only access", out));
}

fn cmp_buf(got: &[E], want: &[E], x: &Expect, sub: &'static str, what: &str, out: &mut Out) {
    out.checks += 1;
    if got == want {
        return;
    }
    if got.len() != want.len() {
        out.fail(sub, "buffer-length", format!("{what}: parent buffer has {} items, expected {}", got.len(), want.len()));
        return;
    }
    // outside-window damage first (the stronger statement)
    let idx = (0..got.len())
        .find(|i| got[*i] != want[*i] && !x.in_window[*i])
        .or_else(|| (0..got.len()).find(|i| got[*i] != want[*i]))
        .unwrap();
    let kind = if x.in_window[idx] { "window-cell-wrong" } else { "outside-window-changed" };
    out.fail(
        sub,
        kind,
        format!("{what}: parent offset {} holds {:?}, model {:?} (window offsets {:?})", idx, got[idx], want[idx], x.offs),
    );
}

fn read_battery(s: &dyn Surface<Item = E>, x: &Expect, bp: usize, out: &mut Out) -> bool {
    if !chk_shape(s, x, bp, out) {
        return false;
    }
    chk_get(s, x, bp, out);
    chk_iter(s, x, bp, out);
    chk_nth(s, x, bp, out);
    chk_adaptors(s, x, bp, out);
    chk_map(s, x, bp, out);
    chk_untouched(s, x, "read-untouched", out);
    true
}

// ---------------------------------------------------------------------------------------
// mutable battery
// ---------------------------------------------------------------------------------------

fn restore(s: &mut dyn SurfaceMut<Item = E>, x: &Expect) {
    let d = s.data_mut();
    if d.len() == x.pristine.len() {
        d.clone_from_slice(&x.pristine);
    }
}

fn mut_battery(s: &mut dyn SurfaceMut<Item = E>, x: &Expect, bp: usize, out: &mut Out) {
    {
        let r: &dyn SurfaceMut<Item = E> = &*s;
        let before = out.findings.len();
        if !read_battery(r, x, bp, out) || out.findings.len() != before {
            // a wrong window already shows in the read-only battery; the mutations would
            // only repeat the same root cause under more keys
            return;
        }
    }

    // get_mut: every position of the window and the ring around it
    guard(out, "get_mut", |out| {
        let sh = s.shape();
        for row in probes(x.h.max(sh.height)) {
            for col in probes(x.w.max(sh.width)) {
                let inside = row < x.h && col < x.w;
                let got = s.get_mut(Position::new(row, col));
                match (inside, got) {
                    (true, Some(r)) => {
                        let k = row * x.w + col;
                        ensure!(out, addr(r) == bp + x.offs[k] * SZ, "get_mut", "wrong-cell",
                            "get_mut({},{}) refers to parent offset {} instead of {}", row, col,
                            addr(r).wrapping_sub(bp) / SZ, x.offs[k]);
                        *r = E(7000 + k as u32);
                    }
                    (true, None) => {
                        ensure!(out, false, "get_mut", "absent-inside", "get_mut({},{}) = None inside a {}x{} window", row, col, x.h, x.w);
                    }
                    (false, Some(r)) => {
                        ensure!(out, false, "get_mut", "present-outside",
                            "get_mut({},{}) = Some({:?}) outside a {}x{} window", row, col, r, x.h, x.w);
                    }
                    (false, None) => out.checks += 1,
                }
            }
        }
        cmp_buf(s.data(), &x.buf_with(|k| Some(E(7000 + k as u32))), x, "get_mut", "after writing through get_mut", out);
    });
    restore(s, x);

    // set
    guard(out, "set", |out| {
        for k in 0..x.n {
            let old = s.set(x.pos(k), E(7100 + k as u32));
            ensure!(out, old == x.vals[k], "set", "returned", "set({:?}) returned {:?}, model {:?}", x.pos(k), old, x.vals[k]);
        }
        cmp_buf(s.data(), &x.buf_with(|k| Some(E(7100 + k as u32))), x, "set", "after set on every cell", out);
    });
    restore(s, x);

    // iter_mut: addresses, all references alive at once
    guard(out, "iter_mut", |out| {
        {
            let mut it = s.iter_mut();
            let mut refs: Vec<&mut E> = Vec::new();
            for k in 0..x.n {
                ensure!(out, it.index() == k, "iter_mut", "index", "index() = {} before item {}", it.index(), k);
                ensure!(out, it.position() == x.pos(k), "iter_mut", "position",
                    "position() = {:?} before item {} of a {}x{} window", it.position(), k, x.h, x.w);
                match it.next() {
                    Some(r) => refs.push(r),
                    None => {
                        ensure!(out, false, "iter_mut", "short", "iterator ended after {} of {} items", k, x.n);
                    }
                }
            }
            for _ in 0..2 {
                let extra = it.next().map(|r| addr(r).wrapping_sub(bp) / SZ);
                ensure!(out, extra.is_none(), "iter_mut", "long", "iterator yields parent offset {:?} after {} items", extra, x.n);
            }
            let got: Vec<usize> = refs.iter().map(|r| addr(&**r).wrapping_sub(bp) / SZ).collect();
            let mut uniq = got.clone();
            uniq.sort();
            uniq.dedup();
            ensure!(out, uniq.len() == got.len(), "iter_mut", "aliasing",
                "two live &mut refer to the same cell: parent offsets {:?}", got);
            ensure!(out, got.iter().all(|o| *o < x.in_window.len() && x.in_window[*o]) && refs.iter().all(|r| (addr(&**r).wrapping_sub(bp)) % SZ == 0),
                "iter_mut", "outside-window", "&mut to parent offsets {:?}, window is {:?}", got, x.offs);
            ensure!(out, got == x.offs, "iter_mut", "order", "&mut in order {:?}, model (row-major) {:?}", got, x.offs);
            for (k, r) in refs.iter_mut().enumerate() {
                **r = E(7200 + k as u32);
            }
            for (k, r) in refs.iter().enumerate() {
                ensure!(out, r.0 == 7200 + k as u32, "iter_mut", "aliasing", "write through reference {} was overwritten: {:?}", k, r);
            }
        }
        cmp_buf(s.data(), &x.buf_with(|k| Some(E(7200 + k as u32))), x, "iter_mut", "after writing through iter_mut", out);
        let mut cnt = 0;
        for (k, (pos, r)) in s.iter_mut().with_position().enumerate() {
            ensure!(out, k < x.n, "iter_mut", "long", "with_position yields more than {} items", x.n);
            ensure!(out, pos == x.pos(k) && addr(r) == bp + x.offs[k] * SZ, "iter_mut", "with_position",
                "with_position item {}: pos {:?} parent offset {}", k, pos, addr(r).wrapping_sub(bp) / SZ);
            cnt += 1;
        }
        ensure!(out, cnt == x.n && s.iter_mut().count() == x.n, "iter_mut", "count", "iter_mut yields {} of {} items", cnt, x.n);
    });
    restore(s, x);

    // nth on the mutable iterator
    guard(out, "nth_mut", |out| {
        for k in 0..=x.n {
            for j in 0..=(x.n - k + 1) {
                {
                    let mut it = s.iter_mut();
                    for _ in 0..k {
                        it.next();
                    }
                    let r = it.nth(j);
                    let got = r.as_ref().map(|r| addr(&**r).wrapping_sub(bp) / SZ);
                    let want = x.offs.get(k + j).copied();
                    ensure!(out, got == want, "nth_mut", "element",
                        "after {} items nth({}) is parent offset {:?}, model {:?}", k, j, got, want);
                    if let Some(r) = r {
                        *r = E(7300);
                        ensure!(out, it.index() == k + j + 1, "nth_mut", "index", "index() = {} after nth({}) from {}", it.index(), j, k);
                    }
                    let got2 = it.next().map(|r| addr(r).wrapping_sub(bp) / SZ);
                    let want2 = x.offs.get(k + j + 1).copied();
                    ensure!(out, got2 == want2, "nth_mut", "following",
                        "after {} items and nth({}) next() is parent offset {:?}, model {:?}", k, j, got2, want2);
                }
                let before = out.findings.len();
                cmp_buf(s.data(), &x.buf_with(|i| (i == k + j).then_some(E(7300))), x, "nth_mut", "after writing through nth", out);
                if out.findings.len() != before {
                    return;
                }
                if k + j < x.n {
                    let o = x.offs[k + j];
                    s.data_mut()[o] = x.pristine[o].clone();
                }
            }
        }
    });
    restore(s, x);

    // fill
    guard(out, "fill", |out| {
        s.fill(E(7400));
        cmp_buf(s.data(), &x.buf_with(|_| Some(E(7400))), x, "fill", "after fill", out);
    });
    restore(s, x);

    // fill_with
    guard(out, "fill_with", |out| {
        let mut calls: Vec<(Position, E)> = vec![];
        {
            let mut sm: &mut dyn SurfaceMut<Item = E> = &mut *s;
            SurfaceMut::fill_with(&mut sm, |pos, old| {
                calls.push((pos, old));
                E(7500 + calls.len() as u32 - 1)
            });
        }
        let want: Vec<(Position, E)> = (0..x.n).map(|k| (x.pos(k), x.vals[k].clone())).collect();
        ensure!(out, calls == want, "fill_with", "calls", "fill_with called f with {:?}, model {:?}", calls, want);
        cmp_buf(s.data(), &x.buf_with(|k| Some(E(7500 + k as u32))), x, "fill_with", "after fill_with", out);
    });
    restore(s, x);

    // clear
    guard(out, "clear", |out| {
        s.clear();
        cmp_buf(s.data(), &x.buf_with(|_| Some(E::default())), x, "clear", "after clear", out);
    });
    restore(s, x);

    // insert at every offset, several lengths
    guard(out, "insert", |out| {
        for k in 0..=x.n {
            let pos = if k < x.n { x.pos(k) } else { Position::new(x.h, 0) };
            let mut lens = vec![0usize, 1, 2, x.n - k, x.n + 2];
            lens.sort();
            lens.dedup();
            for len in lens {
                {
                    let mut sm: &mut dyn SurfaceMut<Item = E> = &mut *s;
                    SurfaceMut::insert(&mut sm, pos, (0..len).map(|i| E(7600 + i as u32)));
                }
                let before = out.findings.len();
                cmp_buf(
                    s.data(),
                    &x.buf_with(|i| (i >= k && i < k + len).then(|| E(7600 + (i - k) as u32))),
                    x,
                    "insert",
                    &format!("after insert of {} items at {:?}", len, pos),
                    out,
                );
                if out.findings.len() != before {
                    return;
                }
                restore(s, x);
            }
        }
    });
    restore(s, x);

    guard(out, "as_mut", |out| {
        let sh = s.shape();
        ensure!(out, s.as_mut().shape() == sh, "shape", "as_mut", "as_mut() changes the shape");
    });
    chk_untouched(&*s, x, "final-untouched", out);
}

// ---------------------------------------------------------------------------------------
// the four ownership paths
// ---------------------------------------------------------------------------------------

pub const PATHS: [&str; 6] = [
    "view(&S)",
    "view_mut",
    "view_owned(&mut S)",
    "view_owned(Box<dyn SurfaceMut>)",
    "method calls on the concrete owned-view types",
    "the result held behind &S, &mut S, Arc<S> and Box<S> (the library's forwarding implementations)",
];

/// longest chain the statically typed path is expanded for (2^n monomorphic copies of the battery call)
pub const CONCRETE_MAX: usize = 4;

fn finish_concrete<S: SurfaceMut<Item = E>>(mut s: S, k: &mut dyn FnMut(&mut dyn SurfaceMut<Item = E>)) {
    k(&mut s)
}

/// what a wrapper hands to the battery
enum Held<'a> {
    Ref(&'static str, &'a dyn Surface<Item = E>),
    Mut(&'static str, &'a mut dyn SurfaceMut<Item = E>),
}

/// The finished view behind each of the pointer types the library implements its traits for: the trait object
/// the battery receives is the WRAPPER's implementation (`<Box<S> as Surface>::width` and so on).
fn finish_wrapped<S: SurfaceMut<Item = E>>(mut s: S, k: &mut dyn FnMut(Held<'_>)) {
    {
        let w: &S = &s;
        k(Held::Ref("&S", &w));
    }
    {
        let mut w: &mut S = &mut s;
        k(Held::Mut("&mut S", &mut w));
    }
    let mut boxed: Box<S> = Box::new(s);
    k(Held::Mut("Box<S>", &mut boxed));
    let shared: std::sync::Arc<S> = std::sync::Arc::new(*boxed);
    k(Held::Ref("Arc<S>", &shared));
}

macro_rules! wrapped_chain {
    ($s:expr, $ops:expr, $k:expr;) => {{
        let s = $s;
        assert!($ops.is_empty());
        finish_wrapped(s, $k)
    }};
    ($s:expr, $ops:expr, $k:expr; $lvl:tt $($rest:tt)*) => {{
        let s = $s;
        match $ops.split_first() {
            None => finish_wrapped(s, $k),
            Some((Op::T, rest)) => {
                let v = s.transpose();
                wrapped_chain!(v, rest, $k; $($rest)*)
            }
            Some((Op::V(r, c), rest)) => {
                let v = with_sel!(*r, rs, with_sel!(*c, cs, s.view_owned(rs, cs)));
                wrapped_chain!(v, rest, $k; $($rest)*)
            }
        }
    }};
}

/// The chain written the way a caller writes it: `s.transpose().view_owned(a, b).transpose()` on values of
/// the concrete types, so that method resolution (inherent methods of the view types included) is the
/// caller's, not the trait object's. No type is named: whatever the calls return is passed on.
macro_rules! concrete_chain {
    ($s:expr, $ops:expr, $k:expr;) => {{
        let s = $s;
        assert!($ops.is_empty());
        finish_concrete(s, $k)
    }};
    ($s:expr, $ops:expr, $k:expr; $lvl:tt $($rest:tt)*) => {{
        let s = $s;
        match $ops.split_first() {
            None => finish_concrete(s, $k),
            Some((Op::T, rest)) => {
                let v = s.transpose();
                concrete_chain!(v, rest, $k; $($rest)*)
            }
            Some((Op::V(r, c), rest)) => {
                let v = with_sel!(*r, rs, with_sel!(*c, cs, s.view_owned(rs, cs)));
                concrete_chain!(v, rest, $k; $($rest)*)
            }
        }
    }};
}

fn chain_ref(s: &dyn Surface<Item = E>, ops: &[Op], k: &mut dyn FnMut(&dyn Surface<Item = E>)) {
    match ops.split_first() {
        None => k(s),
        Some((Op::T, rest)) => {
            let v = Surface::transpose(s);
            chain_ref(&v, rest, k)
        }
        Some((Op::V(r, c), rest)) => {
            let v: SurfaceView<'_, E> = with_sel!(*r, rs, with_sel!(*c, cs, Surface::view(&s, rs, cs)));
            chain_ref(&v, rest, k)
        }
    }
}

fn chain_mut<'a>(
    mut s: &'a mut (dyn SurfaceMut<Item = E> + 'a),
    ops: &[Op],
    owned: bool,
    k: &mut dyn FnMut(&mut dyn SurfaceMut<Item = E>),
) {
    match ops.split_first() {
        None => k(s),
        Some((Op::T, rest)) => {
            let mut v = Surface::transpose(s);
            chain_mut(&mut v, rest, owned, k)
        }
        Some((Op::V(r, c), rest)) => {
            if owned {
                let mut v = with_sel!(*r, rs, with_sel!(*c, cs, Surface::view_owned(s, rs, cs)));
                chain_mut(&mut v, rest, owned, k)
            } else {
                let mut v: SurfaceMutView<'_, E> =
                    with_sel!(*r, rs, with_sel!(*c, cs, SurfaceMut::view_mut(&mut s, rs, cs)));
                chain_mut(&mut v, rest, owned, k)
            }
        }
    }
}

fn chain_box<'a>(root: Box<dyn SurfaceMut<Item = E> + 'a>, ops: &[Op]) -> Box<dyn SurfaceMut<Item = E> + 'a> {
    let mut b = root;
    for op in ops {
        b = match op {
            Op::T => Box::new(Surface::transpose(b)),
            Op::V(r, c) => with_sel!(*r, rs, with_sel!(*c, cs, {
                let v: Box<dyn SurfaceMut<Item = E> + 'a> = Box::new(Surface::view_owned(b, rs, cs));
                v
            })),
        };
    }
    b
}

fn dense_root(base: &Base) -> SurfaceOwned<E> {
    SurfaceOwned::new_with(Size::new(base.h, base.w), |p| E(code(p.row, p.col)))
}

/// Run `ops` on a fresh base through ownership path `path`, run the battery on the result.
fn run_path(base: &Base, ops: &[Op], path: usize, x: &Expect, battery: bool, out: &mut Out) -> Option<Shape> {
    let mut shape: Option<Shape> = None;
    let r = catch(|| {
        let mut buf = x.pristine.clone();
        let bp_strided = buf.as_ptr() as usize;
        let mut k_ref = |s: &dyn Surface<Item = E>, bp: usize, out: &mut Out| {
            shape = Some(s.shape());
            if battery {
                read_battery(s, x, bp, out);
            }
        };
        match (path, base.layout) {
            (0, Layout::Dense) => {
                let root = dense_root(base);
                let bp = root.data().as_ptr() as usize;
                chain_ref(&root, ops, &mut |s| k_ref(s, bp, out));
            }
            (0, Layout::Strided) => {
                let root = SurfaceView::new(base.strided_shape(), &buf[..]);
                chain_ref(&root, ops, &mut |s| k_ref(s, bp_strided, out));
            }
            (1 | 2, Layout::Dense) => {
                let mut root = dense_root(base);
                let bp = root.data().as_ptr() as usize;
                chain_mut(&mut root, ops, path == 2, &mut |s| {
                    shape = Some(s.shape());
                    if battery {
                        mut_battery(s, x, bp, out)
                    }
                });
            }
            (1 | 2, Layout::Strided) => {
                let mut root = SurfaceMutView::new(base.strided_shape(), &mut buf[..]);
                chain_mut(&mut root, ops, path == 2, &mut |s| {
                    shape = Some(s.shape());
                    if battery {
                        mut_battery(s, x, bp_strided, out)
                    }
                });
            }
            (3, Layout::Dense) => {
                let root = dense_root(base);
                let bp = root.data().as_ptr() as usize;
                let mut b = chain_box(Box::new(root), ops);
                shape = Some(b.shape());
                if battery {
                    mut_battery(&mut *b, x, bp, out);
                }
            }
            (3, Layout::Strided) => {
                let root = SurfaceMutView::new(base.strided_shape(), &mut buf[..]);
                let mut b = chain_box(Box::new(root), ops);
                shape = Some(b.shape());
                if battery {
                    mut_battery(&mut *b, x, bp_strided, out);
                }
            }
            (4, Layout::Dense) => {
                let root = dense_root(base);
                let bp = root.data().as_ptr() as usize;
                concrete_chain!(root, ops, &mut |s: &mut dyn SurfaceMut<Item = E>| {
                    shape = Some(s.shape());
                    if battery {
                        mut_battery(s, x, bp, out)
                    }
                }; a b c d);
            }
            (4, Layout::Strided) => {
                let root = SurfaceMutView::new(base.strided_shape(), &mut buf[..]);
                concrete_chain!(root, ops, &mut |s: &mut dyn SurfaceMut<Item = E>| {
                    shape = Some(s.shape());
                    if battery {
                        mut_battery(s, x, bp_strided, out)
                    }
                }; a b c d);
            }
            (5, layout) => {
                let mut held = |h: Held<'_>, bp: usize, out: &mut Out| {
                    let before = out.findings.len();
                    let name = match h {
                        Held::Ref(name, s) => {
                            shape = Some(s.shape());
                            if battery {
                                read_battery(s, x, bp, out);
                            }
                            name
                        }
                        Held::Mut(name, s) => {
                            shape = Some(s.shape());
                            if battery {
                                restore(s, x);
                                mut_battery(s, x, bp, out);
                                restore(s, x);
                            }
                            name
                        }
                    };
                    for f in &mut out.findings[before..] {
                        f.kind = format!("{}:behind {}", f.kind, name);
                    }
                };
                match layout {
                    Layout::Dense => {
                        let root = dense_root(base);
                        let bp = root.data().as_ptr() as usize;
                        wrapped_chain!(root, ops, &mut |h: Held<'_>| held(h, bp, out); a b c d);
                    }
                    Layout::Strided => {
                        let root = SurfaceMutView::new(base.strided_shape(), &mut buf[..]);
                        wrapped_chain!(root, ops, &mut |h: Held<'_>| held(h, bp_strided, out); a b c d);
                    }
                }
            }
            _ => unreachable!(),
        }
    });
    if let Err(p) = r {
        out.fail(
            "chain",
            &format!("panic:{}", p.key()),
            format!("building the view chain panicked: {} ({}:{})", p.message, p.file, p.line),
        );
    }
    shape
}

/// Shape reached by `ops` through the `view(&S)` path only, no battery.
fn probe_shape(base: &Base, ops: &[Op]) -> Option<Shape> {
    let mut shape = None;
    let _ = catch(|| match base.layout {
        Layout::Dense => {
            let root = dense_root(base);
            chain_ref(&root, ops, &mut |s| shape = Some(s.shape()));
        }
        Layout::Strided => {
            let buf = base.pristine();
            let root = SurfaceView::new(base.strided_shape(), &buf[..]);
            chain_ref(&root, ops, &mut |s| shape = Some(s.shape()));
        }
    });
    shape
}

pub struct ProgramResult {
    pub shape: Option<Shape>,
    pub window: Window,
    /// (path index, finding)
    pub findings: Vec<(usize, Finding)>,
    pub checks: u64,
}

pub fn model_window(base: &Base, ops: &[Op]) -> Window {
    let mut win = Window::base(base.h, base.w);
    for op in ops {
        win = match op {
            Op::T => win.transpose(),
            Op::V(r, c) => win.view(SELS[*r as usize], SELS[*c as usize]),
        };
    }
    win
}

pub fn check_program(base: &Base, ops: &[Op]) -> ProgramResult {
    check_program_opt(base, ops, true)
}

/// `battery = false`: only build the chain through the four ownership paths and compare the
/// resulting shapes (used to de-duplicate states in the sequential program-set replay).
pub fn check_program_opt(base: &Base, ops: &[Op], battery: bool) -> ProgramResult {
    let window = model_window(base, ops);
    let x = Expect::new(base, &window);
    let mut findings = vec![];
    let mut checks = 0;
    let mut shapes: Vec<Option<Shape>> = vec![];
    for path in 0..PATHS.len() {
        if path >= 4 && ops.len() > CONCRETE_MAX {
            continue;
        }
        let mut out = Out::default();
        let sh = run_path(base, ops, path, &x, battery, &mut out);
        shapes.push(sh);
        checks += out.checks;
        findings.extend(out.findings.into_iter().map(|f| (path, f)));
    }
    checks += 1;
    if shapes.iter().any(|s| *s != shapes[0]) && findings.iter().all(|(_, f)| f.sub != "chain") {
        findings.push((
            0,
            Finding {
                sub: "paths",
                kind: "shape-differs".into(),
                detail: format!("ownership paths disagree on the resulting shape: {:?}", shapes),
            },
        ));
    }
    ProgramResult { shape: shapes[0], window, findings, checks }
}

fn witness(base: &Base, ops: &[Op], path: usize) -> Value {
    json!({
        "base": base.json(),
        "ops": ops.iter().map(|o| op_name(*o)).collect::<Vec<_>>(),
        "path": PATHS[path],
    })
}

// ---------------------------------------------------------------------------------------
// driver
// ---------------------------------------------------------------------------------------

pub fn run(ctx: &Ctx) -> Result<Report, String> {
    let ops = all_ops();
    // the shape graph closes (fixpoint) well below this bound in both tiers
    let max_depth: usize = 12;
    let max_side: usize = ctx.tier.pick(5, 8);
    let viol = Violations::new();
    let samples = Samples::new(ctx.seed);
    let picked: Mutex<Vec<(u64, Value)>> = Mutex::new(vec![]);
    let checks = AtomicU64::new(0);
    let programs = AtomicU64::new(0);
    let windows: Mutex<HashSet<(Base, Window)>> = Mutex::new(HashSet::new());
    let shapes_seen: Mutex<HashSet<(Base, Shape)>> = Mutex::new(HashSet::new());

    let mut bases = vec![];
    for layout in [Layout::Dense, Layout::Strided] {
        for h in 0..=max_side {
            for w in 0..=max_side {
                bases.push(Base { h, w, layout });
            }
        }
    }

    let stats: Vec<_> = bases
        .par_iter()
        .map(|base| {
            bfs(ctx, &ops, max_depth, |hist: &[Op]| {
                let res = check_program(base, hist);
                checks.fetch_add(res.checks, Ordering::Relaxed);
                programs.fetch_add(1, Ordering::Relaxed);
                if !res.findings.is_empty() {
                    for (path, f) in &res.findings {
                        viol.add(
                            format!("{}:{}", f.sub, f.kind),
                            format!(
                                "{}x{} {} base, [{}] via {}: {}",
                                base.h,
                                base.w,
                                base.layout.name(),
                                hist.iter().map(|o| op_name(*o)).collect::<Vec<_>>().join(", "),
                                PATHS[*path],
                                f.detail
                            ),
                            witness(base, hist, *path),
                        );
                    }
                    return None;
                }
                let shape = res.shape?;
                let hh = hash64(&(base, hist));
                if hist.len() >= 2 && !res.window.is_empty() && hh % 30011 == ctx.seed % 30011 {
                    picked.lock().unwrap().push((hh, json!({
                        "base": base.json(),
                        "ops": hist.iter().map(|o| op_name(*o)).collect::<Vec<_>>(),
                        "shape": format!("{:?}", shape),
                        "model_window": res.window.cells,
                    })));
                }
                windows.lock().unwrap().insert((*base, res.window));
                shapes_seen.lock().unwrap().insert((*base, shape));
                Some(hash128(&(base, shape)))
            })
        })
        .collect();

    let states: u64 = stats.iter().map(|s| s.states).sum();
    let transitions: u64 = stats.iter().map(|s| s.transitions).sum();
    let pruned: u64 = stats.iter().map(|s| s.pruned).sum();
    let fixpoint = stats.iter().all(|s| s.fixpoint);
    let capped = stats.iter().any(|s| s.capped);
    let depth_reached = stats.iter().map(|s| s.max_depth).max().unwrap_or(0);
    let mut levels: Vec<u64> = vec![];
    for s in &stats {
        for (i, l) in s.levels.iter().enumerate() {
            if levels.len() <= i {
                levels.push(0);
            }
            levels[i] += l;
        }
    }
    let wins = windows.into_inner().unwrap();
    let nonempty = wins.iter().filter(|(_, w)| !w.is_empty()).count();
    let shapes = shapes_seen.into_inner().unwrap();
    let transposed = shapes.iter().filter(|(_, s)| s.col_stride > s.row_stride && s.height * s.width > 1).count();

    let mut picked = picked.into_inner().unwrap();
    picked.sort_by_key(|(h, _)| *h);
    for (_, v) in picked.into_iter().take(8) {
        samples.force(v);
    }
    let mut r = Report::new("model_checking");
    r.set("states", states)
        .set("transitions", transitions)
        .set("traces_validated_against_impl", programs.load(Ordering::Relaxed))
        .set("samples", samples.into_vec())
        .set("exhaustive", !capped)
        .set("capped", capped)
        .set("fixpoint", fixpoint)
        .set("max_depth_bound", max_depth)
        .set("depth_reached", depth_reached)
        .set("levels", levels)
        .set("pruned_transitions", pruned)
        .set("bases", bases.len())
        .set("max_base_side", max_side)
        .set("ops_per_state", ops.len())
        .set("ownership_paths", PATHS.len())
        .set("oracle_comparisons", checks.load(Ordering::Relaxed))
        .set("distinct_shapes", shapes.len())
        .set("distinct_model_windows", wins.len())
        .set("distinct_nonempty_windows", nonempty)
        .set("distinct_column_major_shapes", transposed)
        .set("raw_violations", viol.raw_count())
        .set(
            "state_space",
            "state = (base size, layout, resulting Shape); ops = transpose + view(r, c) for the 12x12 selector pairs; \
             every transition re-executes the whole program on a fresh base through the four ownership paths and runs the \
             full access battery (get/get_mut incl. ring and usize::MAX probes, iter, with_position, nth, iter_mut with \
             live references and addresses, nth on iter_mut, set, fill, fill_with, clear, insert at every offset, map, \
             to_owned_surf, parent buffer compared with a sentinel copy after every mutation)",
        );
    r.assume("an empty selection on either axis denotes the window without cells; the library's reported height/width of an empty window is not compared (it normalises to 0x0), only that it has no cells");
    r.assume("Shape.start / Shape.end are checked against their field documentation: offset of the first cell / offset of the last cell + 1");
    r.assume("range resolution itself is C08's subject; the model resolves selectors with model::slice::resolve (validated against CPython by C08)");
    r.assume("position()/index() of an exhausted iterator and insert() at a position with col >= width are outside the statement and not checked");
    if ctx.tier == Tier::Thorough {
        miri_replay(ctx, &mut r);
    }
    r.violations = viol.into_vec();
    Ok(r)
}

/// Supplementary UB detector (never the decider): replays the program set of the small bases
/// under `cargo +nightly miri run` (Stacked Borrows on the `unsafe` mutable iterator). The result
/// goes into the evidence only; a missing toolchain or a timeout is recorded, nothing more.
fn miri_replay(_ctx: &Ctx, r: &mut Report) {
    use std::process::{Command, Stdio};
    if std::env::var("SNT_MIRI").as_deref() == Ok("0") {
        r.set("miri", json!({"status": "skipped (SNT_MIRI=0)"}));
        return;
    }
    let manifest_dir = env!("CARGO_MANIFEST_DIR");
    let spec = json!({"witness": {"program_set": {"max_side": 2, "max_depth": 2, "battery_once": true}}});
    let dir = crate::engine::workers::tmp_dir();
    let file = format!("{dir}/c07-miri-set-{}.json", std::process::id());
    if std::fs::write(&file, spec.to_string()).is_err() {
        r.set("miri", json!({"status": "not run: cannot write the program-set file"}));
        return;
    }
    let log = format!("{dir}/c07-miri-{}.log", std::process::id());
    let t0 = std::time::Instant::now();
    let budget: u64 = std::env::var("SNT_MIRI_BUDGET_S").ok().and_then(|s| s.parse().ok()).unwrap_or(600);
    let out = std::fs::File::create(&log).ok();
    let child = out.and_then(|f| {
        let f2 = f.try_clone().ok()?;
        Command::new("cargo")
            .args(["+nightly", "miri", "run", "--offline", "--", "C07", "--replay", &file])
            .current_dir(manifest_dir)
            .env("MIRIFLAGS", "-Zmiri-disable-isolation")
            .stdin(Stdio::null())
            .stdout(Stdio::from(f))
            .stderr(Stdio::from(f2))
            .spawn()
            .ok()
    });
    let mut child = match child {
        Some(c) => c,
        None => {
            r.set("miri", json!({"status": "not run: cargo +nightly miri could not be started"}));
            return;
        }
    };
    let status = loop {
        match child.try_wait() {
            Ok(Some(st)) => break Some(st),
            Ok(None) => {
                if t0.elapsed().as_secs() > budget {
                    let _ = child.kill();
                    let _ = child.wait();
                    break None;
                }
                std::thread::sleep(std::time::Duration::from_millis(500));
            }
            Err(_) => break None,
        }
    };
    let text = std::fs::read_to_string(&log).unwrap_or_default();
    let summary = text.lines().find(|l| l.starts_with("PROGRAM-SET")).unwrap_or("").to_string();
    let ub = text.contains("Undefined Behavior");
    let first_error: String = text.lines().find(|l| l.starts_with("error")).unwrap_or("").chars().take(300).collect();
    let st = match (&status, ub) {
        (_, true) => "UNDEFINED BEHAVIOUR REPORTED".to_string(),
        (None, _) => format!("timed out after {budget}s (no verdict)"),
        (Some(s), _) if s.success() => "clean".to_string(),
        (Some(s), _) => format!("miri run ended with {s} (no verdict)"),
    };
    if ub {
        eprintln!("NOTE C07: miri reported undefined behaviour (supplementary detector, not a verdict): {first_error}; log {log}");
    }
    r.set(
        "miri",
        json!({
            "status": st,
            "ub_reported": ub,
            "program_set": summary,
            "first_error": first_error,
            "wall_s": t0.elapsed().as_secs(),
            "log": log,
            "cmd": "MIRIFLAGS=-Zmiri-disable-isolation cargo +nightly miri run --offline -- C07 --replay <program-set>",
        }),
    );
    let _ = std::fs::remove_file(&file);
}

/// Sequential re-execution of a whole program set (every program of the shape graph of the
/// bases with sides <= `max_side`, chains of <= `max_depth` operations). Used for the
/// supplementary run under Miri; also usable natively.
fn replay_program_set(spec: &Value) -> Result<(bool, String), String> {
    let max_side = spec["max_side"].as_u64().ok_or("program_set.max_side")? as usize;
    let max_depth = spec["max_depth"].as_u64().ok_or("program_set.max_depth")? as usize;
    // run the access battery only the first time a shape is reached (every chain is still built
    // through all four ownership paths)
    let battery_once = spec["battery_once"].as_bool().unwrap_or(false);
    let ops = all_ops();
    let mut programs = 0u64;
    let mut checks = 0u64;
    let mut states = 0u64;
    let mut bad: Vec<String> = vec![];
    for layout in [Layout::Dense, Layout::Strided] {
        for h in 0..=max_side {
            for w in 0..=max_side {
                let base = Base { h, w, layout };
                let mut visited: HashSet<Shape> = HashSet::new();
                let mut frontier: Vec<Vec<Op>> = vec![vec![]];
                let root = check_program(&base, &[]);
                programs += 1;
                checks += root.checks;
                if let Some(sh) = root.shape {
                    visited.insert(sh);
                    states += 1;
                }
                for _ in 0..max_depth {
                    let mut next = vec![];
                    for hist in &frontier {
                        for op in &ops {
                            let mut h2 = hist.clone();
                            h2.push(*op);
                            programs += 1;
                            if battery_once {
                                // cheap probe through one path; the full check only for new shapes
                                match probe_shape(&base, &h2) {
                                    Some(sh) if visited.contains(&sh) => continue,
                                    _ => {}
                                }
                            }
                            let res = check_program(&base, &h2);
                            checks += res.checks;
                            for (path, f) in &res.findings {
                                if bad.len() < 20 {
                                    bad.push(format!(
                                        "{}x{} {} [{}] via {}: [{}:{}] {}",
                                        h, w, layout.name(),
                                        h2.iter().map(|o| op_name(*o)).collect::<Vec<_>>().join(", "),
                                        PATHS[*path], f.sub, f.kind, f.detail
                                    ));
                                }
                            }
                            if res.findings.is_empty() {
                                if let Some(sh) = res.shape {
                                    if visited.insert(sh) {
                                        states += 1;
                                        next.push(h2);
                                    }
                                }
                            }
                        }
                    }
                    frontier = next;
                    if frontier.is_empty() {
                        break;
                    }
                }
            }
        }
    }
    let mut s = format!(
        "PROGRAM-SET max_side={max_side} max_depth={max_depth} battery_once={battery_once} programs={programs} states={states} comparisons={checks} findings={}\n",
        bad.len()
    );
    for b in &bad {
        s.push_str(b);
        s.push('\n');
    }
    Ok((!bad.is_empty(), s))
}

pub fn replay(w: &Value) -> Result<(bool, String), String> {
    if let Some(spec) = w.get("program_set") {
        return replay_program_set(spec);
    }
    let b = &w["base"];
    let base = Base {
        h: b["h"].as_u64().ok_or("base.h")? as usize,
        w: b["w"].as_u64().ok_or("base.w")? as usize,
        layout: match b["layout"].as_str() {
            Some("dense") => Layout::Dense,
            Some("strided") => Layout::Strided,
            _ => return Err("base.layout".into()),
        },
    };
    let mut ops = vec![];
    for o in w["ops"].as_array().ok_or("ops")? {
        ops.push(op_parse(o.as_str().ok_or("op")?).ok_or_else(|| format!("unknown op {o}"))?);
    }
    let res = check_program(&base, &ops);
    let mut s = format!(
        "base {}x{} {}; program [{}]\nexpected (model window, base coordinates per row): {:?}\nlibrary shape: {:?}\n",
        base.h,
        base.w,
        base.layout.name(),
        ops.iter().map(|o| op_name(*o)).collect::<Vec<_>>().join(", "),
        res.window.cells,
        res.shape
    );
    for (path, f) in &res.findings {
        s.push_str(&format!("  [{}:{}] via {}: {}\n", f.sub, f.kind, PATHS[*path], f.detail));
    }
    if res.findings.is_empty() {
        s.push_str(&format!("  all {} comparisons agree with the model\n", res.checks));
    }
    Ok((!res.findings.is_empty(), s))
}
