//! C03 -- decoded events do not depend on read boundaries and follow leftmost-longest rules.
//!
//! Spaces (each enumerated completely, on the real decoders, in worker subprocesses):
//!  A  all strings up to length L over a representative alphabet, for the event and the command
//!     decoder (and the UTF-8 decoder), under ALL partitions into reads, compared with the
//!     reference tokenisation computed from per-prefix acceptance of the production DFA;
//!  S  explicit-state part: every reachable decoder state with a buffer of at most B bytes
//!     (= every live prefix of the DFA over the alphabet) x every continuation of length <= 3
//!     over that state's local representatives, fed as one read / byte by byte / with empty
//!     reads, compared with each other and with the reference;
//!  T  the tokeniser core instantiated (hook H1) over every small set of patterns from a pool,
//!     all inputs over {a,b,c} up to length N under all partitions, against a reference
//!     leftmost-longest tokeniser built on regular-expression derivatives.
use super::decoder_common::*;
use crate::engine::report::{Ctx, Report, Tier, Violation, Violations};
use crate::engine::util::{hex, unhex};
use crate::engine::workers::{self, WorkerCtx};
use crate::engine::catch;
use serde_json::{json, Value};
use std::collections::{BTreeMap, HashSet};
use std::io::Cursor;
use std::time::{Duration, Instant};
use surf_n_term::automata::NFA;
use surf_n_term::decoder::verif::Tokenizer;

// ------------------------------------------------------------------ alphabets

pub fn base_alphabet(which: Which) -> Vec<u8> {
    match which {
        Which::Event => {
            let mut v: Vec<u8> = vec![0x1b];
            v.extend(b"[]OP_<?;:=$+,~\\");
            v.push(0x07);
            v.extend(b"01259");
            v.extend(b"ARMmutycrqGK");
            v.extend([0x01, b'x', 0xC3, 0xA9, 0xE2, 0xED, 0xF4, 0x80, 0xFF]);
            v
        }
        Which::Command => {
            let mut v: Vec<u8> = vec![0x1b, b'['];
            v.extend(b"0123458");
            v.extend(b":;mx");
            v.extend([0xC3, 0xA9, 0xED, 0x80, 0x07]);
            v
        }
        Which::Utf8 => vec![
            0x00, b'a', 0x7f, 0x80, 0xBF, 0xC0, 0xC3, 0xA9, 0xE0, 0xE2, 0x82, 0xED, 0xA0, 0xF0, 0xF4, 0x90, 0xF5,
            0xFF,
        ],
    }
}

/// reduced alphabet for the deepest string sweep of the event decoder
pub fn structural_alphabet() -> Vec<u8> {
    let mut v: Vec<u8> = vec![0x1b];
    v.extend(b"[]OP_<?;:$+~\\");
    v.push(0x07);
    v.extend(b"019");
    v.extend(b"ARMmutycx");
    v.extend([0xC3, 0xA9, 0x80]);
    v
}

/// The alphabet actually used: the base alphabet plus one representative of every global byte
/// class of the production DFA that is not just "a literal key reachable only from the start
/// or ESC state" and has no representative yet (so a grammar change cannot silently escape).
pub fn alphabet(which: Which) -> (Vec<u8>, usize, usize) {
    let mut a = base_alphabet(which);
    if which == Which::Utf8 {
        let n = a.len();
        return (a, n, 0);
    }
    let t = table(which);
    let esc_state = t.step(t.start, 0x1b);
    let mut covered: HashSet<u16> = a.iter().map(|b| t.class_of[*b as usize]).collect();
    let mut added = 0;
    for b in 0..=255u8 {
        let c = t.class_of[b as usize];
        if covered.contains(&c) {
            continue;
        }
        // simple literal: only transitions are from start / ESC state into accepting terminal
        // states, or identical to the plain character 'x'
        let simple = (0..t.size).all(|s| {
            let n = t.next[s * 256 + b as usize];
            if n == DEAD || n == t.next[s * 256 + b'x' as usize] {
                return true;
            }
            (s == t.start || Some(s) == esc_state) && t.accepting[n as usize] && t.terminal[n as usize]
        });
        if !simple {
            a.push(b);
            covered.insert(c);
            added += 1;
        }
    }
    let classes = t.class_reps.len();
    (a, classes, added)
}

// ------------------------------------------------------------------ tiny regex reference

#[derive(Debug, Clone, PartialEq, Eq, Hash, PartialOrd, Ord)]
pub enum Re {
    Nothing,
    Eps,
    Byte(u8),
    Seq(Box<Re>, Box<Re>),
    Alt(Box<Re>, Box<Re>),
    Star(Box<Re>),
}

impl Re {
    pub fn seq(a: Re, b: Re) -> Re {
        match (a, b) {
            (Re::Nothing, _) | (_, Re::Nothing) => Re::Nothing,
            (Re::Eps, x) | (x, Re::Eps) => x,
            (a, b) => Re::Seq(Box::new(a), Box::new(b)),
        }
    }
    pub fn alt(a: Re, b: Re) -> Re {
        match (a, b) {
            (Re::Nothing, x) | (x, Re::Nothing) => x,
            (a, b) if a == b => a,
            (a, b) => Re::Alt(Box::new(a), Box::new(b)),
        }
    }
    pub fn star(a: Re) -> Re {
        match a {
            Re::Nothing | Re::Eps => Re::Eps,
            a @ Re::Star(_) => a,
            a => Re::Star(Box::new(a)),
        }
    }
    pub fn plus(a: Re) -> Re {
        Re::seq(a.clone(), Re::star(a))
    }
    pub fn opt(a: Re) -> Re {
        Re::alt(a, Re::Eps)
    }
    pub fn lit(s: &str) -> Re {
        s.bytes().fold(Re::Eps, |acc, b| Re::seq(acc, Re::Byte(b)))
    }
    pub fn nullable(&self) -> bool {
        match self {
            Re::Nothing | Re::Byte(_) => false,
            Re::Eps | Re::Star(_) => true,
            Re::Seq(a, b) => a.nullable() && b.nullable(),
            Re::Alt(a, b) => a.nullable() || b.nullable(),
        }
    }
    pub fn deriv(&self, c: u8) -> Re {
        match self {
            Re::Nothing | Re::Eps => Re::Nothing,
            Re::Byte(b) => {
                if *b == c {
                    Re::Eps
                } else {
                    Re::Nothing
                }
            }
            Re::Seq(a, b) => {
                let left = Re::seq(a.deriv(c), (**b).clone());
                if a.nullable() {
                    Re::alt(left, b.deriv(c))
                } else {
                    left
                }
            }
            Re::Alt(a, b) => Re::alt(a.deriv(c), b.deriv(c)),
            Re::Star(a) => Re::seq(a.deriv(c), Re::Star(a.clone())),
        }
    }
    /// the same expression through the library's public combinators
    pub fn to_nfa(&self) -> NFA<()> {
        self.to_nfa_over(&LETTERS[0])
    }
    /// ... with the letters a, b, c standing for the given byte values
    pub fn to_nfa_over(&self, letters: &[u8; 3]) -> NFA<()> {
        match self {
            Re::Nothing => NFA::nothing(),
            Re::Eps => NFA::empty(),
            Re::Byte(b) => {
                let b = letter(*b, letters);
                NFA::predicate(move |x| x == b)
            }
            Re::Seq(a, b) => NFA::sequence([a.to_nfa_over(letters), b.to_nfa_over(letters)]),
            Re::Alt(a, b) => NFA::choice([a.to_nfa_over(letters), b.to_nfa_over(letters)]),
            Re::Star(a) => a.to_nfa_over(letters).many(),
        }
    }
}

/// What the letters a, b, c of the pattern pool stand for: themselves, and the extreme byte values (the
/// tokeniser's alphabet is all 256 bytes; the first and the last value are where a loop over it ends).
pub const LETTERS: [[u8; 3]; 2] = [[b'a', b'b', b'c'], [0xFF, 0x00, 0x80]];

pub fn letter(b: u8, letters: &[u8; 3]) -> u8 {
    match b {
        b'a' => letters[0],
        b'b' => letters[1],
        b'c' => letters[2],
        other => other,
    }
}

/// pattern pool (name, expression); `c` matches nothing
pub fn pattern_pool() -> Vec<(&'static str, Re)> {
    let a = || Re::Byte(b'a');
    let b = || Re::Byte(b'b');
    vec![
        ("a", a()),
        ("b", b()),
        ("ab", Re::lit("ab")),
        ("ba", Re::lit("ba")),
        ("aab", Re::lit("aab")),
        ("abab", Re::lit("abab")),
        ("a+", Re::plus(a())),
        ("b+a", Re::seq(Re::plus(b()), a())),
        ("a*b", Re::seq(Re::star(a()), b())),
        ("(ab)+", Re::plus(Re::lit("ab"))),
        ("a?b", Re::seq(Re::opt(a()), b())),
        ("a(a|b)", Re::seq(a(), Re::alt(a(), b()))),
        ("(a|b)b", Re::seq(Re::alt(a(), b()), b())),
        ("aa*bb*a", Re::seq(Re::seq(Re::plus(a()), Re::plus(b())), a())),
    ]
}

#[derive(Debug, Clone, PartialEq, Eq)]
pub enum TokItem {
    Token(usize, usize, usize), // start, end, pattern index
    Garbage(usize, usize),
}

/// reference leftmost-longest tokenisation (given the input available) over derivatives
pub fn reference_patterns(pats: &[Re], w: &[u8]) -> (Vec<TokItem>, usize) {
    let sigma = [b'a', b'b', b'c'];
    let mut items = vec![];
    let mut i = 0;
    let n = w.len();
    'outer: while i < n {
        let mut d: Vec<Re> = pats.to_vec();
        let mut cand: Option<(usize, usize)> = None;
        let mut k = i;
        loop {
            if k == n {
                return (items, i);
            }
            let nd: Vec<Re> = d.iter().map(|r| r.deriv(w[k])).collect();
            if nd.iter().all(|r| *r == Re::Nothing) {
                match cand {
                    Some((j, tag)) => {
                        items.push(TokItem::Token(i, j, tag));
                        i = j;
                    }
                    None => {
                        let end = if k > i { k } else { i + 1 };
                        items.push(TokItem::Garbage(i, end));
                        i = end;
                    }
                }
                continue 'outer;
            }
            d = nd;
            k += 1;
            if let Some(tag) = d.iter().position(|r| r.nullable()) {
                cand = Some((k, tag));
                let extendable = sigma
                    .iter()
                    .any(|c| d.iter().any(|r| r.deriv(*c) != Re::Nothing));
                if !extendable {
                    items.push(TokItem::Token(i, k, tag));
                    i = k;
                    continue 'outer;
                }
            }
        }
    }
    (items, n)
}

fn run_tokenizer(tok: &Tokenizer, w: &[u8], parts: &[usize]) -> (Vec<Result<usize, Vec<u8>>>, Vec<u8>, Vec<String>) {
    let mut t = tok.fresh();
    let mut out = vec![];
    let mut problems = vec![];
    let mut off = 0;
    for p in parts {
        let chunk = &w[off..off + p];
        off += p;
        let mut cur = Cursor::new(chunk);
        let mut calls = 0;
        loop {
            calls += 1;
            if calls > 2 * (chunk.len() + 64) + 8 {
                problems.push("decode does not terminate".to_string());
                break;
            }
            match t.decode(&mut cur) {
                Ok(Some(item)) => out.push(item),
                Ok(None) => break,
                Err(e) => {
                    problems.push(format!("error {e:?}"));
                    break;
                }
            }
        }
        if cur.position() as usize != chunk.len() {
            problems.push("read not fully consumed".to_string());
        }
    }
    let snap = t.verif_snapshot();
    if !snap.rescheduled.is_empty() {
        problems.push(format!("rescheduled bytes left: {:?}", snap.rescheduled));
    }
    (out, snap.buffer, problems)
}

/// check one (pattern set, input) under all partitions; returns (kind, detail)
fn check_tokenizer_case(pats: &[Re], tok: &Tokenizer, w: &[u8], parts_all: &[Vec<usize>]) -> Vec<(String, String)> {
    check_tokenizer_case_over(pats, tok, w, parts_all, &LETTERS[0])
}

/// `w` is over a, b, c; the tokeniser (built with `to_nfa_over(letters)`) is fed the bytes the letters stand for
fn check_tokenizer_case_over(pats: &[Re], tok: &Tokenizer, w: &[u8], parts_all: &[Vec<usize>], letters: &[u8; 3]) -> Vec<(String, String)> {
    let mut problems = vec![];
    let (items, pending) = reference_patterns(pats, w);
    let mapped: Vec<u8> = w.iter().map(|b| letter(*b, letters)).collect();
    let w = &mapped[..];
    let expect: Vec<Result<usize, Vec<u8>>> = items
        .iter()
        .map(|it| match it {
            TokItem::Token(_, _, tag) => Ok(*tag),
            TokItem::Garbage(s, e) => Err(w[*s..*e].to_vec()),
        })
        .collect();
    for parts in parts_all {
        match catch(|| run_tokenizer(tok, w, parts)) {
            Err(p) => {
                problems.push((p.key(), format!("panic {} ({}:{}) reads {:?}", p.message, p.file, p.line, parts)));
                break;
            }
            Ok((out, buffer, probs)) => {
                for p in probs {
                    problems.push((format!("totality:{}", squash(&p)), format!("{p} reads {:?}", parts)));
                }
                if out != expect {
                    problems.push((
                        "tokenisation".to_string(),
                        format!("reads {:?}: tokeniser gave {:?}, leftmost-longest reference {:?}", parts, out, expect),
                    ));
                } else if buffer != w[pending..] {
                    problems.push((
                        "pending-tail".to_string(),
                        format!("reads {:?}: tokeniser buffers {:?}, reference pending tail {:?}", parts, buffer, &w[pending..]),
                    ));
                }
            }
        }
        if !problems.is_empty() {
            break;
        }
    }
    problems
}

// ------------------------------------------------------------------ parameters

struct Params {
    len_event: usize,
    len_command: usize,
    len_utf8: usize,
    part_limit: usize, // all partitions up to this length, light partitions beyond
    buf_bound: usize,
    cont_len: usize,
    set_size: usize,
    tok_len: usize,
    deep_bound: usize,
}

fn params(tier: Tier) -> Params {
    match tier {
        Tier::Quick => Params {
            len_event: 4,
            len_command: 5,
            len_utf8: 4,
            part_limit: 8,
            buf_bound: 5,
            cont_len: 2,
            set_size: 2,
            tok_len: 7,
            deep_bound: 12,
        },
        Tier::Thorough => Params {
            // length 5 for the event decoder runs over the 43-symbol base alphabet only (the
            // automatically added class representatives are covered up to length 4)
            len_event: 5,
            len_command: 6,
            len_utf8: 5,
            part_limit: 8,
            buf_bound: 7,
            cont_len: 3,
            set_size: 3,
            tok_len: 8,
            deep_bound: 16,
        },
    }
}

// ------------------------------------------------------------------ worker

pub fn descriptor(kind: u8, which: Which, w: &[u8], extra: &[u8]) -> Vec<u8> {
    let mut d = vec![kind, which as u8, w.len() as u8, extra.len() as u8];
    d.extend_from_slice(w);
    d.extend_from_slice(extra);
    d
}

pub fn which_from_u8(b: u8) -> Which {
    match b {
        0 => Which::Event,
        1 => Which::Command,
        _ => Which::Utf8,
    }
}

pub struct Local {
    pub viol: BTreeMap<String, (usize, Violation)>,
}

impl Local {
    pub fn add(&mut self, w: &mut WorkerCtx, key: String, what: String, witness: Value) {
        let size = witness.to_string().len();
        match self.viol.get(&key) {
            Some((s, _)) if *s <= size => {}
            other => {
                let first = other.is_none();
                let v = Violation { key: key.clone(), what, witness };
                if first || self.viol.len() < 300 {
                    w.violation(&v);
                }
                self.viol.insert(key, (size, v));
            }
        }
    }
}

pub fn string_witness(which: Which, w: &[u8], mode: &str) -> Value {
    json!({"kind": "string", "which": which.name(), "w": hex(w), "w_esc": crate::engine::util::esc(w), "partitions": mode})
}

pub fn check_and_report(
    wc: &mut WorkerCtx,
    local: &mut Local,
    which: Which,
    s: &[u8],
    parts: &[Vec<usize>],
    mode: &str,
    reference_check: bool,
) {
    match check_string(which, s, parts, reference_check) {
        Ok(problems) => {
            for p in problems {
                local.add(
                    wc,
                    format!("{}:{}", which.name(), p.kind),
                    format!("{} decoder on {:?}: {}", which.name(), crate::engine::util::esc(s), p.detail),
                    string_witness(which, s, mode),
                );
            }
        }
        Err(p) => local.add(
            wc,
            format!("{}:{}", which.name(), p.key()),
            format!(
                "{} decoder panicked on {:?}: {} ({}:{})",
                which.name(),
                crate::engine::util::esc(s),
                p.message,
                p.file,
                p.line
            ),
            string_witness(which, s, mode),
        ),
    }
}

/// enumerate all strings of length 1..=maxlen over alphabet whose first symbol index is `first`
pub fn for_strings(alpha: &[u8], first: usize, maxlen: usize, f: &mut dyn FnMut(&[u8])) {
    fn rec(alpha: &[u8], cur: &mut Vec<u8>, maxlen: usize, f: &mut dyn FnMut(&[u8])) {
        f(cur);
        if cur.len() == maxlen {
            return;
        }
        for b in alpha {
            cur.push(*b);
            rec(alpha, cur, maxlen, f);
            cur.pop();
        }
    }
    let mut cur = vec![alpha[first]];
    rec(alpha, &mut cur, maxlen, f);
}

/// live prefixes (decoder buffers) up to length `bound` over `alpha`, in BFS order
pub fn live_prefixes(which: Which, alpha: &[u8], bound: usize) -> Vec<(Vec<u8>, usize)> {
    let t = table(which);
    let mut out = vec![(vec![], t.start)];
    let mut frontier = vec![(vec![], t.start)];
    for _ in 0..bound {
        let mut next = vec![];
        for (u, s) in &frontier {
            for b in alpha {
                if let Some(ns) = t.step(*s, *b) {
                    if t.accepting[ns] && t.terminal[ns] {
                        continue; // emitted immediately, buffer is empty again
                    }
                    let mut v = u.clone();
                    v.push(*b);
                    next.push((v, ns));
                }
            }
        }
        out.extend(next.iter().cloned());
        frontier = next;
    }
    out
}

fn local_reps(which: Which, state: usize) -> Vec<u8> {
    let t = table(which);
    let mut seen: HashSet<u16> = HashSet::new();
    let mut reps = vec![];
    for b in 0..=255u8 {
        let n = t.next[state * 256 + b as usize];
        if n != DEAD && seen.insert(n) {
            reps.push(b);
        }
    }
    for b in [0x1bu8, b'x', 0x80] {
        if !reps.contains(&b) {
            reps.push(b);
        }
    }
    reps
}

fn subsets(n: usize, max: usize) -> Vec<Vec<usize>> {
    fn rec(n: usize, max: usize, start: usize, cur: &mut Vec<usize>, out: &mut Vec<Vec<usize>>) {
        if !cur.is_empty() {
            out.push(cur.clone());
        }
        if cur.len() == max {
            return;
        }
        for i in start..n {
            cur.push(i);
            rec(n, max, i + 1, cur, out);
            cur.pop();
        }
    }
    let mut out = vec![];
    rec(n, max, 0, &mut vec![], &mut out);
    out
}

pub fn worker(ctx: &Ctx, mut wc: WorkerCtx, _extra: &[String]) {
    let p = params(ctx.tier);
    let mut local = Local { viol: BTreeMap::new() };
    let mut case: u64 = 0;
    let mut unit: u64 = 0;
    let shard = wc.shard as u64;
    let shards = wc.shards as u64;
    let resume = wc.resume;
    let mut outcomes: HashSet<u64> = HashSet::new();

    // ---- space A: strings over the alphabet, all partitions
    for (which, maxlen, full) in [
        (Which::Event, p.len_event.min(4), true),
        (Which::Event, p.len_event, false),
        (Which::Command, p.len_command, true),
        (Which::Utf8, p.len_utf8, true),
    ] {
        if !full && maxlen <= 4 {
            continue;
        }
        let alpha = if full { alphabet(which).0 } else { structural_alphabet() };
        let parts_by_len: Vec<Vec<Vec<usize>>> = (0..=maxlen).map(all_partitions).collect();
        for first in 0..alpha.len() {
            unit += 1;
            if unit % shards != shard {
                continue;
            }
            let mut strings = 0u64;
            let mut runs = 0u64;
            let mut reparse = 0u64;
            for_strings(&alpha, first, maxlen, &mut |s| {
                case += 1;
                if case <= resume {
                    return;
                }
                if !full && s.len() < maxlen {
                    return; // shorter strings are covered by the full-alphabet sweep
                }
                wc.begin_case(case, &descriptor(0, which, s, &[]));
                let parts = &parts_by_len[s.len()];
                strings += 1;
                runs += parts.len() as u64;
                if which != Which::Utf8 {
                    let (items, pending) = reference(table(which), s);
                    // non-trivial: a longer candidate failed and bytes after the emitted one were parsed again
                    if reparsed_bytes(table(which), s) > 0 {
                        reparse += 1;
                    }
                    outcomes.insert(crate::engine::util::hash64(&(which as u8, &items, pending)));
                }
                check_and_report(&mut wc, &mut local, which, s, parts, "all", true);
            });
            wc.count(&format!("A_{}_strings", which.name()), strings);
            wc.count(&format!("A_{}_runs", which.name()), runs);
            wc.count(&format!("A_{}_reparse", which.name()), reparse);
        }
    }

    // ---- space A256: every byte string of length <= 2 (thorough: 3 for the event decoder)
    for which in [Which::Event, Which::Command, Which::Utf8] {
        let maxlen = if ctx.tier == Tier::Thorough && which != Which::Command { 3 } else { 2 };
        let all: Vec<u8> = (0..=255u8).collect();
        let parts_by_len: Vec<Vec<Vec<usize>>> = (0..=maxlen).map(all_partitions).collect();
        for first in 0..256 {
            unit += 1;
            if unit % shards != shard {
                continue;
            }
            let mut strings = 0u64;
            let mut runs = 0u64;
            for_strings(&all, first, maxlen, &mut |s| {
                case += 1;
                if case <= resume {
                    return;
                }
                wc.begin_case(case, &descriptor(0, which, s, &[]));
                strings += 1;
                runs += parts_by_len[s.len()].len() as u64;
                check_and_report(&mut wc, &mut local, which, s, &parts_by_len[s.len()], "all", true);
            });
            wc.count(&format!("A256_{}_strings", which.name()), strings);
            wc.count(&format!("A256_{}_runs", which.name()), runs);
        }
    }

    // ---- space S: explicit-state part
    for which in [Which::Event, Which::Command] {
        let (alpha, _, _) = alphabet(which);
        let bound = if which == Which::Command { p.buf_bound + 1 } else { p.buf_bound };
        let prefixes = live_prefixes(which, &alpha, bound);
        for (u, state) in prefixes.iter() {
            unit += 1;
            if unit % shards != shard {
                continue;
            }
            let reps = local_reps(which, *state);
            let mut transitions = 0u64;
            let mut runs = 0u64;
            // continuations of length 1..=cont_len over reps
            let mut conts: Vec<Vec<u8>> = vec![vec![]];
            let mut all_conts: Vec<Vec<u8>> = vec![];
            for _ in 0..p.cont_len {
                let mut next = vec![];
                for c in &conts {
                    for b in &reps {
                        let mut v = c.clone();
                        v.push(*b);
                        next.push(v);
                    }
                }
                all_conts.extend(next.iter().cloned());
                conts = next;
            }
            for v in &all_conts {
                case += 1;
                if case <= resume {
                    continue;
                }
                let mut w = u.clone();
                w.extend_from_slice(v);
                wc.begin_case(case, &descriptor(1, which, &w, &[u.len() as u8]));
                let parts = state_partitions(u.len(), v.len());
                transitions += 1;
                runs += parts.len() as u64;
                check_and_report(&mut wc, &mut local, which, &w, &parts, &format!("state:{}", u.len()), true);
            }
            wc.count(&format!("S_{}_states", which.name()), 1);
            wc.count(&format!("S_{}_transitions", which.name()), transitions);
            wc.count(&format!("S_{}_runs", which.name()), runs);
        }
    }

    // ---- space D: deep buffers with per-state representatives: every extension byte is taken
    // from the local representatives of the state reached (one byte per distinct successor state
    // plus three dead bytes), which reaches far into the payload loops of string sequences.
    // Weaker on re-parse behaviour than space S (bytes of one local class can differ once they
    // are re-scheduled), hence reported separately.
    for which in [Which::Event, Which::Command] {
        let t = table(which);
        let deep = p.deep_bound;
        // DFS over (buffer, state); a node is checked when it dies or reaches the bound
        let mut stack: Vec<(Vec<u8>, usize)> = vec![(vec![], t.start)];
        let mut nodes = 0u64;
        let mut checked = 0u64;
        while let Some((u, s)) = stack.pop() {
            nodes += 1;
            let reps = local_reps(which, s);
            for b in reps {
                let mut w = u.clone();
                w.push(b);
                let next = t.step(s, b);
                let live = match next {
                    Some(ns) => !(t.accepting[ns] && t.terminal[ns]),
                    None => false,
                };
                if live && w.len() < deep {
                    stack.push((w, next.unwrap()));
                    continue;
                }
                // leaf: the buffer dies, completes, or is as deep as we go
                unit += 1;
                if unit % shards != shard {
                    continue;
                }
                case += 1;
                if case <= resume {
                    continue;
                }
                wc.begin_case(case, &descriptor(1, which, &w[..w.len().min(200)], &[0]));
                checked += 1;
                // one more byte after the leaf so that a pending tail is resolved too
                let mut w2 = w.clone();
                w2.push(b'x');
                let n = w2.len();
                let parts = vec![vec![n], vec![1; n], vec![n - 1, 1], vec![n / 2, n - n / 2]];
                check_and_report(&mut wc, &mut local, which, &w2, &parts, "light", true);
            }
        }
        wc.count(&format!("D_{}_nodes_walked", which.name()), if shard == 0 { nodes } else { 0 });
        wc.count(&format!("D_{}_leaves_checked", which.name()), checked);
        wc.count(&format!("D_{}_runs", which.name()), checked * 4);
    }

    // ---- space L: long reads inside looping states. For every state of the production automata that loops on
    // a printable byte (string payloads, paste bodies, parameter lists): the shortest buffer reaching it, one
    // filler byte, then ONE read of 32 / 65 filler bytes followed by every way of leaving the state (one byte
    // per distinct successor plus dead bytes) and a tail - cut so that the long read starts inside the loop.
    // Bulk handling of a long read (skipping, copying, searching for a terminator) must not change the events.
    for which in [Which::Event, Which::Command] {
        let t = table(which);
        // shortest buffer per state (breadth first over bytes in ascending order)
        let mut prefix: Vec<Option<Vec<u8>>> = vec![None; t.size];
        prefix[t.start] = Some(vec![]);
        let mut queue = std::collections::VecDeque::from([t.start]);
        while let Some(st) = queue.pop_front() {
            let base = prefix[st].clone().unwrap();
            for b in 0..=255u8 {
                if let Some(ns) = t.step(st, b) {
                    if prefix[ns].is_none() && !(t.accepting[ns] && t.terminal[ns]) {
                        let mut w = base.clone();
                        w.push(b);
                        prefix[ns] = Some(w);
                        queue.push_back(ns);
                    }
                }
            }
        }
        let mut looping = 0u64;
        let mut checked = 0u64;
        for st in 0..t.size {
            let Some(pre) = prefix[st].clone() else { continue };
            let Some(filler) = (0x20u8..0x7f).find(|b| t.step(st, *b) == Some(st)) else { continue };
            looping += 1;
            for exit in local_reps(which, st) {
                if t.step(st, exit) == Some(st) {
                    continue;
                }
                for k in [31usize, 64] {
                    for tail in [&b""[..], &b"\x1b\\"[..], &b"x"[..], &b"\x07y"[..]] {
                        unit += 1;
                        if unit % shards != shard {
                            continue;
                        }
                        case += 1;
                        if case <= resume {
                            continue;
                        }
                        let mut w = pre.clone();
                        w.push(filler);
                        w.extend(std::iter::repeat(filler).take(k));
                        w.push(exit);
                        w.extend_from_slice(tail);
                        wc.begin_case(case, &descriptor(1, which, &w[..w.len().min(200)], &[1]));
                        checked += 1;
                        let n = w.len();
                        let a = pre.len() + 1;
                        let mut parts = vec![vec![n], vec![a, n - a], vec![a, k + 1, n - a - k - 1], vec![1; n]];
                        if pre.len() > 0 {
                            parts.push(vec![pre.len(), n - pre.len()]);
                        }
                        check_and_report(&mut wc, &mut local, which, &w, &parts, "long", true);
                    }
                }
            }
        }
        // the same with 70 000 and 1 100 000 filler bytes (sequences longer than any buffer a decoder may
        // have thought sufficient): whole, cut inside the loop, and in reads of 64 KiB
        let mut very_long = 0u64;
        for st in 0..t.size {
            let Some(pre) = prefix[st].clone() else { continue };
            let Some(filler) = (0x20u8..0x7f).find(|b| t.step(st, *b) == Some(st)) else { continue };
            for exit in local_reps(which, st) {
                if t.step(st, exit) == Some(st) {
                    continue;
                }
                for k in [70_000usize, 1_100_000] {
                    // the megabyte-long variant only with the two exits every looping state has: ESC and a dead byte
                    if k > 100_000 && !(exit == 0x1b || exit == 0x80) {
                        continue;
                    }
                    for tail in [&b""[..], &b"\x1b\\x"[..]] {
                        unit += 1;
                        if unit % shards != shard {
                            continue;
                        }
                        case += 1;
                        if case <= resume {
                            continue;
                        }
                        let mut w = pre.clone();
                        w.extend(std::iter::repeat(filler).take(k + 1));
                        w.push(exit);
                        w.extend_from_slice(tail);
                        wc.begin_case(case, &descriptor(1, which, &w[..w.len().min(200)], &[2]));
                        very_long += 1;
                        let n = w.len();
                        let a = pre.len() + 1;
                        let mut chunks = vec![];
                        let mut left = n;
                        while left > 0 {
                            let c = left.min(65_536);
                            chunks.push(c);
                            left -= c;
                        }
                        let parts = vec![vec![n], vec![a, n - a], chunks];
                        check_and_report(&mut wc, &mut local, which, &w, &parts, "long", true);
                    }
                }
            }
        }
        wc.count(&format!("L_{}_very_long_cases", which.name()), very_long);
        wc.count(&format!("L_{}_looping_states", which.name()), if shard == 0 { looping } else { 0 });
        wc.count(&format!("L_{}_cases", which.name()), checked);
        wc.count(&format!("L_{}_runs", which.name()), checked * 5);
    }

    // ---- space T: tokeniser core over pattern sets
    {
        let pool = pattern_pool();
        let sets = subsets(pool.len(), p.set_size);
        let sigma = [b'a', b'b', b'c'];
        let parts_by_len: Vec<Vec<Vec<usize>>> = (0..=p.tok_len)
            .map(|n| {
                let mut v = all_partitions(n);
                // plus the all-singletons partition with empty reads interleaved
                let mut e = vec![0usize];
                for _ in 0..n {
                    e.push(1);
                    e.push(0);
                }
                v.push(e);
                v
            })
            .collect();
        for set in sets.iter() {
            unit += 1;
            if unit % shards != shard {
                continue;
            }
            let pats: Vec<Re> = set.iter().map(|i| pool[*i].1.clone()).collect();
            let tok = match catch(|| Tokenizer::new(pats.iter().map(|r| r.to_nfa()))) {
                Ok(t) => t,
                Err(pn) => {
                    local.add(
                        &mut wc,
                        format!("tokenizer:{}", pn.key()),
                        format!("building the tokeniser for {:?} panicked: {}", set, pn.message),
                        json!({"kind": "tokenizer", "patterns": set, "w": ""}),
                    );
                    continue;
                }
            };
            let mut cases = 0u64;
            let mut runs = 0u64;
            let mut multi = 0u64;
            for first in 0..sigma.len() {
                for_strings(&sigma, first, p.tok_len, &mut |s| {
                    case += 1;
                    if case <= resume {
                        return;
                    }
                    let setb: Vec<u8> = set.iter().map(|i| *i as u8).collect();
                    wc.begin_case(case, &descriptor(2, Which::Event, s, &setb));
                    cases += 1;
                    runs += parts_by_len[s.len()].len() as u64;
                    let (items, _) = reference_patterns(&pats, s);
                    if items.len() >= 2 && items.iter().any(|it| matches!(it, TokItem::Token(..))) {
                        multi += 1;
                    }
                    outcomes.insert(crate::engine::util::hash64(&(9u8, set, format!("{:?}", items))));
                    for (kind, detail) in check_tokenizer_case(&pats, &tok, s, &parts_by_len[s.len()]) {
                        let names: Vec<&str> = set.iter().map(|i| pool[*i].0).collect();
                        local.add(
                            &mut wc,
                            format!("tokenizer:{}", kind),
                            format!("patterns {:?} input {:?}: {}", names, String::from_utf8_lossy(s), detail),
                            json!({"kind": "tokenizer", "patterns": set, "pattern_names": names, "w": String::from_utf8_lossy(s)}),
                        );
                    }
                });
            }
            // the same pattern set with the letters standing for the extreme byte values 0xFF, 0x00, 0x80
            // (whole input and byte by byte: the partitions are a dimension of the sweep above)
            let extreme = &LETTERS[1];
            if let Ok(tok2) = catch(|| Tokenizer::new(pats.iter().map(|r| r.to_nfa_over(extreme)))) {
                for first in 0..sigma.len() {
                    for_strings(&sigma, first, p.tok_len, &mut |s| {
                        case += 1;
                        if case <= resume {
                            return;
                        }
                        let setb: Vec<u8> = set.iter().map(|i| *i as u8).collect();
                        wc.begin_case(case, &descriptor(2, Which::Event, s, &setb));
                        cases += 1;
                        let two = [vec![s.len()], vec![1; s.len()]];
                        runs += 2;
                        for (kind, detail) in check_tokenizer_case_over(&pats, &tok2, s, &two, extreme) {
                            let names: Vec<&str> = set.iter().map(|i| pool[*i].0).collect();
                            local.add(
                                &mut wc,
                                format!("tokenizer:{}", kind),
                                format!("patterns {:?} with a, b, c standing for the bytes {:02x?}, input {:?}: {}", names, extreme, String::from_utf8_lossy(s), detail),
                                json!({"kind": "tokenizer", "patterns": set, "pattern_names": names, "w": String::from_utf8_lossy(s), "letters": extreme}),
                            );
                        }
                    });
                }
            }
            wc.count("T_sets", 1);
            wc.count("T_cases", cases);
            wc.count("T_runs", runs);
            wc.count("T_multi_item", multi);
        }
    }
    wc.count("distinct_outcomes_per_shard_sum", outcomes.len() as u64);
    let finals: Vec<Violation> = local.viol.values().map(|(_, v)| v.clone()).collect();
    for v in finals {
        wc.violation(&v);
    }
    wc.finish();
}

/// partitions used in the explicit-state part for w = u v
fn state_partitions(ulen: usize, vlen: usize) -> Vec<Vec<usize>> {
    let mut out = vec![];
    let n = ulen + vlen;
    out.push(vec![n]);
    if ulen > 0 {
        out.push(vec![ulen, vlen]);
    }
    let mut p = if ulen > 0 { vec![ulen] } else { vec![] };
    p.extend(std::iter::repeat(1).take(vlen));
    out.push(p);
    let mut p = if ulen > 0 { vec![ulen, 0] } else { vec![0] };
    for _ in 0..vlen {
        p.push(1);
        p.push(0);
    }
    out.push(p);
    out.push(vec![1; n]);
    out.sort();
    out.dedup();
    out
}

// ------------------------------------------------------------------ parent

fn describe_crash(desc: &[u8], how: &str) -> (String, String, Value) {
    let kind = desc[0];
    let which = which_from_u8(desc[1]);
    let wl = desc[2] as usize;
    let el = desc[3] as usize;
    let w = &desc[4..4 + wl];
    let extra = &desc[4 + wl..4 + wl + el];
    match kind {
        2 => {
            let set: Vec<usize> = extra.iter().map(|b| *b as usize).collect();
            (
                "tokenizer:process-died".to_string(),
                format!("tokeniser over pattern set {:?} killed the process on input {:?} ({how})", set, String::from_utf8_lossy(w)),
                json!({"kind": "tokenizer", "patterns": set, "w": String::from_utf8_lossy(w)}),
            )
        }
        _ => (
            format!("{}:process-died", which.name()),
            format!(
                "{} decoder killed or stalled the process on input {:?} ({how})",
                which.name(),
                crate::engine::util::esc(w)
            ),
            string_witness(which, w, "all"),
        ),
    }
}

pub fn run(ctx: &Ctx) -> Result<Report, String> {
    let spec = workers::Spec {
        prop: "C03",
        tier: ctx.tier,
        seed: ctx.seed,
        shards: ctx.threads * 4,
        parallel: ctx.threads,
        extra_args: vec![],
        stall_timeout: Duration::from_secs(20),
        max_restarts_per_shard: 20,
        deadline: Instant::now() + Duration::from_secs_f64(ctx.wall_cap_s),
    };
    let merged = workers::run_shards(&spec, &describe_crash)?;
    let c = |k: &str| merged.counters.get(k).copied().unwrap_or(0);
    let states = c("S_event_states") + c("S_command_states") + c("D_event_nodes_walked") + c("D_command_nodes_walked");
    let transitions = c("S_event_transitions") + c("S_command_transitions") + c("D_event_leaves_checked") + c("D_command_leaves_checked");
    let runs: u64 = merged
        .counters
        .iter()
        .filter(|(k, _)| k.ends_with("_runs"))
        .map(|(_, v)| *v)
        .sum();
    let strings: u64 = merged
        .counters
        .iter()
        .filter(|(k, _)| k.ends_with("_strings") || *k == "T_cases")
        .map(|(_, v)| *v)
        .sum();
    let p = params(ctx.tier);
    let (ae, classes_e, added_e) = alphabet(Which::Event);
    let (ac, classes_c, added_c) = alphabet(Which::Command);
    let mut r = Report::new("model_checking");
    r.set("states", states)
        .set("transitions", transitions)
        .set("traces_validated_against_impl", runs)
        .set("evaluations", strings + transitions)
        .set(
            "distinct_nontrivial",
            c("A_event_reparse") + c("A_command_reparse") + c("T_multi_item"),
        )
        .set(
            "rule",
            "states = reachable decoder states (distinct buffers of at most B bytes over the alphabet, both production decoders, space S) + buffers walked with per-state representatives up to the deep bound (space D); \
             transitions = (state, continuation) pairs, each executed on the real decoder under up to 5 read partitions; \
             evaluations = strings checked under all partitions (spaces A, A256, T) + transitions; \
             non-trivial (production decoders) = inputs on which a longer candidate failed so that at least one byte after the emitted item was interpreted a second time; (tokeniser) = inputs with a token and at least two items",
        )
        .set("counters", json!(merged.counters))
        .set(
            "bounds",
            json!({
                "A_len_event": p.len_event.min(4), "A_len_event_structural_alphabet": p.len_event, "A_len_command": p.len_command, "A_len_utf8": p.len_utf8,
                "S_buffer_bound_event": p.buf_bound, "S_buffer_bound_command": p.buf_bound + 1, "S_continuation_len": p.cont_len,
                "D_deep_buffer_bound_local_representatives": p.deep_bound, "T_pattern_set_size": p.set_size, "T_input_len": p.tok_len, "T_pool": pattern_pool().iter().map(|x| x.0).collect::<Vec<_>>(),
            }),
        )
        .set(
            "alphabet",
            json!({
                "event": crate::engine::util::esc(&ae), "event_global_classes": classes_e, "event_classes_added_automatically": added_e,
                "command": crate::engine::util::esc(&ac), "command_global_classes": classes_c, "command_classes_added_automatically": added_c,
            }),
        )
        .set("exhaustive", !merged.capped)
        .set("capped", merged.capped)
        .set("worker_crashes", merged.crashes)
        .set(
            "samples",
            json!([
                {"space": "A", "which": "event", "w": "\\e[1;5A", "partitions": "all 2^(n-1)"},
                {"space": "S", "which": "event", "state_buffer": "\\e]1", "continuation": ";x", "partitions": "[u,v] [u,v1,v2] [u,-,v1,-,v2,-] [w] singles"},
                {"space": "T", "patterns": ["a+", "aa*bb*a"], "w": "aabbc", "partitions": "all + singletons with empty reads"},
            ]),
        );
    r.assume("garbage grouping: after a dead transition without a candidate the bytes consumed so far form one raw item (the statement is silent; the reference follows the library)");
    r.assume("which event a recognised token decodes to is not judged here (C04)");
    r.assume("alphabet: representatives of the DFA's byte classes; classes that are plain single-key literals are represented by one literal");
    r.violations = merged.violations;
    Ok(r)
}

pub fn replay(w: &Value) -> Result<(bool, String), String> {
    match w["kind"].as_str() {
        Some("string") => {
            let which = Which::from_name(w["which"].as_str().unwrap_or("")).ok_or("which")?;
            let s = unhex(w["w"].as_str().ok_or("w")?);
            let mode = w["partitions"].as_str().unwrap_or("all");
            let parts = if let Some(rest) = mode.strip_prefix("state:") {
                let ul: usize = rest.parse().map_err(|_| "state len")?;
                state_partitions(ul, s.len() - ul)
            } else if s.len() <= 12 {
                all_partitions(s.len())
            } else {
                light_partitions(s.len())
            };
            let mut detail = format!("input {:?} ({} partitions)\n", crate::engine::util::esc(&s), parts.len());
            if which != Which::Utf8 {
                let (items, pending) = reference(table(which), &s);
                detail += &format!("reference tokenisation: {:?} pending from {}\n", items, pending);
            }
            match check_string(which, &s, &parts, true) {
                Ok(problems) => {
                    for p in &problems {
                        detail += &format!("  {}: {}\n", p.kind, p.detail);
                    }
                    if problems.is_empty() {
                        let run = run_parts(which, &s, &parts[0]);
                        detail += &format!("observed: {:?}\n", run.items);
                    }
                    Ok((!problems.is_empty(), detail))
                }
                Err(p) => Ok((true, format!("{detail}panic: {} ({}:{})", p.message, p.file, p.line))),
            }
        }
        Some("tokenizer") => {
            let pool = pattern_pool();
            let set: Vec<usize> = w["patterns"]
                .as_array()
                .ok_or("patterns")?
                .iter()
                .filter_map(|v| v.as_u64().map(|x| x as usize))
                .collect();
            let pats: Vec<Re> = set.iter().map(|i| pool[*i].1.clone()).collect();
            let s = w["w"].as_str().unwrap_or("").as_bytes().to_vec();
            let letters: [u8; 3] = match w["letters"].as_array() {
                Some(a) if a.len() == 3 => [a[0].as_u64().unwrap_or(0) as u8, a[1].as_u64().unwrap_or(0) as u8, a[2].as_u64().unwrap_or(0) as u8],
                _ => LETTERS[0],
            };
            let tok = Tokenizer::new(pats.iter().map(|r| r.to_nfa_over(&letters)));
            let mut parts = all_partitions(s.len());
            let mut e = vec![0usize];
            for _ in 0..s.len() {
                e.push(1);
                e.push(0);
            }
            parts.push(e);
            let problems = check_tokenizer_case_over(&pats, &tok, &s, &parts, &letters);
            let (items, pending) = reference_patterns(&pats, &s);
            let mut detail = format!(
                "patterns {:?} input {:?}\nreference: {:?} pending from {}\n",
                set.iter().map(|i| pool[*i].0).collect::<Vec<_>>(),
                String::from_utf8_lossy(&s),
                items,
                pending
            );
            for (k, d) in &problems {
                detail += &format!("  {k}: {d}\n");
            }
            Ok((!problems.is_empty(), detail))
        }
        _ => Err("unknown witness kind".into()),
    }
}
