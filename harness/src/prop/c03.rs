//! C03 -- not built yet (stub so the crate layout is stable).
use crate::engine::report::{Ctx, Report};
use serde_json::Value;

pub fn run(_ctx: &Ctx) -> Result<Report, String> {
    Err("C03: check not built yet".into())
}

pub fn replay(_w: &Value) -> Result<(bool, String), String> {
    Err("C03: check not built yet".into())
}
