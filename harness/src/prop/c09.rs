//! C09 -- text writing stays inside its surface, ignores chunking and loses no cell.
//!
//! Bounded exhaustive exploration of the real writers:
//!
//! * alphabet: 12 symbols = the 11 cell kinds of DESIGN.md with the two zero-width characters
//!   (U+0301, NUL) kept as separate symbols because they differ at the byte level;
//! * every symbol sequence up to length 4 (quick) / 6 (thorough);
//! * target = view of h in 1..=3 x w in 1..=5 inside a 7x10 canvas of sentinel cells in four
//!   placements (plain, offset, strided with both strides doubled, transposed), built by the
//!   harness with `SurfaceMutView::new` from an explicit `Shape`;
//! * wraps on/off, glyph capability on/off, initial cursor origin / last column;
//! * paths: `put_cell`, `io::Write for TerminalWriter`, `utf8_writer()`, `tty_writer()` (SGR tokens
//!   between the characters), `Text` view layout + render.
//!
//! Oracles (from the statement):
//!  1. containment: every canvas cell that does not belong to the view equals the sentinel;
//!  2. chunk independence: for the byte paths every partition of the byte string into `write`
//!     calls gives the canvas of the single write;
//!  3. text: lay out with `BoxConstraint::loose(BIG, W)`, W in 1..=6, render into a surface of
//!     exactly the reported size, scan row-major: the cells whose character is not the sentinel
//!     character are exactly the printable cells of the text, once, in order; with wraps off
//!     exactly the cells whose column range exceeds W are missing (column model: tab stops
//!     every 8 columns clipped at the right edge, newline resets the column).
//! Additional differential oracles between different library paths: put_cell / io::Write /
//! utf8_writer give the same canvas, tty_writer the same cell kinds; rendering the text into a
//! taller surface puts nothing below the reported height.
use crate::engine::catch;
use crate::engine::report::{Ctx, Report, Samples, Tier, Violations};
use crate::engine::util::{cuts_from_mask, hash64, partitions_upto_cuts};
use rayon::prelude::*;
use serde_json::{json, Value};
use std::collections::HashSet;
use std::io::Write;
use std::sync::atomic::{AtomicU64, Ordering};
use std::sync::{LazyLock, Mutex};
use std::time::Duration;
use surf_n_term::encoder::ColorDepth;
use surf_n_term::render::CellKind;
use surf_n_term::view::{BoxConstraint, Text, Tree, View, ViewContext, ViewLayoutStore};
use surf_n_term::{
    Cell, CellWrite, Error, Face, FaceAttrs, FillRule, Glyph, Image, Position, Shape, Size, Surface,
    SurfaceMut, SurfaceMutView, SurfaceOwned, Terminal, TerminalCaps, TerminalCommand, TerminalEvent,
    TerminalSize, TerminalSurfaceExt, TerminalWaker, RGBA,
};

// ---------------------------------------------------------------------------------------------
// harness terminal: the only public way to obtain a ViewContext with chosen capabilities
// ---------------------------------------------------------------------------------------------

pub struct CtxTerm {
    caps: TerminalCaps,
    size: TerminalSize,
}

impl CtxTerm {
    /// 10x10 cells, 100x50 pixels => 10x5 pixels per cell
    pub fn new(glyphs: bool) -> Self {
        Self {
            caps: TerminalCaps { depth: ColorDepth::TrueColor, glyphs, kitty_keyboard: false },
            size: TerminalSize { cells: Size::new(10, 10), pixels: Size::new(100, 50) },
        }
    }
}

impl CtxTerm {
    /// a terminal that reports the given size in cells and in pixels
    pub fn with_sizes(glyphs: bool, cells: Size, pixels: Size) -> Self {
        Self { caps: TerminalCaps { depth: ColorDepth::TrueColor, glyphs, kitty_keyboard: false }, size: TerminalSize { cells, pixels } }
    }
}

impl Write for CtxTerm {
    fn write(&mut self, buf: &[u8]) -> std::io::Result<usize> {
        Ok(buf.len())
    }
    fn flush(&mut self) -> std::io::Result<()> {
        Ok(())
    }
}

impl Terminal for CtxTerm {
    fn execute(&mut self, _cmd: TerminalCommand) -> Result<(), Error> {
        Ok(())
    }
    fn waker(&self) -> TerminalWaker {
        TerminalWaker::new(|| Ok(()))
    }
    fn poll(&mut self, _timeout: Option<Duration>) -> Result<Option<TerminalEvent>, Error> {
        Ok(None)
    }
    fn dyn_ref(&mut self) -> &mut dyn Terminal {
        self
    }
    fn size(&self) -> Result<TerminalSize, Error> {
        Ok(self.size)
    }
    fn position(&mut self) -> Result<Position, Error> {
        Ok(Position::origin())
    }
    fn frames_pending(&self) -> usize {
        0
    }
    fn frames_drop(&mut self) {}
    fn capabilities(&self) -> &TerminalCaps {
        &self.caps
    }
}

/// ViewContext with 10x5 pixels per cell and the requested glyph capability.
pub fn view_ctx(glyphs: bool) -> ViewContext {
    let term = CtxTerm::new(glyphs);
    let ctx = ViewContext::new(&term).expect("harness terminal cannot fail");
    assert_eq!(ctx.has_glyphs(), glyphs);
    assert_eq!(ctx.pixels_per_cell(), Size::new(10, 5));
    ctx
}

pub const PPC: Size = Size { height: 10, width: 5 };

/// Image occupying `h x w` cells: one pixel more than `h-1 x w-1` cells (rounding up is exercised).
pub fn image_cells(h: usize, w: usize, shade: u8) -> Image {
    let size = Size::new((h - 1) * PPC.height + 1, (w - 1) * PPC.width + 1);
    let data: Vec<RGBA> = (0..size.height * size.width).map(|i| RGBA::new(shade, (i % 251) as u8, 7, 255)).collect();
    Image::from_parts(data.into(), Shape::from(size))
}

pub fn make_glyph(size: Size, fallback: &str) -> Glyph {
    let path = "M1,1 h18 v18 h-18 Z".parse().expect("glyph path");
    Glyph::new(path, FillRule::default(), None, size, fallback.to_string(), None)
}

pub const SENT_CHAR: char = '#';

pub fn sentinel() -> Cell {
    Cell::new_char(
        Face::new(Some(RGBA::new(1, 2, 3, 255)), Some(RGBA::new(250, 251, 252, 255)), FaceAttrs::BOLD),
        SENT_CHAR,
    )
}

// ---------------------------------------------------------------------------------------------
// alphabet
// ---------------------------------------------------------------------------------------------

/// Face of every written cell and of the writers: not the default one, so that the face fill of
/// cells skipped by a tab/newline is observable wherever it lands.
fn pen() -> Face {
    // the background is translucent: composing the face once more than another path does gives another colour
    Face::new(Some(RGBA::new(200, 10, 10, 255)), Some(RGBA::new(9, 200, 90, 128)), FaceAttrs::EMPTY)
}

const NSYM: usize = 12;
const SYM_NAMES: [&str; NSYM + 3] = [
    "a", "é", "世", "U+0301", "NUL", "\\n", "\\t", "\\r", "glyph(gl)", "glyph(世x)", "img1x1", "img2x2", "U+1F600", "glyph(a\\tb)", "glyph(a\\nb)",
];
/// symbols of the extra text-view sweep: glyphs whose fallback text holds a tab / a newline (symbols 13, 14)
const TEXT_EXTRA_SYMS: [u8; 6] = [0, 2, 5, 8, 13, 14];
/// a wide character of four UTF-8 bytes; symbol 12, used by the byte-level part only
const EMOJI: char = '\u{1f600}';
/// symbols of the byte-level part B: the eight character symbols and the four-byte character
const BYTE_SYMS: [u8; 9] = [0, 1, 2, 3, 4, 5, 6, 7, 12];
const SYM_CHARS: [char; 8] = ['a', 'é', '世', '\u{301}', '\0', '\n', '\t', '\r'];

struct Alphabet {
    glyph_n: Glyph,
    glyph_w: Glyph,
    glyph_tab: Glyph,
    glyph_nl: Glyph,
    img1: Image,
    img2: Image,
    cells: Vec<Cell>,
}

static ALPHA: LazyLock<Alphabet> = LazyLock::new(|| {
    let glyph_n = make_glyph(Size::new(1, 2), "gl");
    let glyph_w = make_glyph(Size::new(1, 3), "世x");
    let img1 = image_cells(1, 1, 10);
    let img2 = image_cells(2, 2, 20);
    assert_eq!(img1.size_cells(PPC), Size::new(1, 1));
    assert_eq!(img2.size_cells(PPC), Size::new(2, 2));
    let mut cells: Vec<Cell> = SYM_CHARS.iter().map(|c| Cell::new_char(pen(), *c)).collect();
    cells.push(Cell::new_glyph(pen(), glyph_n.clone()));
    cells.push(Cell::new_glyph(pen(), glyph_w.clone()));
    cells.push(Cell::new_image(img1.clone()).with_face(pen()));
    cells.push(Cell::new_image(img2.clone()).with_face(pen()));
    cells.push(Cell::new_char(pen(), EMOJI));
    let glyph_tab = make_glyph(Size::new(1, 2), "a\tb");
    let glyph_nl = make_glyph(Size::new(1, 2), "a\nb");
    cells.push(Cell::new_glyph(pen(), glyph_tab.clone()));
    cells.push(Cell::new_glyph(pen(), glyph_nl.clone()));
    Alphabet { glyph_n, glyph_w, glyph_tab, glyph_nl, img1, img2, cells }
});

/// What a cell is, as far as the oracle is concerned.
#[derive(Clone, Copy, PartialEq, Eq, Hash, Debug)]
enum Tok {
    Ch(char),
    Glyph(u8),
    Img(u8),
    Other,
}

impl Tok {
    fn show(&self) -> String {
        match self {
            Tok::Ch(c) if (*c as u32) < 0x20 || *c == '\u{301}' => format!("U+{:04X}", *c as u32),
            Tok::Ch(c) => c.to_string(),
            Tok::Glyph(0) => "<glyph gl>".into(),
            Tok::Glyph(1) => "<glyph 世x>".into(),
            Tok::Glyph(2) => "<glyph a\\tb>".into(),
            Tok::Glyph(_) => "<glyph a\\nb>".into(),
            Tok::Img(0) => "<img1x1>".into(),
            Tok::Img(_) => "<img2x2>".into(),
            Tok::Other => "<?>".into(),
        }
    }
}

fn tok_of(cell: &Cell) -> Tok {
    match cell.kind() {
        CellKind::Char(c) => Tok::Ch(*c),
        CellKind::Glyph(g) => {
            if *g == ALPHA.glyph_n {
                Tok::Glyph(0)
            } else if *g == ALPHA.glyph_w {
                Tok::Glyph(1)
            } else if *g == ALPHA.glyph_tab {
                Tok::Glyph(2)
            } else if *g == ALPHA.glyph_nl {
                Tok::Glyph(3)
            } else {
                Tok::Other
            }
        }
        CellKind::Image(i) => {
            if *i == ALPHA.img1 {
                Tok::Img(0)
            } else if *i == ALPHA.img2 {
                Tok::Img(1)
            } else {
                Tok::Other
            }
        }
    }
}

/// Reference widths (Unicode East Asian Width: 世 is wide; é, a narrow; combining and controls 0).
fn ref_char_width(c: char) -> usize {
    match c {
        'a' | 'b' | 'é' | 'g' | 'l' | 'x' => 1,
        '世' | EMOJI => 2,
        _ => 0,
    }
}

/// Printable items of a symbol, in order: (token, width in columns); control characters are
/// returned as `Tok::Ch` with width 0 and handled by the caller.
fn expand(sym: usize, glyphs: bool) -> Vec<(Tok, usize)> {
    match sym {
        0..=7 => vec![(Tok::Ch(SYM_CHARS[sym]), ref_char_width(SYM_CHARS[sym]))],
        8 => {
            if glyphs {
                vec![(Tok::Glyph(0), 2)]
            } else {
                "gl".chars().map(|c| (Tok::Ch(c), ref_char_width(c))).collect()
            }
        }
        9 => {
            if glyphs {
                vec![(Tok::Glyph(1), 3)]
            } else {
                "世x".chars().map(|c| (Tok::Ch(c), ref_char_width(c))).collect()
            }
        }
        10 => vec![(Tok::Img(0), 1)],
        11 => vec![(Tok::Img(1), 2)],
        12 => vec![(Tok::Ch(EMOJI), 2)],
        13 | 14 => {
            if glyphs {
                vec![(Tok::Glyph(sym as u8 - 11), 2)]
            } else {
                (if sym == 13 { "a\tb" } else { "a\nb" }).chars().map(|c| (Tok::Ch(c), ref_char_width(c))).collect()
            }
        }
        _ => unreachable!(),
    }
}

/// Expected tokens on the surface (reference model of the statement).
/// wraps on: every printable cell; wraps off: those with `col + width <= max_width`.
fn expected_tokens(seq: &[u8], glyphs: bool, wraps: bool, max_width: usize) -> Vec<Tok> {
    let mut out = vec![];
    let mut col = 0usize;
    for s in seq {
        for (tok, width) in expand(*s as usize, glyphs) {
            match tok {
                Tok::Ch('\n') => col = 0,
                Tok::Ch('\r') => col = 0,
                Tok::Ch('\t') => {
                    if col < max_width {
                        col = ((col / 8 + 1) * 8).min(max_width);
                    }
                }
                _ if width == 0 => {}
                _ => {
                    if wraps {
                        out.push(tok);
                    } else if col + width <= max_width {
                        out.push(tok);
                        col += width;
                    }
                }
            }
        }
    }
    out
}

// ---------------------------------------------------------------------------------------------
// canvas and placements
// ---------------------------------------------------------------------------------------------

const CH: usize = 7;
const CW: usize = 10;
const PLACEMENTS: [&str; 4] = ["plain", "offset", "strided", "transposed"];

fn target_shape(h: usize, w: usize, placement: usize) -> Shape {
    let (start, row_stride, col_stride) = match placement {
        0 => (0, CW, 1),
        1 => (2 * CW + 3, CW, 1),
        2 => (CW + 1, 2 * CW, 2),
        3 => (CW + 2, 1, CW),
        _ => unreachable!(),
    };
    Shape { start, end: start + (h - 1) * row_stride + w * col_stride, width: w, height: h, row_stride, col_stride }
}

/// bit mask of the canvas offsets that belong to the view (harness arithmetic)
fn inside_mask(shape: &Shape) -> u128 {
    let mut m = 0u128;
    for r in 0..shape.height {
        for c in 0..shape.width {
            let off = shape.start + r * shape.row_stride + c * shape.col_stride;
            assert!(off < CH * CW, "placement outside canvas");
            assert!(m >> off & 1 == 0, "placement aliases");
            m |= 1 << off;
        }
    }
    m
}

static FRESH: LazyLock<Vec<Cell>> = LazyLock::new(|| vec![sentinel(); CH * CW]);

fn fresh_canvas() -> Vec<Cell> {
    FRESH.clone()
}

fn show_canvas(data: &[Cell], width: usize) -> String {
    let mut s = String::new();
    for (i, cell) in data.iter().enumerate() {
        if i % width == 0 {
            s.push_str("\n    |");
        }
        let t = tok_of(cell);
        let ch = match t {
            Tok::Ch(c) if c == SENT_CHAR && *cell != sentinel() => '%', // face touched
            Tok::Ch(c) if (c as u32) < 0x20 => '^',
            Tok::Ch(c) => c,
            Tok::Glyph(_) => 'G',
            Tok::Img(_) => 'I',
            Tok::Other => '?',
        };
        s.push(ch);
    }
    s
}

#[derive(Clone, Copy, Debug, PartialEq, Eq)]
struct Config {
    h: usize,
    w: usize,
    placement: usize,
    wraps: bool,
    glyphs: bool,
    cursor_last: bool,
}

impl Config {
    fn json(&self) -> Value {
        json!({"h": self.h, "w": self.w, "placement": PLACEMENTS[self.placement], "wraps": self.wraps,
               "glyphs": self.glyphs, "cursor_last": self.cursor_last})
    }
    fn from_json(v: &Value) -> Result<Self, String> {
        Ok(Config {
            h: v["h"].as_u64().ok_or("h")? as usize,
            w: v["w"].as_u64().ok_or("w")? as usize,
            placement: PLACEMENTS.iter().position(|p| Some(*p) == v["placement"].as_str()).ok_or("placement")?,
            wraps: v["wraps"].as_bool().ok_or("wraps")?,
            glyphs: v["glyphs"].as_bool().ok_or("glyphs")?,
            cursor_last: v["cursor_last"].as_bool().ok_or("cursor_last")?,
        })
    }
}

const PATHS: [&str; 5] = ["put_cell", "io_write", "utf8_writer", "tty_writer", "text_view"];
const P_PUT: usize = 0;
const P_IO: usize = 1;
const P_UTF8: usize = 2;
const P_TTY: usize = 3;
const P_TEXT: usize = 4;

const SGR_TOKENS: [&str; 3] = ["\x1b[1m", "\x1b[m", "\x1b[31m"];

fn seq_chars(seq: &[u8]) -> Vec<char> {
    seq.iter().map(|s| if *s >= 12 { EMOJI } else { SYM_CHARS[*s as usize] }).collect()
}

fn utf8_bytes(seq: &[u8]) -> Vec<u8> {
    seq_chars(seq).iter().collect::<String>().into_bytes()
}

fn tty_bytes(seq: &[u8]) -> Vec<u8> {
    let mut s = String::new();
    for (i, c) in seq_chars(seq).iter().enumerate() {
        if i > 0 {
            s.push_str(SGR_TOKENS[(i - 1) % 3]);
        }
        s.push(*c);
    }
    s.into_bytes()
}

struct Ctxs {
    on: ViewContext,
    off: ViewContext,
    /// glyph support and cells of 4x2 pixels: only ever used for layouts that precede the checked one
    small: ViewContext,
}

impl Ctxs {
    fn new() -> Self {
        let mut term = CtxTerm::new(true);
        term.size.pixels = Size::new(40, 20);
        let small = ViewContext::new(&term).expect("harness terminal cannot fail");
        assert_eq!(small.pixels_per_cell(), Size::new(4, 2));
        Self { on: view_ctx(true), off: view_ctx(false), small }
    }
    fn get(&self, glyphs: bool) -> &ViewContext {
        if glyphs {
            &self.on
        } else {
            &self.off
        }
    }
}

/// Execute one path on a fresh canvas. `parts` = lengths of the write calls (byte paths).
fn execute(ctxs: &Ctxs, seq: &[u8], cfg: &Config, path: usize, parts: Option<&[usize]>) -> Result<Vec<Cell>, String> {
    let mut data = fresh_canvas();
    let shape = target_shape(cfg.h, cfg.w, cfg.placement);
    let ctx = ctxs.get(cfg.glyphs);
    {
        let mut view = SurfaceMutView::new(shape, &mut data[..]);
        if path == P_TEXT {
            let mut text = Text::new().with_wraps(cfg.wraps);
            for s in seq {
                text.put_cell(ALPHA.cells[*s as usize].clone());
            }
            let mut store = ViewLayoutStore::new();
            let layout = text
                .layout_new(ctx, BoxConstraint::loose(Size::new(cfg.h, cfg.w)), &mut store)
                .map_err(|e| format!("layout error {e:?}"))?;
            text.render(ctx, view, layout.view()).map_err(|e| format!("render error {e:?}"))?;
        } else {
            let mut writer = view.writer(ctx).with_wraps(cfg.wraps).with_face(pen());
            if cfg.cursor_last {
                writer.set_cursor(Position::new(0, cfg.w - 1));
            }
            match path {
                P_PUT => {
                    for s in seq {
                        writer.put_cell(ALPHA.cells[*s as usize].clone());
                    }
                }
                P_IO | P_UTF8 | P_TTY => {
                    let bytes = if path == P_TTY { tty_bytes(seq) } else { utf8_bytes(seq) };
                    let whole = [bytes.len()];
                    let parts: &[usize] = parts.unwrap_or(&whole);
                    let mut off = 0;
                    macro_rules! feed {
                        ($w:expr) => {
                            for p in parts {
                                if *p == 0 {
                                    continue;
                                }
                                $w.write_all(&bytes[off..off + p]).map_err(|e| format!("write error {e}"))?;
                                off += p;
                            }
                        };
                    }
                    match path {
                        P_IO => feed!(writer),
                        P_UTF8 => {
                            let mut w = writer.utf8_writer();
                            feed!(w)
                        }
                        _ => {
                            let mut w = writer.tty_writer();
                            feed!(w)
                        }
                    }
                }
                _ => unreachable!(),
            }
        }
    }
    Ok(data)
}

fn outside_untouched(data: &[Cell], inside: u128) -> Option<usize> {
    let s = &FRESH[0];
    (0..CH * CW).find(|off| inside >> off & 1 == 0 && data[*off] != *s)
}

fn canvas_hash(data: &[Cell]) -> u64 {
    let toks: Vec<(Tok, Face)> = data.iter().map(|c| (tok_of(c), c.face())).collect();
    hash64(&toks)
}

fn kinds_equal(a: &[Cell], b: &[Cell]) -> bool {
    a.iter().zip(b).all(|(x, y)| x.kind() == y.kind())
}

// ---------------------------------------------------------------------------------------------
// the three sub-checks, each usable from `run` and from `replay`
// ---------------------------------------------------------------------------------------------

struct Found {
    kind: String,
    detail: String,
}

/// containment (+ panic) for one path; returns the canvas for further comparisons
fn check_contain(ctxs: &Ctxs, seq: &[u8], cfg: &Config, path: usize, parts: Option<&[usize]>) -> Result<Vec<Cell>, Found> {
    let inside = inside_mask(&target_shape(cfg.h, cfg.w, cfg.placement));
    match catch(|| execute(ctxs, seq, cfg, path, parts)) {
        Err(p) => Err(Found { kind: p.key(), detail: format!("panicked: {} ({}:{})", p.message, p.file, p.line) }),
        Ok(Err(e)) => Err(Found { kind: "error".into(), detail: e }),
        Ok(Ok(data)) => match outside_untouched(&data, inside) {
            Some(off) => Err(Found {
                kind: "outside-modified".into(),
                detail: format!(
                    "canvas cell (row {}, col {}) does not belong to the view but was changed; expected: all cells outside the view equal the sentinel; observed canvas:{}",
                    off / CW,
                    off % CW,
                    show_canvas(&data, CW)
                ),
            }),
            None => Ok(data),
        },
    }
}

/// oracle 3 for one (sequence, wraps, glyphs, W)
fn check_text(ctxs: &Ctxs, seq: &[u8], wraps: bool, glyphs: bool, max_width: usize) -> Result<(Size, Vec<Tok>), Found> {
    check_text_after(ctxs, seq, wraps, glyphs, max_width, false)
}

/// `history`: the text value that is checked has been laid out before -- with the same constraint under the
/// two other contexts (glyph support flipped; other cell size in pixels), with another width under the same
/// context, and it is a clone of the value those layouts were made on. The statement is about the text and the
/// width given, so nothing of this may change the outcome.
fn check_text_after(ctxs: &Ctxs, seq: &[u8], wraps: bool, glyphs: bool, max_width: usize, history: bool) -> Result<(Size, Vec<Tok>), Found> {
    let ctx = ctxs.get(glyphs);
    let has_cr = seq.contains(&7);
    let run = || -> Result<(Size, Vec<Tok>, Vec<Tok>, bool, Option<String>), String> {
        let mut text = Text::new().with_wraps(wraps);
        for s in seq {
            text.put_cell(ALPHA.cells[*s as usize].clone());
        }
        if history {
            let ct = BoxConstraint::loose(Size::new(1000, max_width));
            for prior in [ctxs.get(!glyphs), &ctxs.small] {
                let mut store = ViewLayoutStore::new();
                text.layout_new(prior, ct, &mut store).map_err(|e| format!("layout error {e:?}"))?;
            }
            let mut store = ViewLayoutStore::new();
            text.layout_new(ctx, BoxConstraint::loose(Size::new(1000, max_width + 1)), &mut store)
                .map_err(|e| format!("layout error {e:?}"))?;
            text = text.clone();
        }
        let mut store = ViewLayoutStore::new();
        let layout = text
            .layout_new(ctx, BoxConstraint::loose(Size::new(1000, max_width)), &mut store)
            .map_err(|e| format!("layout error {e:?}"))?;
        let size = layout.size();
        let sent = sentinel();
        let scan = |surf: &SurfaceOwned<Cell>, rows: std::ops::Range<usize>| -> Vec<Tok> {
            let mut v = vec![];
            for row in rows {
                for col in 0..surf.width() {
                    let cell = surf.get(Position::new(row, col)).unwrap();
                    match tok_of(cell) {
                        Tok::Ch(c) if c == SENT_CHAR => {}
                        t => v.push(t),
                    }
                }
            }
            v
        };
        // exact size
        let mut surf = SurfaceOwned::new_with(size, |_| sent.clone());
        text.render(ctx, surf.as_mut(), layout.view()).map_err(|e| format!("render error {e:?}"))?;
        let exact = scan(&surf, 0..size.height);
        // taller surface with the layout stretched to it: nothing may land below the reported height
        let tall_size = Size::new(size.height + 3, size.width);
        let mut store2 = ViewLayoutStore::new();
        let mut tall_layout = text
            .layout_new(ctx, BoxConstraint::loose(Size::new(1000, max_width)), &mut store2)
            .map_err(|e| format!("layout error {e:?}"))?;
        tall_layout.set_size(tall_size);
        let mut tall = SurfaceOwned::new_with(tall_size, |_| sent.clone());
        text.render(ctx, tall.as_mut(), tall_layout.view()).map_err(|e| format!("render error {e:?}"))?;
        let tall_top = scan(&tall, 0..size.height);
        let below = !scan(&tall, size.height..tall_size.height).is_empty();
        // the surface is a window of a larger canvas and the layout rectangle is moved inside it so that it reaches
        // over (or starts at) the window's edges: nothing outside the window may change
        let mut outside: Option<String> = None;
        if size.height > 0 && size.width > 0 {
            let canvas_size = Size::new(size.height + 2, size.width + 4);
            let mut shifts = vec![(0usize, 1usize), (0, size.width - 1), (0, size.width), (1, 0), (1, 1)];
            shifts.dedup();
            for (dr, dc) in shifts {
                let mut canvas = SurfaceOwned::new_with(canvas_size, |_| sent.clone());
                let mut store3 = ViewLayoutStore::new();
                let mut moved = text
                    .layout_new(ctx, BoxConstraint::loose(Size::new(1000, max_width)), &mut store3)
                    .map_err(|e| format!("layout error {e:?}"))?;
                moved.set_position(Position::new(dr, dc));
                {
                    let window = canvas.view_mut(1..1 + size.height, 1..1 + size.width);
                    text.render(ctx, window, moved.view()).map_err(|e| format!("render error {e:?}"))?;
                }
                for row in 0..canvas_size.height {
                    for col in 0..canvas_size.width {
                        let inside = (1..1 + size.height).contains(&row) && (1..1 + size.width).contains(&col);
                        let touched = !matches!(tok_of(canvas.get(Position::new(row, col)).unwrap()), Tok::Ch(c) if c == SENT_CHAR);
                        if touched && (!inside || row < 1 + dr || col < 1 + dc) && outside.is_none() {
                            outside = Some(format!(
                                "the text ({:?} by its own layout) rendered into a {}x{} window of a canvas with its layout rectangle moved to ({dr},{dc}) changed canvas cell ({row},{col}), which is {}",
                                size, size.height, size.width, if inside { "left of / above the rectangle" } else { "outside the window" }
                            ));
                        }
                    }
                }
            }
        }
        Ok((size, exact, tall_top, below, outside))
    };
    let (size, exact, tall_top, below, outside) = match catch(run) {
        Err(p) => return Err(Found { kind: p.key(), detail: format!("panicked: {} ({}:{})", p.message, p.file, p.line) }),
        Ok(Err(e)) => return Err(Found { kind: "error".into(), detail: e }),
        Ok(Ok(v)) => v,
    };
    let show = |v: &[Tok]| v.iter().map(|t| t.show()).collect::<Vec<_>>().join(" ");
    if size.width > max_width {
        return Err(Found { kind: "width-exceeds-max".into(), detail: format!("layout reported {size:?} for max width {max_width}") });
    }
    if let Some(detail) = outside {
        return Err(Found { kind: "moved-layout-writes-outside".into(), detail });
    }
    if below || tall_top != exact {
        return Err(Found {
            kind: "render-below-reported-height".into(),
            detail: format!(
                "layout reported {:?} for max width {}; rendering into a surface 3 rows taller places cells below row {} or differs: exact=[{}] taller(top)=[{}] below={}",
                size, max_width, size.height, show(&exact), show(&tall_top), below
            ),
        });
    }
    if !has_cr {
        let expected = expected_tokens(seq, glyphs, wraps, max_width);
        if exact != expected {
            let is_subseq = {
                let mut it = expected.iter();
                exact.iter().all(|t| it.any(|e| e == t))
            };
            let mut a = exact.clone();
            let mut b = expected.clone();
            a.sort_by_key(|t| t.show());
            b.sort_by_key(|t| t.show());
            let kind = if is_subseq && exact.len() < expected.len() {
                "cell-lost"
            } else if a == b {
                "order"
            } else {
                "mismatch"
            };
            return Err(Found {
                kind: format!("{}{}", if wraps { "" } else { "nowrap-" }, kind),
                detail: format!(
                    "max width {}, wraps {}, glyphs {}: layout reported {:?}; expected cells on the surface (row-major): [{}]; observed: [{}]",
                    max_width, wraps, glyphs, size, show(&expected), show(&exact)
                ),
            });
        }
    }
    Ok((size, exact))
}

fn partitions_for(n: usize) -> (Vec<Vec<usize>>, bool) {
    if n <= 1 {
        return (vec![], true);
    }
    if n <= 12 {
        ((1..1u64 << (n - 1)).map(|m| cuts_from_mask(n, m)).collect(), true)
    } else {
        let mut v = partitions_upto_cuts(n, 2);
        v.remove(0); // the single write is the reference
        v.push(vec![1; n]);
        (v, false)
    }
}

fn seq_from_index(mut idx: u64, len: usize, radix: u64) -> Vec<u8> {
    let mut v = vec![0u8; len];
    for i in (0..len).rev() {
        v[i] = (idx % radix) as u8;
        idx /= radix;
    }
    v
}

fn seq_json(seq: &[u8]) -> Value {
    json!(seq.iter().map(|s| SYM_NAMES[*s as usize]).collect::<Vec<_>>())
}

fn seq_from_json(v: &Value) -> Result<Vec<u8>, String> {
    v.as_array()
        .ok_or("seq")?
        .iter()
        .map(|s| SYM_NAMES.iter().position(|n| Some(*n) == s.as_str()).map(|p| p as u8).ok_or_else(|| "bad symbol".to_string()))
        .collect()
}

fn all_configs(glyph_dim: bool) -> Vec<Config> {
    let mut v = vec![];
    for h in 1..=3 {
        for w in 1..=5 {
            for placement in 0..4 {
                for wraps in [true, false] {
                    for glyphs in if glyph_dim { vec![true, false] } else { vec![false] } {
                        for cursor_last in [false, true] {
                            v.push(Config { h, w, placement, wraps, glyphs, cursor_last });
                        }
                    }
                }
            }
        }
    }
    v
}

/// medium configuration set (60): every size x {strided, transposed} x wraps, cursor at the origin
fn medium_configs() -> Vec<Config> {
    let mut v = vec![];
    for h in 1..=3 {
        for w in 1..=5 {
            for placement in [2, 3] {
                for wraps in [true, false] {
                    v.push(Config { h, w, placement, wraps, glyphs: false, cursor_last: false });
                }
            }
        }
    }
    v
}

/// reduced configuration sets used for the chunking check on long byte strings (thorough tier)
fn reduced_configs(sizes: &[(usize, usize)]) -> Vec<Config> {
    let mut v = vec![];
    for (h, w) in sizes {
        for placement in [2, 3] {
            for wraps in [true, false] {
                v.push(Config { h: *h, w: *w, placement, wraps, glyphs: false, cursor_last: false });
            }
        }
    }
    v
}

pub fn run(ctx: &Ctx) -> Result<Report, String> {
    let max_len: usize = ctx.tier.pick(4, 6);
    // chunking: configuration set per sequence length (index = length)
    let cfg_full = all_configs(false);
    let cfg_medium = medium_configs();
    let cfg_12 = reduced_configs(&[(1, 1), (2, 3), (3, 5)]);
    let cfg_2: Vec<Config> = reduced_configs(&[(2, 3)]).into_iter().filter(|c| c.placement == 2).collect();
    // (the tty strings carry SGR tokens and are 4..12 bytes longer, hence their own table)
    let chunk_cfgs: Vec<&Vec<Config>> = match ctx.tier {
        Tier::Quick => vec![&cfg_full, &cfg_full, &cfg_full, &cfg_full, &cfg_medium],
        Tier::Thorough => vec![&cfg_full, &cfg_full, &cfg_full, &cfg_full, &cfg_full, &cfg_12, &cfg_2],
    };
    let chunk_cfgs_tty: Vec<&Vec<Config>> = match ctx.tier {
        Tier::Quick => vec![&cfg_full, &cfg_full, &cfg_full, &cfg_medium, &cfg_12],
        Tier::Thorough => vec![&cfg_full, &cfg_full, &cfg_full, &cfg_full, &cfg_medium, &cfg_12, &cfg_2],
    };
    let chunk_max_len: usize = chunk_cfgs.len() - 1;
    let viol = Violations::new();
    let samples = Samples::new(ctx.seed);
    let ev_put = AtomicU64::new(0);
    let ev_text_view = AtomicU64::new(0);
    let ev_bytes = AtomicU64::new(0);
    let ev_chunk = AtomicU64::new(0);
    let ev_chunk_capped = AtomicU64::new(0);
    let ev_text = AtomicU64::new(0);
    let ev_cross = AtomicU64::new(0);
    let nontrivial = AtomicU64::new(0);
    let capped = std::sync::atomic::AtomicBool::new(false);
    let outcomes: Vec<Mutex<HashSet<u64>>> = (0..64).map(|_| Mutex::new(HashSet::new())).collect();
    let text_outcomes: Vec<Mutex<HashSet<u64>>> = (0..64).map(|_| Mutex::new(HashSet::new())).collect();
    let configs_all = all_configs(true);
    LazyLock::force(&ALPHA);
    let fresh_hash = canvas_hash(&FRESH);

    // ---- part A: cell level (put_cell, Text view into the target, oracle 3) over all 12 symbols
    let mut seq_count_by_len = vec![];
    for len in 0..=max_len {
        let total = (NSYM as u64).pow(len as u32);
        seq_count_by_len.push(total);
        (0..total).into_par_iter().for_each_init(Ctxs::new, |ctxs, idx| {
            if capped.load(Ordering::Relaxed) {
                return;
            }
            if idx % 4096 == 0 && ctx.over_cap() {
                capped.store(true, Ordering::Relaxed);
                return;
            }
            let seq = seq_from_index(idx, len, NSYM as u64);
            let mut local_out: Vec<u64> = vec![];
            let mut nt = 0u64;
            let has_glyph = seq.iter().any(|s| *s == 8 || *s == 9);
            let has_image = seq.iter().any(|s| *s == 10 || *s == 11);
            for cfg in &configs_all {
                // glyph capability is irrelevant when the sequence has no glyph: explore it once
                if !has_glyph && cfg.glyphs {
                    continue;
                }
                // the longest sequences of the thorough tier: strided and transposed placements only
                if len > 5 && cfg.placement < 2 {
                    continue;
                }
                for path in [P_PUT, P_TEXT] {
                    if path == P_TEXT && cfg.cursor_last {
                        continue;
                    }
                    if path == P_PUT {
                        ev_put.fetch_add(1, Ordering::Relaxed);
                    } else {
                        ev_text_view.fetch_add(1, Ordering::Relaxed);
                    }
                    match check_contain(ctxs, &seq, cfg, path, None) {
                        Ok(data) => {
                            let h = canvas_hash(&data);
                            if h != fresh_hash {
                                nt += 1;
                            }
                            if path == P_PUT {
                                local_out.push(h);
                            }
                        }
                        Err(f) => viol.add(
                            format!("{}:{}", PATHS[path], f.kind),
                            format!("{} of [{}] into {}: {}", PATHS[path], seq_json(&seq), cfg.json(), f.detail),
                            json!({"check": "contain", "seq": seq_json(&seq), "config": cfg.json(), "path": PATHS[path]}),
                        ),
                    }
                }
            }
            // oracle 3
            let mut local_text: Vec<u64> = vec![];
            for wraps in [true, false] {
                for glyphs in [true, false] {
                    if !has_glyph && glyphs {
                        continue;
                    }
                    for w in 1..=6usize {
                        ev_text.fetch_add(1, Ordering::Relaxed);
                        let case = || json!({"check": "text", "seq": seq_json(&seq), "wraps": wraps, "glyphs": glyphs, "max_width": w});
                        samples.offer(hash64(&(&seq, wraps, glyphs, w)), case);
                        match check_text(ctxs, &seq, wraps, glyphs, w) {
                            Ok((size, toks)) => {
                                if !toks.is_empty() {
                                    nt += 1;
                                }
                                local_text.push(hash64(&(size, &toks)));
                                // the same text laid out before under other contexts and widths
                                if has_glyph || has_image {
                                    ev_text.fetch_add(1, Ordering::Relaxed);
                                    let case = || json!({"check": "text", "seq": seq_json(&seq), "wraps": wraps, "glyphs": glyphs, "max_width": w, "history": true});
                                    match check_text_after(ctxs, &seq, wraps, glyphs, w, true) {
                                        Ok(again) if again == (size, toks.clone()) => {}
                                        Ok((size2, toks2)) => viol.add(
                                            "text:depends-on-earlier-layouts".to_string(),
                                            format!(
                                                "Text of [{}], max width {w}, wraps {wraps}, glyphs {glyphs}: fresh value gives {:?} / {} cells, the value laid out before under other contexts gives {:?} / {} cells",
                                                seq_json(&seq), size, toks.len(), size2, toks2.len()
                                            ),
                                            case(),
                                        ),
                                        Err(f) => viol.add(
                                            format!("text:after-earlier-layouts:{}", f.kind),
                                            format!("Text of [{}] laid out before under other contexts: {}", seq_json(&seq), f.detail),
                                            case(),
                                        ),
                                    }
                                }
                            }
                            Err(f) => viol.add(
                                format!("text:{}", f.kind),
                                format!("Text of [{}]: {}", seq_json(&seq), f.detail),
                                case(),
                            ),
                        }
                    }
                }
            }
            nontrivial.fetch_add(nt, Ordering::Relaxed);
            for h in local_out {
                outcomes[(h % 64) as usize].lock().unwrap().insert(h);
            }
            for h in local_text {
                text_outcomes[(h % 64) as usize].lock().unwrap().insert(h);
            }
        });
    }

    // ---- part A': text view only, glyphs whose fallback text contains a tab or a newline
    {
        let k = TEXT_EXTRA_SYMS.len() as u64;
        let mut seqs: Vec<Vec<u8>> = vec![];
        for len in 1..=3usize {
            for idx in 0..k.pow(len as u32) {
                let seq: Vec<u8> = seq_from_index(idx, len, k).iter().map(|d| TEXT_EXTRA_SYMS[*d as usize]).collect();
                if seq.iter().any(|x| *x >= 13) {
                    seqs.push(seq);
                }
            }
        }
        seqs.par_iter().for_each_init(Ctxs::new, |ctxs, seq| {
            for wraps in [true, false] {
                for glyphs in [true, false] {
                    for w in [1usize, 2, 3, 4, 5, 6, 9, 10, 30] {
                        ev_text.fetch_add(1, Ordering::Relaxed);
                        if let Err(f) = check_text(ctxs, seq, wraps, glyphs, w) {
                            viol.add(
                                format!("text:{}", f.kind),
                                format!("Text of [{}]: {}", seq_json(seq), f.detail),
                                json!({"check": "text", "seq": seq_json(seq), "wraps": wraps, "glyphs": glyphs, "max_width": w}),
                            );
                        }
                    }
                }
            }
        });
    }

    // ---- part B: byte level (io::Write, utf8_writer, tty_writer) over the 8 character symbols
    let mut byte_seq_counts = vec![];
    // one byte-level case: `seq` written through the three byte paths into every configuration, whole and under
    // the given partitions; `tty_ok` selects the configurations the (slower) tty path is run for
    let byte_case = |ctxs: &mut Ctxs,
                     seq: &[u8],
                     cfgs: &[Config],
                     tty_ok: &dyn Fn(&Config) -> bool,
                     parts_utf8: &(Vec<Vec<usize>>, bool),
                     parts_tty: &(Vec<Vec<usize>>, bool)| {
        let seq: Vec<u8> = seq.to_vec();
        let mut nt = 0u64;
            for cfg in cfgs {
                let reference = match check_contain(ctxs, &seq, cfg, P_PUT, None) {
                    Ok(d) => d,
                    Err(_) => continue, // reported by part A
                };
                for path in [P_IO, P_UTF8, P_TTY] {
                    if path == P_TTY && !tty_ok(cfg) {
                        continue;
                    }
                    ev_bytes.fetch_add(1, Ordering::Relaxed);
                    let whole = match check_contain(ctxs, &seq, cfg, path, None) {
                        Ok(d) => d,
                        Err(f) => {
                            viol.add(
                                format!("{}:{}", PATHS[path], f.kind),
                                format!("{} of [{}] into {}: {}", PATHS[path], seq_json(&seq), cfg.json(), f.detail),
                                json!({"check": "contain", "seq": seq_json(&seq), "config": cfg.json(), "path": PATHS[path]}),
                            );
                            continue;
                        }
                    };
                    // cross-path agreement with put_cell
                    ev_cross.fetch_add(1, Ordering::Relaxed);
                    let agrees = if path == P_TTY { kinds_equal(&whole, &reference) } else { whole == reference };
                    if !agrees {
                        viol.add(
                            format!("{}:differs-from-put_cell", PATHS[path]),
                            format!(
                                "{} of [{}] into {} gives a different canvas than put_cell of the same characters: put_cell:{} {}:{}",
                                PATHS[path], seq_json(&seq), cfg.json(), show_canvas(&reference, CW), PATHS[path], show_canvas(&whole, CW)
                            ),
                            json!({"check": "cross", "seq": seq_json(&seq), "config": cfg.json(), "path": PATHS[path]}),
                        );
                    }
                    if canvas_hash(&whole) != fresh_hash {
                        nt += 1;
                    }
                    let (parts, full) = if path == P_TTY { parts_tty } else { parts_utf8 };
                    for p in parts {
                        if *full {
                            ev_chunk.fetch_add(1, Ordering::Relaxed);
                        } else {
                            ev_chunk_capped.fetch_add(1, Ordering::Relaxed);
                        }
                        let case = || json!({"check": "chunk", "seq": seq_json(&seq), "config": cfg.json(), "path": PATHS[path], "parts": p});
                        match check_contain(ctxs, &seq, cfg, path, Some(p)) {
                            Ok(d) => {
                                if d != whole {
                                    viol.add(
                                        format!("{}:chunk-dependent", PATHS[path]),
                                        format!(
                                            "{} of [{}] into {} split into writes of {:?} bytes differs from a single write: single:{} split:{}",
                                            PATHS[path], seq_json(&seq), cfg.json(), p, show_canvas(&whole, CW), show_canvas(&d, CW)
                                        ),
                                        case(),
                                    );
                                }
                            }
                            Err(f) => {
                                // the single write succeeded: a failure here is a dependence on the chunking
                                let kind = if f.kind == "error" { "chunk-dependent-error".to_string() } else { f.kind.clone() };
                                viol.add(
                                    format!("{}:{}", PATHS[path], kind),
                                    format!(
                                        "{} of [{}] into {} succeeds as a single write but split into writes of {:?} bytes: {}",
                                        PATHS[path], seq_json(&seq), cfg.json(), p, f.detail
                                    ),
                                    case(),
                                )
                            }
                        }
                    }
                }
            }
        nontrivial.fetch_add(nt, Ordering::Relaxed);
    };
    for len in 0..=chunk_max_len {
        let total = (BYTE_SYMS.len() as u64).pow(len as u32);
        byte_seq_counts.push(total);
        let cfgs: &Vec<Config> = chunk_cfgs[len];
        (0..total).into_par_iter().for_each_init(Ctxs::new, |ctxs, idx| {
            if capped.load(Ordering::Relaxed) {
                return;
            }
            if idx % 256 == 0 && ctx.over_cap() {
                capped.store(true, Ordering::Relaxed);
                return;
            }
            let seq: Vec<u8> = seq_from_index(idx, len, BYTE_SYMS.len() as u64).iter().map(|d| BYTE_SYMS[*d as usize]).collect();
            let parts_utf8 = partitions_for(utf8_bytes(&seq).len());
            let parts_tty = partitions_for(tty_bytes(&seq).len());
            byte_case(ctxs, &seq, cfgs, &|cfg| chunk_cfgs_tty[len].contains(cfg), &parts_utf8, &parts_tty);
        });
    }

    // ---- part B': long runs. 33 / 70 narrow characters, then each byte-level symbol, then three more characters:
    // whole, cut at every single position, and byte by byte (bulk handling of long writes must not change the cells)
    let long_seqs: Vec<Vec<u8>> = [33usize, 70]
        .iter()
        .flat_map(|k| {
            BYTE_SYMS.iter().map(move |s| {
                let mut v = vec![0u8; *k];
                v.push(*s);
                v.extend([0u8, 2, 0]);
                v
            })
        })
        .collect();
    let long_cfgs = chunk_cfgs[chunk_max_len];
    long_seqs.par_iter().for_each_init(Ctxs::new, |ctxs, seq| {
        if capped.load(Ordering::Relaxed) {
            return;
        }
        let cuts = |n: usize| -> (Vec<Vec<usize>>, bool) {
            let mut v: Vec<Vec<usize>> = (1..n).map(|a| vec![a, n - a]).collect();
            v.push(vec![1; n]);
            (v, false)
        };
        let parts_utf8 = cuts(utf8_bytes(seq).len());
        let parts_tty = cuts(tty_bytes(seq).len());
        byte_case(ctxs, seq, long_cfgs, &|cfg| chunk_cfgs_tty[chunk_max_len].contains(cfg), &parts_utf8, &parts_tty);
    });
    let long_run_sequences = long_seqs.len();
    let capped = capped.load(Ordering::Relaxed);
    let distinct_canvases: usize = outcomes.iter().map(|m| m.lock().unwrap().len()).sum();
    let distinct_text: usize = text_outcomes.iter().map(|m| m.lock().unwrap().len()).sum();
    let g = |a: &AtomicU64| a.load(Ordering::Relaxed);
    let evaluations = g(&ev_put) + g(&ev_text_view) + g(&ev_bytes) + g(&ev_chunk) + g(&ev_chunk_capped) + g(&ev_text);
    let mut r = Report::new("exploration");
    r.set("long_run_sequences", long_run_sequences);
    r.set("evaluations", evaluations)
        .set("distinct_nontrivial", g(&nontrivial))
        .set(
            "rule",
            "one evaluation = one execution of one path on a fresh canvas for one (symbol sequence, target size, placement, wraps, \
             glyph capability, initial cursor[, partition of the bytes]) or one Text layout+render for (sequence, wraps, glyphs, max width); \
             all cases distinct by construction (the glyph-capability dimension is explored only for sequences that contain a glyph); \
             non-trivial = the execution changed at least one canvas cell / put at least one printable cell on the text surface",
        )
        .set("samples", samples.into_vec())
        .set("exhaustive", !capped)
        .set("capped", capped)
        .set("max_sequence_length", max_len)
        .set("symbols", json!(SYM_NAMES))
        .set("sequences_by_length_cell_level", json!(seq_count_by_len))
        .set("sequences_by_length_byte_level", json!(byte_seq_counts))
        .set("configurations_cell_level", configs_all.len())
        .set("configurations_utf8_paths_by_sequence_length", json!(chunk_cfgs.iter().map(|c| c.len()).collect::<Vec<_>>()))
        .set("configurations_tty_path_by_sequence_length", json!(chunk_cfgs_tty.iter().map(|c| c.len()).collect::<Vec<_>>()))
        .set("chunking_max_length", chunk_max_len)
        .set("evaluations_put_cell", g(&ev_put))
        .set("evaluations_text_view_into_target", g(&ev_text_view))
        .set("evaluations_byte_paths_single_write", g(&ev_bytes))
        .set("evaluations_all_partitions", g(&ev_chunk))
        .set("evaluations_partitions_capped_family", g(&ev_chunk_capped))
        .set("evaluations_text_oracle3", g(&ev_text))
        .set("cross_path_comparisons", g(&ev_cross))
        .set("distinct_put_cell_canvases", distinct_canvases)
        .set("distinct_text_outcomes", distinct_text)
        .set(
            "partition_rule",
            "byte strings of <= 12 bytes: all 2^(n-1) partitions; longer (tty_writer with SGR tokens, thorough length 5-6): every partition \
             with <= 2 cuts plus the byte-at-a-time partition (exhaustive=false for that sub-space, counted separately)",
        )
        .set("raw_violations", viol.raw_count());
    {
        r.set(
            "tier_note",
            "cell level: every configuration for every sequence up to length 5, length 6 (thorough) with the strided and transposed \
             placements only; byte level: configuration sets shrink with the sequence length (240 = all sizes x placements x wraps x \
             cursor; 60 = all sizes x strided/transposed x wraps; 12 = sizes 1x1,2x3,3x5 x strided/transposed x wraps; 2 = size 2x3 \
             strided x wraps), see configurations_*_by_sequence_length",
        );
    }
    r.assume("Unicode widths: a, é, g, l, x narrow; 世 wide; U+0301, NUL and control characters zero width");
    r.assume("tab stops every 8 columns clipped at the right edge; newline resets the column (only needed for the wraps-off expectation)");
    r.assume("texts containing a carriage return are exempt from the exactly-once expectation (overwriting is inherent); they are still checked for containment and layout/render agreement");
    r.assume("a panic of a writer counts as a violation; so does an io error on valid UTF-8 input (in particular one that appears only for some partitions: the outcome of writing must not depend on the chunking)");
    r.violations = viol.into_vec();
    Ok(r)
}

pub fn replay(w: &Value) -> Result<(bool, String), String> {
    let ctxs = Ctxs::new();
    let seq = seq_from_json(&w["seq"])?;
    match w["check"].as_str().ok_or("check")? {
        "text" => {
            let wraps = w["wraps"].as_bool().ok_or("wraps")?;
            let glyphs = w["glyphs"].as_bool().ok_or("glyphs")?;
            let mw = w["max_width"].as_u64().ok_or("max_width")? as usize;
            let history = w["history"].as_bool().unwrap_or(false);
            if history {
                if let (Ok(fresh), Ok(after)) = (check_text(&ctxs, &seq, wraps, glyphs, mw), check_text_after(&ctxs, &seq, wraps, glyphs, mw, true)) {
                    if fresh != after {
                        return Ok((
                            true,
                            format!(
                                "[depends-on-earlier-layouts] fresh value: {:?} with {} cells; value laid out before under other contexts: {:?} with {} cells",
                                fresh.0, fresh.1.len(), after.0, after.1.len()
                            ),
                        ));
                    }
                }
            }
            Ok(match check_text_after(&ctxs, &seq, wraps, glyphs, mw, history) {
                Err(f) => (true, format!("[{}] {}", f.kind, f.detail)),
                Ok((size, toks)) => (
                    false,
                    format!(
                        "layout {:?}; surface holds exactly the expected cells [{}]",
                        size,
                        toks.iter().map(|t| t.show()).collect::<Vec<_>>().join(" ")
                    ),
                ),
            })
        }
        check @ ("contain" | "chunk" | "cross") => {
            let cfg = Config::from_json(&w["config"])?;
            let path = PATHS.iter().position(|p| Some(*p) == w["path"].as_str()).ok_or("path")?;
            let parts: Option<Vec<usize>> = w["parts"].as_array().map(|a| a.iter().map(|x| x.as_u64().unwrap_or(0) as usize).collect());
            let got = check_contain(&ctxs, &seq, &cfg, path, parts.as_deref());
            let data = match got {
                Err(f) => return Ok((true, format!("[{}] {}", f.kind, f.detail))),
                Ok(d) => d,
            };
            match check {
                "contain" => Ok((false, format!("all cells outside the view untouched:{}", show_canvas(&data, CW)))),
                "chunk" => {
                    let whole = check_contain(&ctxs, &seq, &cfg, path, None).map_err(|f| f.detail)?;
                    let differs = whole != data;
                    Ok((
                        differs,
                        format!(
                            "expected (single write):{}\nobserved (writes of {:?} bytes):{}",
                            show_canvas(&whole, CW),
                            parts.unwrap_or_default(),
                            show_canvas(&data, CW)
                        ),
                    ))
                }
                _ => {
                    let reference = check_contain(&ctxs, &seq, &cfg, P_PUT, None).map_err(|f| f.detail)?;
                    let agrees = if path == P_TTY { kinds_equal(&data, &reference) } else { data == reference };
                    Ok((
                        !agrees,
                        format!("expected (put_cell):{}\nobserved ({}):{}", show_canvas(&reference, CW), PATHS[path], show_canvas(&data, CW)),
                    ))
                }
            }
        }
        other => Err(format!("unknown check {other}")),
    }
}
