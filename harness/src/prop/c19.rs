//! C19 -- serialised forms round-trip; no JSON document can crash deserialisation.
//!
//! Part 1 (in-process, complete over lattices): faces through Display/FromStr and serde,
//! writable keys x modifier sets and chords of length <= 3, sizes, images (all crops of
//! 0..=3 x 0..=3 and 1x1000 images, hand-made strided shapes, hand-built 1/3/4 channel inputs).
//! Part 2 (worker subprocesses, deviation-bounded): 3 valid seed documents per deserialiser
//! (Image, Glyph, Text, view tree); every single mutation (quick) and every pair (thorough) of
//! the mutation alphabet at every JSON node; oracle: deserialisation returns, and whatever
//! deserialises is laid out under 6 constraints and rendered into a sentinel-bordered canvas.
use crate::engine::panics::PanicInfo;
use crate::engine::report::{Ctx, Report, Samples, Tier, Violation, Violations};
use crate::engine::workers::{self, Spec, WorkerCtx};
use crate::engine::{catch, util};
use rayon::prelude::*;
use serde::de::DeserializeSeed;
use serde::Deserialize;
use serde_json::{json, Value};
use std::cell::Cell as StdCell;
use std::collections::{BTreeMap, BTreeSet};
use std::sync::atomic::{AtomicU64, Ordering};
use std::sync::Arc;
use std::time::{Duration, Instant};
use surf_n_term::view::{
    ArcView, BoxConstraint, Text, Tree, View, ViewCache, ViewContext, ViewDeserializer, ViewLayoutStore,
};
use surf_n_term::{
    Cell, Face, FaceAttrs, Glyph, Image, Key, KeyChord, KeyMod, KeyName, Position, Shape, Size,
    Surface, SurfaceMut, SurfaceOwned, RGBA,
};

// ---------------------------------------------------------------------------------------------
// small helpers
// ---------------------------------------------------------------------------------------------

const B64_ALPHABET: &[u8; 64] = b"ABCDEFGHIJKLMNOPQRSTUVWXYZabcdefghijklmnopqrstuvwxyz0123456789+/";

/// RFC 4648 section 4 encoding, with padding.
fn b64_encode(bytes: &[u8]) -> String {
    let mut out = String::with_capacity(bytes.len().div_ceil(3) * 4);
    for chunk in bytes.chunks(3) {
        let b0 = chunk[0] as u32;
        let b1 = *chunk.get(1).unwrap_or(&0) as u32;
        let b2 = *chunk.get(2).unwrap_or(&0) as u32;
        let n = (b0 << 16) | (b1 << 8) | b2;
        out.push(B64_ALPHABET[(n >> 18) as usize & 63] as char);
        out.push(B64_ALPHABET[(n >> 12) as usize & 63] as char);
        if chunk.len() > 1 {
            out.push(B64_ALPHABET[(n >> 6) as usize & 63] as char);
        } else {
            out.push('=');
        }
        if chunk.len() > 2 {
            out.push(B64_ALPHABET[n as usize & 63] as char);
        } else {
            out.push('=');
        }
    }
    out
}

/// RFC 4648 decoding; padding optional (the statement does not fix whether output is padded).
fn b64_decode_lenient(s: &str) -> Option<Vec<u8>> {
    let body = s.trim_end_matches('=');
    if s.len() - body.len() > 2 {
        return None;
    }
    let mut out = Vec::with_capacity(body.len() * 3 / 4);
    let mut acc = 0u32;
    let mut bits = 0;
    for c in body.bytes() {
        let v = B64_ALPHABET.iter().position(|a| *a == c)? as u32;
        acc = (acc << 6) | v;
        bits += 6;
        if bits >= 8 {
            bits -= 8;
            out.push((acc >> bits) as u8);
            acc &= (1 << bits) - 1;
        }
    }
    if body.len() % 4 == 1 {
        return None;
    }
    Some(out)
}

fn squash(msg: &str, max: usize) -> String {
    let mut out = String::new();
    let mut last_digit = false;
    for c in msg.chars() {
        if c.is_ascii_digit() {
            if !last_digit {
                out.push('#');
            }
            last_digit = true;
        } else {
            last_digit = false;
            out.push(c);
        }
        if out.len() >= max {
            break;
        }
    }
    out
}

/// Name of the function enclosing `line` of `file` (nearest preceding `fn name`), "?" if the
/// source is not readable. Used to make panic keys identify message + file + function.
fn fn_of(file: &str, line: u32) -> String {
    thread_local! {
        static CACHE: std::cell::RefCell<BTreeMap<(String, u32), String>> = const { std::cell::RefCell::new(BTreeMap::new()) };
    }
    if let Some(hit) = CACHE.with(|c| c.borrow().get(&(file.to_string(), line)).cloned()) {
        return hit;
    }
    let name = fn_of_uncached(file, line);
    CACHE.with(|c| c.borrow_mut().insert((file.to_string(), line), name.clone()));
    name
}

fn fn_of_uncached(file: &str, line: u32) -> String {
    let Ok(text) = std::fs::read_to_string(file) else {
        return "?".into();
    };
    let lines: Vec<&str> = text.lines().collect();
    let mut i = (line as usize).min(lines.len());
    while i > 0 {
        i -= 1;
        let l = lines[i].trim_start();
        if l.starts_with("//") {
            continue;
        }
        let mut from = 0;
        while let Some(p) = l[from..].find("fn ") {
            let at = from + p;
            let ok_before = at == 0 || l.as_bytes()[at - 1] == b' ';
            if ok_before {
                let name: String = l[at + 3..]
                    .chars()
                    .take_while(|c| c.is_alphanumeric() || *c == '_')
                    .collect();
                if !name.is_empty() {
                    return name;
                }
            }
            from = at + 3;
        }
    }
    "?".into()
}

fn short_file(file: &str) -> String {
    if let Some(i) = file.find("/registry/src/") {
        let rest = &file[i + "/registry/src/".len()..];
        // <index-dir>/<crate-version>/src/...
        let mut it = rest.splitn(2, '/');
        let _ = it.next();
        return it.next().unwrap_or(rest).to_string();
    }
    if let Some(i) = file.find("/library/") {
        return format!("std:{}", &file[i + "/library/".len()..]);
    }
    match file.rfind("/src/") {
        Some(i) => file[i + 5..].to_string(),
        None => file.to_string(),
    }
}

/// `<prefix>:panic[<message, digits squashed>]@<file>::<function>`
fn panic_key(prefix: &str, p: &PanicInfo) -> String {
    let key = format!(
        "{}:panic[{}]@{}::{}",
        prefix,
        squash(&p.message, 100),
        short_file(&p.file),
        fn_of(&p.file, p.line)
    );
    // diagnostic only (keys must not depend on line numbers): C19_KEY_LINES=1 splits keys by line
    if std::env::var_os("C19_KEY_LINES").is_some() {
        return format!("{key}#L{}", p.line);
    }
    key
}

fn panic_text(p: &PanicInfo) -> String {
    format!("panicked: {} ({}:{})", p.message, p.file, p.line)
}

// ---------------------------------------------------------------------------------------------
// JSON document model (keeps key order and duplicate keys; emits text and serde_json::Value)
// ---------------------------------------------------------------------------------------------

#[derive(Clone, Debug, PartialEq)]
enum J {
    Null,
    Bool(bool),
    /// number literal, emitted verbatim
    Num(String),
    Str(String),
    Arr(Vec<J>),
    Obj(Vec<(String, J)>),
    /// `n` nested arrays, the innermost one empty
    Deep(usize),
    /// `n` nested arrays around the number 1: an ill-typed leaf whose error has to travel up through every level
    DeepBad(usize),
}

fn n(lit: &str) -> J {
    J::Num(lit.to_string())
}
fn s(v: &str) -> J {
    J::Str(v.to_string())
}
fn arr(v: Vec<J>) -> J {
    J::Arr(v)
}
fn obj(v: Vec<(&str, J)>) -> J {
    J::Obj(v.into_iter().map(|(k, v)| (k.to_string(), v)).collect())
}

fn emit_str(out: &mut String, v: &str) {
    out.push('"');
    for c in v.chars() {
        match c {
            '"' => out.push_str("\\\""),
            '\\' => out.push_str("\\\\"),
            '\n' => out.push_str("\\n"),
            '\r' => out.push_str("\\r"),
            '\t' => out.push_str("\\t"),
            c if (c as u32) < 0x20 => out.push_str(&format!("\\u{:04x}", c as u32)),
            c => out.push(c),
        }
    }
    out.push('"');
}

impl J {
    fn emit(&self, out: &mut String) {
        match self {
            J::Null => out.push_str("null"),
            J::Bool(b) => out.push_str(if *b { "true" } else { "false" }),
            J::Num(l) => out.push_str(l),
            J::Str(v) => emit_str(out, v),
            J::Arr(v) => {
                out.push('[');
                for (i, e) in v.iter().enumerate() {
                    if i > 0 {
                        out.push(',');
                    }
                    e.emit(out);
                }
                out.push(']');
            }
            J::Obj(v) => {
                out.push('{');
                for (i, (k, e)) in v.iter().enumerate() {
                    if i > 0 {
                        out.push(',');
                    }
                    emit_str(out, k);
                    out.push(':');
                    e.emit(out);
                }
                out.push('}');
            }
            J::Deep(n) => {
                for _ in 0..*n {
                    out.push('[');
                }
                for _ in 0..*n {
                    out.push(']');
                }
            }
            J::DeepBad(n) => {
                for _ in 0..*n {
                    out.push('[');
                }
                out.push('1');
                for _ in 0..*n {
                    out.push(']');
                }
            }
        }
    }

    fn text(&self) -> String {
        let mut out = String::new();
        self.emit(&mut out);
        out
    }

    /// The same document as a `serde_json::Value` (a repeated key keeps its last value).
    fn value(&self) -> Value {
        match self {
            J::Null => Value::Null,
            J::Bool(b) => Value::Bool(*b),
            J::Num(l) => serde_json::from_str(l).expect("number literal"),
            J::Str(v) => Value::String(v.clone()),
            J::Arr(v) => Value::Array(v.iter().map(|e| e.value()).collect()),
            J::Obj(v) => {
                let mut m = serde_json::Map::new();
                for (k, e) in v {
                    m.insert(k.clone(), e.value());
                }
                Value::Object(m)
            }
            J::Deep(n) => {
                let mut v = Value::Array(vec![]);
                for _ in 1..*n {
                    v = Value::Array(vec![v]);
                }
                v
            }
            J::DeepBad(n) => {
                let mut v = Value::from(1);
                for _ in 0..*n {
                    v = Value::Array(vec![v]);
                }
                v
            }
        }
    }

    fn child_count(&self) -> usize {
        match self {
            J::Arr(v) => v.len(),
            J::Obj(v) => v.len(),
            _ => 0,
        }
    }

    fn child_mut(&mut self, i: usize) -> Option<&mut J> {
        match self {
            J::Arr(v) => v.get_mut(i),
            J::Obj(v) => v.get_mut(i).map(|e| &mut e.1),
            _ => None,
        }
    }

    fn at_mut(&mut self, path: &[u16]) -> Option<&mut J> {
        let mut cur = self;
        for i in path {
            cur = cur.child_mut(*i as usize)?;
        }
        Some(cur)
    }
}

// ---------------------------------------------------------------------------------------------
// seeds
// ---------------------------------------------------------------------------------------------

#[derive(Clone, Copy, Debug, PartialEq, Eq, PartialOrd, Ord)]
enum Deser {
    Image,
    Glyph,
    Text,
    View,
}

impl Deser {
    fn name(self) -> &'static str {
        match self {
            Deser::Image => "image",
            Deser::Glyph => "glyph",
            Deser::Text => "text",
            Deser::View => "view",
        }
    }
    const ALL: [Deser; 4] = [Deser::Image, Deser::Glyph, Deser::Text, Deser::View];
}

fn seq_bytes(len: usize, mul: usize, add: usize) -> Vec<u8> {
    (0..len).map(|i| ((i * mul + add) & 255) as u8).collect()
}

const ICON: &str = "M1,1 h18 v18 h-18 Z";

fn glyph_small() -> J {
    obj(vec![("size", arr(vec![n("1"), n("2")])), ("view_box", arr(vec![n("0"), n("0"), n("20"), n("20")])), ("path", s(ICON))])
}

fn seeds() -> Vec<(Deser, J)> {
    let img4 = b64_encode(&seq_bytes(24, 37, 11)); // 2x3, 4 channels
    let img1 = b64_encode(&seq_bytes(4, 61, 5)); // 2x2, 1 channel (padded)
    let img3 = b64_encode(&seq_bytes(15, 29, 3)); // 1x5, 3 channels
    let img3b = b64_encode(&seq_bytes(18, 17, 9)); // 2x3, 3 channels
    let scene = obj(vec![
        ("type", s("group")),
        (
            "children",
            arr(vec![
                obj(vec![("type", s("fill")), ("paint", s("#ff0000")), ("path", s("M0,0 h10 v10 Z"))]),
                obj(vec![
                    ("type", s("stroke")),
                    ("width", n("2.0")),
                    ("line_join", obj(vec![("miter", n("4.0"))])),
                    ("line_cap", s("round")),
                    ("paint", s("#00ff0080")),
                    ("path", s("M0,0 L10,10")),
                ]),
            ]),
        ),
    ]);
    let frame = obj(vec![
        ("margin", arr(vec![n("1"), n("2"), n("3"), n("4")])),
        ("border_width", arr(vec![n("1"), n("1"), n("1"), n("1")])),
        ("border_radius", arr(vec![n("10"), n("10"), n("10"), n("10")])),
        ("border_color", s("#00ff00")),
        ("padding", arr(vec![n("0"), n("0"), n("0"), n("0")])),
        ("fill_color", s("red")),
    ]);
    let v1 = obj(vec![
        ("type", s("flex")),
        ("direction", s("vertical")),
        ("justify", s("space-between")),
        (
            "children",
            arr(vec![
                obj(vec![
                    ("flex", n("1.0")),
                    ("align", s("center")),
                    ("face", s("bg=#ff0000/.2")),
                    (
                        "view",
                        obj(vec![
                            ("type", s("container")),
                            ("horizontal", s("center")),
                            ("vertical", obj(vec![("offset", n("-1"))])),
                            ("margins", obj(vec![("left", n("1")), ("right", n("1")), ("top", n("0")), ("bottom", n("0"))])),
                            ("size", arr(vec![n("3"), n("10")])),
                            ("face", s("bg=#222222")),
                            (
                                "child",
                                obj(vec![
                                    ("type", s("text")),
                                    (
                                        "text",
                                        obj(vec![
                                            ("face", s("fg=#ffffff,bold")),
                                            ("text", arr(vec![s("ab"), obj(vec![("glyph", glyph_small())]), s(" c\n")])),
                                        ]),
                                    ),
                                ]),
                            ),
                        ]),
                    ),
                ]),
                obj(vec![
                    ("type", s("tag")),
                    ("tag", obj(vec![("id", n("7"))])),
                    (
                        "view",
                        obj(vec![
                            ("type", s("trace-layout")),
                            ("msg", s("t")),
                            ("view", obj(vec![("type", s("glyph")), ("path", s(ICON)), ("size", arr(vec![n("1"), n("3")])), ("fallback", s("g"))])),
                        ]),
                    ),
                ]),
                obj(vec![
                    ("align", s("end")),
                    ("view", obj(vec![("type", s("image")), ("size", arr(vec![n("2"), n("2")])), ("channels", n("1")), ("data", s(&img1))])),
                ]),
                obj(vec![
                    ("type", s("image_ascii")),
                    ("size", obj(vec![("height", n("2")), ("width", n("3"))])),
                    ("channels", n("3")),
                    ("data", s(&img3b)),
                ]),
                obj(vec![("type", s("ref")), ("ref", n("1"))]),
                obj(vec![("type", s("custom")), ("arg", n("1"))]),
            ]),
        ),
    ]);
    let v2 = obj(vec![
        ("type", s("container")),
        ("vertical", s("expand")),
        ("horizontal", s("end")),
        ("margins", obj(vec![("top", n("1")), ("left", n("2"))])),
        (
            "child",
            obj(vec![
                ("type", s("flex")),
                ("justify", s("space-around")),
                (
                    "children",
                    arr(vec![
                        obj(vec![("flex", n("2.0")), ("view", obj(vec![("type", s("tag")), ("tag", s("a")), ("view", obj(vec![("type", s("text")), ("text", s("left"))]))]))]),
                        obj(vec![("flex", n("0.5")), ("face", s("bg=blue")), ("align", s("expand")), ("view", obj(vec![("type", s("image")), ("size", arr(vec![n("2"), n("3")])), ("channels", n("4")), ("data", s(&img4))]))]),
                        obj(vec![("type", s("text")), ("text", arr(vec![s("x"), obj(vec![("text", s("y")), ("face", s("underline"))])]))]),
                    ]),
                ),
            ]),
        ),
    ]);
    let v3 = obj(vec![
        ("type", s("tag")),
        ("tag", arr(vec![n("1"), s("two")])),
        (
            "view",
            obj(vec![
                ("type", s("flex")),
                ("direction", s("vertical")),
                ("justify", s("center")),
                (
                    "children",
                    arr(vec![
                        obj(vec![
                            ("type", s("container")),
                            ("vertical", s("shrink")),
                            ("horizontal", obj(vec![("offset", n("2"))])),
                            ("size", obj(vec![("height", n("0")), ("width", n("6"))])),
                            ("margins", obj(vec![("top", n("1")), ("bottom", n("1"))])),
                            ("child", obj(vec![("type", s("image_ascii")), ("size", arr(vec![n("1"), n("5")])), ("data", s(&img3))])),
                        ]),
                        obj(vec![
                            ("type", s("trace-layout")),
                            ("view", obj(vec![("type", s("text")), ("text", obj(vec![("wraps", J::Bool(false)), ("text", s("a long line that does not wrap\tX"))]))])),
                        ]),
                        obj(vec![("type", s("ref")), ("ref", n("2"))]),
                        obj(vec![
                            ("flex", n("1")),
                            ("view", obj(vec![("type", s("glyph")), ("scene", scene.clone()), ("size", arr(vec![n("2"), n("4")])), ("frame", frame.clone())])),
                        ]),
                    ]),
                ),
            ]),
        ),
    ]);
    vec![
        (Deser::Image, obj(vec![("size", arr(vec![n("2"), n("3")])), ("channels", n("4")), ("data", s(&img4))])),
        (Deser::Image, obj(vec![("size", obj(vec![("height", n("2")), ("width", n("2"))])), ("channels", n("1")), ("data", s(&img1))])),
        // the same kinds of document with the keys in the order size, data, channels
        (Deser::Image, obj(vec![("size", arr(vec![n("2"), n("3")])), ("data", s(&img3b)), ("channels", n("3"))])),
        (Deser::Image, obj(vec![("size", arr(vec![n("2"), n("3")])), ("data", s(&img4)), ("channels", n("4"))])),
        (Deser::Image, obj(vec![("data", s(&img3)), ("comment", arr(vec![s("x"), J::Null])), ("size", arr(vec![n("1"), n("5")]))])),
        (
            Deser::Glyph,
            obj(vec![("path", s(ICON)), ("view_box", arr(vec![n("0"), n("0"), n("20"), n("20")])), ("size", arr(vec![n("1"), n("2")])), ("fallback", s("[]")), ("fill_rule", s("evenodd"))]),
        ),
        (Deser::Glyph, obj(vec![("scene", scene), ("size", obj(vec![("height", n("2")), ("width", n("4"))])), ("frame", frame)])),
        (Deser::Glyph, obj(vec![("path", s("M0,0L10,10")), ("extra", arr(vec![n("1"), n("2"), obj(vec![("a", J::Null)])]))])),
        (Deser::Text, s("plain string\twith tab\n")),
        (
            Deser::Text,
            arr(vec![
                s("a"),
                obj(vec![
                    ("face", s("fg=#ff0000,bg=black,underline_curly")),
                    ("text", arr(vec![s("b"), obj(vec![("text", s("c")), ("face", s("bg=#00ff00/.5")), ("wraps", J::Bool(false))])])),
                ]),
                s("d"),
            ]),
        ),
        (Deser::Text, obj(vec![("face", s("bold")), ("wraps", J::Bool(true)), ("glyph", obj(vec![("path", s(ICON)), ("size", arr(vec![n("1"), n("3")]))])), ("text", s("ignored"))])),
        (Deser::View, v1),
        (Deser::View, v2),
        (Deser::View, v3),
    ]
}

// ---------------------------------------------------------------------------------------------
// mutation alphabet
// ---------------------------------------------------------------------------------------------

const DEEP: usize = 10_000;

fn replacements() -> Vec<(&'static str, J)> {
    vec![
        ("null", J::Null),
        ("true", J::Bool(true)),
        ("0", n("0")),
        ("1", n("1")),
        ("4", n("4")),
        ("-1", n("-1")),
        ("0.5", n("0.5")),
        ("1e308", n("1e308")),
        ("2^63", n("9223372036854775808")),
        ("2^64-1", n("18446744073709551615")),
        ("\"\"", s("")),
        ("\"x\"", s("x")),
        ("[]", arr(vec![])),
        ("[[]]", arr(vec![arr(vec![])])),
        ("{}", obj(vec![])),
        ("deep-array", J::Deep(DEEP)),
        ("deep-array-ill-typed-leaf-12", J::DeepBad(12)),
        ("deep-array-ill-typed-leaf-120", J::DeepBad(120)),
    ]
}

const TYPE_NAMES: [&str; 12] = [
    "text", "trace-layout", "flex", "container", "glyph", "image", "image_ascii", "color", "tag", "ref", "custom", "no-such-view",
];

/// Sizes for every `size` node. The first three make `channels*h*w` wrap around to exactly the
/// data length of the three image seeds (so an unchecked product passes the length check).
fn size_variants() -> Vec<(&'static str, J)> {
    let a = |h: &str, w: &str| arr(vec![n(h), n(w)]);
    vec![
        ("wrap=24/4ch", a("4611686018427387910", "1")), // 4*(2^62+6) = 2^64+24
        ("wrap=4/1ch", a("9223372036854775810", "2")),  // (2^63+2)*2 = 2^64+4
        ("wrap=15/3ch", a("6148914691236517207", "3")), // 3*(2^64+5)/3*... = 2^64+5 pixels, *3 = 15
        ("[2^63,2]", a("9223372036854775808", "2")),
        ("[2,2^63]", a("2", "9223372036854775808")),
        ("[2^62,1]", a("4611686018427387904", "1")),
        ("[2^32,2^32]", a("4294967296", "4294967296")),
        ("[max,max]", a("18446744073709551615", "18446744073709551615")),
        ("{h:2^63,w:2}", obj(vec![("height", n("9223372036854775808")), ("width", n("2"))])),
        ("[0,max]", a("0", "18446744073709551615")),
        ("[65536,65536]", a("65536", "65536")),
        ("[0,0]", a("0", "0")),
        ("[1,1]", a("1", "1")),
        ("[3,3]", a("3", "3")),
    ]
}

const B64_VARIANTS: [&str; 12] = [
    "invalid-chars", "unpadded", "truncated", "extra-padding", "one-char", "non-ascii", "inner-space", "trailing-newline", "only-padding", "url-safe",
    "padded-group-first", "padding-inside-group",
];

fn b64_variant(k: usize, orig: &str) -> String {
    match k {
        0 => "!!!!".to_string(),
        1 => orig.trim_end_matches('=').to_string(),
        2 => orig[..orig.len().saturating_sub(1)].to_string(),
        3 => format!("{orig}===="),
        4 => "A".to_string(),
        5 => "\u{e9}\u{e9}".to_string(),
        6 => {
            let m = orig.len() / 2;
            format!("{} {}", &orig[..m], &orig[m..])
        }
        7 => format!("{orig}\n"),
        8 => "====".to_string(),
        10 => format!("AA=={}", &orig[4.min(orig.len())..]),
        11 => format!("AA=A{}", &orig[4.min(orig.len())..]),
        _ => "-_-_".to_string(),
    }
}

/// 10 000 levels of nested *objects* are not used: serde_json itself (Value clone / drop /
/// Value-to-Value deserialisation) overflows an 8 MiB stack on such a value, so no consumer of a
/// `Value` can be blamed for it. 10 000 nested arrays (cheaper frames) are in the alphabet.
const NEST_DEPTHS: [usize; 3] = [100, 1000, 100];
/// the third variant puts an invalid view (`null`) at the bottom of the nest, so that an error
/// has to travel up through every level
const NEST_BROKEN: [bool; 3] = [false, false, true];

#[derive(Clone, Debug, PartialEq)]
enum Op {
    Rep(usize),
    Type(usize),
    Del,
    Dup,
    /// repeat a `size` key at the end of its object with another size (a document that contradicts itself
    /// after other keys were read)
    DupSize(usize),
    Swap(usize, usize),
    Size(usize),
    B64(usize),
    /// wrap the view object in NEST_DEPTHS[k] levels of `{"type":"tag","tag":null,"view":..}`
    /// (view documents) or the root in that many `{"text":..}` levels (text documents)
    Nest(usize),
}

impl Op {
    fn kind(&self) -> &'static str {
        match self {
            Op::Rep(k) => replacements()[*k].0,
            Op::Type(_) => "type",
            Op::Del => "delete-key",
            Op::Dup => "duplicate-key",
            Op::DupSize(_) => "repeat-size-key",
            Op::Swap(..) => "swap",
            Op::Size(k) => {
                if *k < 3 {
                    "size-wrap-match"
                } else {
                    "size"
                }
            }
            Op::B64(_) => "base64",
            Op::Nest(_) => "nest-views",
        }
    }
    /// too costly to combine (deserialising an n-deep view tree from a Value copies the rest of
    /// the tree at every level, i.e. is quadratic in n)
    fn single_only(&self) -> bool {
        matches!(self, Op::Nest(k) if NEST_DEPTHS[*k] > 100)
    }
    /// an ancestor (or the same node) mutated this way wipes out a mutation below it
    fn destroys_subtree(&self) -> bool {
        match self {
            Op::Dup | Op::DupSize(_) | Op::Swap(..) => false,
            Op::Nest(k) => NEST_BROKEN[*k],
            _ => true,
        }
    }
}

#[derive(Clone, Debug)]
struct Mutation {
    path: Vec<u16>,
    op: Op,
}

fn path_text(doc: &J, path: &[u16]) -> String {
    let mut out = String::from("$");
    let mut cur = doc;
    for i in path {
        match cur {
            J::Arr(v) => {
                out.push_str(&format!("[{i}]"));
                cur = &v[*i as usize];
            }
            J::Obj(v) => {
                out.push_str(&format!(".{}", v[*i as usize].0));
                cur = &v[*i as usize].1;
            }
            _ => break,
        }
    }
    out
}

impl Mutation {
    fn describe(&self, doc: &J) -> String {
        let p = path_text(doc, &self.path);
        match &self.op {
            Op::Rep(k) => format!("{p} := {}", replacements()[*k].0),
            Op::Type(k) => format!("{p} := \"{}\"", TYPE_NAMES[*k]),
            Op::Del => format!("delete {p}"),
            Op::Dup => format!("duplicate {p}"),
            Op::DupSize(k) => format!("repeat {p} at the end of the object as size {}", size_variants()[*k].0),
            Op::Swap(i, j) => format!("swap children {i},{j} of {p}"),
            Op::Size(k) => format!("{p} := size {}", size_variants()[*k].0),
            Op::B64(k) => format!("{p} := base64 {}", B64_VARIANTS[*k]),
            Op::Nest(k) => format!("wrap {} in {} levels of tag views / text objects", if NEST_BROKEN[*k] { format!("null (instead of {p})") } else { p }, NEST_DEPTHS[*k]),
        }
    }
}

/// All single mutations of a document, in pre-order of the node paths.
fn mutations_of(doc: &J, deser: Deser) -> Vec<Mutation> {
    let is_view = deser == Deser::View;
    fn walk(node: &J, key: Option<&str>, path: &mut Vec<u16>, is_view: bool, out: &mut Vec<Mutation>) {
        let push = |out: &mut Vec<Mutation>, op: Op| out.push(Mutation { path: path.clone(), op });
        for k in 0..replacements().len() {
            push(out, Op::Rep(k));
        }
        if key == Some("type") {
            for k in 0..TYPE_NAMES.len() {
                push(out, Op::Type(k));
            }
        }
        if key.is_some() {
            push(out, Op::Del);
            push(out, Op::Dup);
        }
        if key == Some("size") {
            for k in 0..size_variants().len() {
                push(out, Op::Size(k));
                push(out, Op::DupSize(k));
            }
        }
        if key == Some("data") && matches!(node, J::Str(_)) {
            for k in 0..B64_VARIANTS.len() {
                push(out, Op::B64(k));
            }
        }
        if is_view {
            if let J::Obj(members) = node {
                if members.iter().any(|(k, _)| k == "type") && (path.is_empty() || matches!(key, Some("view") | Some("child")) || key.is_none()) {
                    for k in 0..NEST_DEPTHS.len() {
                        // the broken-bottom nest only at the root: while the defect it looks for
                        // is present every such case costs a stall timeout
                        if !NEST_BROKEN[k] || path.is_empty() {
                            push(out, Op::Nest(k));
                        }
                    }
                }
            }
        }
        let cn = node.child_count();
        for i in 0..cn {
            for j in i + 1..cn {
                push(out, Op::Swap(i, j));
            }
        }
        match node {
            J::Arr(v) => {
                for (i, e) in v.iter().enumerate() {
                    path.push(i as u16);
                    walk(e, None, path, is_view, out);
                    path.pop();
                }
            }
            J::Obj(v) => {
                for (i, (k, e)) in v.iter().enumerate() {
                    path.push(i as u16);
                    walk(e, Some(k), path, is_view, out);
                    path.pop();
                }
            }
            _ => {}
        }
    }
    let mut out = vec![];
    walk(doc, None, &mut vec![], is_view, &mut out);
    if deser == Deser::Text {
        // root-level mutations come first in pre-order
        let at = out.iter().position(|m| !m.path.is_empty()).unwrap_or(out.len());
        for k in (0..NEST_DEPTHS.len()).rev() {
            out.insert(at, Mutation { path: vec![], op: Op::Nest(k) });
        }
    }
    out
}

fn apply(doc: &mut J, m: &Mutation) -> bool {
    match &m.op {
        Op::Del | Op::Dup | Op::DupSize(_) => {
            let Some((last, parent_path)) = m.path.split_last() else {
                return false;
            };
            let Some(J::Obj(members)) = doc.at_mut(parent_path) else {
                return false;
            };
            let i = *last as usize;
            if i >= members.len() {
                return false;
            }
            if m.op == Op::Del {
                members.remove(i);
            } else if let Op::DupSize(k) = &m.op {
                members.push(("size".to_string(), size_variants()[*k].1.clone()));
            } else {
                let copy = members[i].clone();
                members.push(copy);
            }
            true
        }
        op => {
            let Some(node) = doc.at_mut(&m.path) else {
                return false;
            };
            match op {
                Op::Rep(k) => *node = replacements()[*k].1.clone(),
                Op::Type(k) => *node = s(TYPE_NAMES[*k]),
                Op::Size(k) => *node = size_variants()[*k].1.clone(),
                Op::B64(k) => {
                    let J::Str(orig) = node else {
                        return false;
                    };
                    *node = J::Str(b64_variant(*k, orig));
                }
                Op::Swap(i, j) => match node {
                    J::Arr(v) if *j < v.len() => v.swap(*i, *j),
                    J::Obj(v) if *j < v.len() => {
                        let (a, b) = v.split_at_mut(*j);
                        std::mem::swap(&mut a[*i].1, &mut b[0].1);
                    }
                    _ => return false,
                },
                Op::Nest(k) => {
                    let mut cur = std::mem::replace(node, J::Null);
                    let as_view = matches!(&cur, J::Obj(m) if m.iter().any(|(k, _)| k == "type"));
                    if NEST_BROKEN[*k] {
                        cur = J::Null;
                    }
                    for _ in 0..NEST_DEPTHS[*k] {
                        cur = if as_view { obj(vec![("type", s("tag")), ("tag", J::Null), ("view", cur)]) } else { obj(vec![("text", cur)]) };
                    }
                    *node = cur;
                }
                Op::Del | Op::Dup | Op::DupSize(_) => unreachable!(),
            }
            true
        }
    }
}

/// May mutations `a` (earlier in pre-order) and `b` be combined? `b` is applied first.
fn pair_allowed(a: &Mutation, b: &Mutation) -> bool {
    if a.path == b.path || a.op.single_only() || b.op.single_only() {
        return false;
    }
    if b.path.starts_with(&a.path) && a.op.destroys_subtree() {
        return false;
    }
    true
}

struct Plan {
    seeds: Vec<(Deser, J)>,
    muts: Vec<Vec<Mutation>>,
}

#[derive(Clone, Copy, Debug, PartialEq)]
struct CaseDesc {
    seed: usize,
    a: i64,
    b: i64,
}

impl CaseDesc {
    fn encode(&self) -> String {
        format!("{};{};{}", self.seed, self.a, self.b)
    }
    fn decode(text: &str) -> Option<Self> {
        let mut it = text.split(';');
        let seed = it.next()?.parse().ok()?;
        let a = it.next()?.parse().ok()?;
        let b = it.next()?.parse().ok()?;
        Some(Self { seed, a, b })
    }
}

impl Plan {
    fn new() -> Self {
        let seeds = seeds();
        let muts = seeds.iter().map(|(d, doc)| mutations_of(doc, *d)).collect();
        Self { seeds, muts }
    }

    /// Enumerate every case of the tier in a fixed order.
    fn for_each_case(&self, tier: Tier, mut f: impl FnMut(u64, CaseDesc)) {
        let mut idx = 0u64;
        for seed in 0..self.seeds.len() {
            f(idx, CaseDesc { seed, a: -1, b: -1 });
            idx += 1;
            let m = &self.muts[seed];
            for a in 0..m.len() {
                f(idx, CaseDesc { seed, a: a as i64, b: -1 });
                idx += 1;
            }
            if tier == Tier::Thorough {
                for a in 0..m.len() {
                    for b in a + 1..m.len() {
                        if pair_allowed(&m[a], &m[b]) {
                            f(idx, CaseDesc { seed, a: a as i64, b: b as i64 });
                            idx += 1;
                        }
                    }
                }
            }
        }
    }

    fn build(&self, c: &CaseDesc) -> Option<(Deser, J, Vec<String>)> {
        let (d, seed_doc) = self.seeds.get(c.seed)?;
        let mut doc = seed_doc.clone();
        let mut what = vec![];
        let m = &self.muts[c.seed];
        if c.b >= 0 {
            let mb = m.get(c.b as usize)?;
            what.push(mb.describe(seed_doc));
            if !apply(&mut doc, mb) {
                return None;
            }
        }
        if c.a >= 0 {
            let ma = m.get(c.a as usize)?;
            what.insert(0, ma.describe(seed_doc));
            if !apply(&mut doc, ma) {
                return None;
            }
        }
        Some((*d, doc, what))
    }

    fn kinds(&self, c: &CaseDesc) -> String {
        let m = &self.muts[c.seed];
        let mut k = vec![];
        if c.a >= 0 {
            k.push(m[c.a as usize].op.kind());
        }
        if c.b >= 0 {
            k.push(m[c.b as usize].op.kind());
        }
        if k.is_empty() {
            "pristine".into()
        } else {
            k.join("+")
        }
    }
}

// ---------------------------------------------------------------------------------------------
// executing one hostile document
// ---------------------------------------------------------------------------------------------

struct RefCache;

impl ViewCache for RefCache {
    fn get(&self, uid: i64) -> Option<ArcView<'static>> {
        (uid == 1).then(|| Text::from("ref").arc())
    }
}

fn view_deserializer() -> ViewDeserializer<'static> {
    let mut d = ViewDeserializer::new(None, Some(Arc::new(RefCache)));
    d.register("custom", |_seed, _value| Text::from("custom").arc());
    d
}

fn constraints() -> [BoxConstraint; 6] {
    [
        BoxConstraint::loose(Size::new(0, 0)),
        BoxConstraint::loose(Size::new(1, 1)),
        BoxConstraint::loose(Size::new(10, 20)),
        BoxConstraint::tight(Size::new(5, 7)),
        BoxConstraint::new(Size::new(3, 3), Size::new(12, 40)),
        BoxConstraint::loose(Size::new(40, 2)),
    ]
}

#[derive(Debug, Clone)]
struct Finding {
    key: String,
    what: String,
}

/// Lay the view out under every constraint and render it into a canvas with a sentinel border.
fn drive_view(prefix: &str, view: &dyn View, findings: &mut Vec<Finding>, evals: &mut u64) {
    drive_view_ctx(prefix, view, &ViewContext::dummy(), constraints().to_vec(), findings, evals);
    // contexts of terminals that report odd pixel sizes (none at all, one dimension only, fewer pixels than cells
    // in one dimension), with and without glyph support: two constraints each
    for (i, (glyphs, pixels)) in [(true, Size::new(0, 0)), (false, Size::new(0, 720)), (true, Size::new(432, 0)), (true, Size::new(10, 720)), (false, Size::new(480, 800))].into_iter().enumerate() {
        let term = super::c09::CtxTerm::with_sizes(glyphs, Size::new(24, 80), pixels);
        if let Ok(ctx) = ViewContext::new(&term) {
            let cts = vec![BoxConstraint::loose(Size::new(5, 12)), BoxConstraint::tight(Size::new(2, 3))];
            drive_view_ctx(&format!("{prefix}:terminal-context-{i}"), view, &ctx, cts, findings, evals);
        }
    }
}

fn drive_view_ctx(prefix: &str, view: &dyn View, ctx: &ViewContext, cts: Vec<BoxConstraint>, findings: &mut Vec<Finding>, evals: &mut u64) {
    let ctx = ctx.clone();
    let sentinel = Cell::new_char(Face::default(), '\u{2592}');
    for ct in cts {
        *evals += 1;
        let stage = StdCell::new("layout");
        let res = catch(|| -> Result<Option<String>, surf_n_term::Error> {
            let mut store = ViewLayoutStore::new();
            let layout = view.layout_new(&ctx, ct, &mut store)?;
            stage.set("render");
            let max = ct.max();
            let mut canvas = SurfaceOwned::new_with(Size::new(max.height + 2, max.width + 2), |_| sentinel.clone());
            {
                let inner = canvas.view_mut(1..max.height + 1, 1..max.width + 1);
                view.render(&ctx, inner, layout.view())?;
            }
            stage.set("check");
            for row in 0..max.height + 2 {
                for col in 0..max.width + 2 {
                    let border = row == 0 || col == 0 || row == max.height + 1 || col == max.width + 1;
                    if border && canvas.get(Position::new(row, col)) != Some(&sentinel) {
                        return Ok(Some(format!("cell ({row},{col}) outside the {}x{} surface handed to render was overwritten", max.height, max.width)));
                    }
                }
            }
            Ok(None)
        });
        match res {
            Ok(Ok(None)) => {}
            Ok(Ok(Some(outside))) => findings.push(Finding {
                key: format!("{prefix}:render:wrote-outside-surface"),
                what: format!("constraint {:?}: {outside}", ct),
            }),
            Ok(Err(e)) => findings.push(Finding {
                key: format!("{prefix}:{}:error[{}]", stage.get(), squash(&format!("{e:?}"), 60)),
                what: format!("constraint {:?}: {} returned Err({e:?}) for a view that deserialised successfully", ct, stage.get()),
            }),
            Err(p) => findings.push(Finding {
                key: panic_key(&format!("{prefix}:{}", stage.get()), &p),
                what: format!("constraint {:?}: {} {}", ct, stage.get(), panic_text(&p)),
            }),
        }
    }
}

#[derive(Default)]
struct ExecOut {
    /// (route, outcome class)
    classes: Vec<(&'static str, String)>,
    findings: Vec<Finding>,
    evals: u64,
}

fn image_pixels(img: &Image) -> Vec<[u8; 4]> {
    let mut out = vec![];
    for row in 0..img.height() {
        for col in 0..img.width() {
            out.push(img.get(Position::new(row, col)).map(|c| rgba_arr(*c)).unwrap_or([9, 9, 9, 9]));
        }
    }
    out
}

fn rgba_arr(c: RGBA) -> [u8; 4] {
    [c.red(), c.green(), c.blue(), c.alpha()]
}

/// Deserialise `doc` with `deser` through both routes (JSON text, serde_json::Value).
fn exec_doc(deser: Deser, doc: &J) -> ExecOut {
    let mut out = ExecOut::default();
    let prefix = format!("hostile:{}", deser.name());
    for route in ["text", "value"] {
        out.evals += 1;
        // build the input outside `catch`: it is harness code
        let text = if route == "text" { Some(doc.text()) } else { None };
        let value = if route == "value" { Some(doc.value()) } else { None };
        enum Got {
            Image(Image),
            Glyph(Glyph),
            Text(Text),
            View(ArcView<'static>),
        }
        let vd = view_deserializer();
        let res = catch(|| -> Result<Got, String> {
            match (deser, text.as_deref(), value) {
                (Deser::Image, Some(t), _) => serde_json::from_str::<Image>(t).map(Got::Image).map_err(|e| e.to_string()),
                (Deser::Image, None, Some(v)) => Image::deserialize(v).map(Got::Image).map_err(|e| e.to_string()),
                (Deser::Glyph, Some(t), _) => serde_json::from_str::<Glyph>(t).map(Got::Glyph).map_err(|e| e.to_string()),
                (Deser::Glyph, None, Some(v)) => Glyph::deserialize(v).map(Got::Glyph).map_err(|e| e.to_string()),
                (Deser::Text, Some(t), _) => serde_json::from_str::<Text>(t).map(Got::Text).map_err(|e| e.to_string()),
                (Deser::Text, None, Some(v)) => Text::deserialize(v).map(Got::Text).map_err(|e| e.to_string()),
                (Deser::View, Some(t), _) => {
                    let mut de = serde_json::Deserializer::from_str(t);
                    (&vd).deserialize(&mut de).map(Got::View).map_err(|e| e.to_string())
                }
                (Deser::View, None, Some(v)) => (&vd).deserialize(v).map(Got::View).map_err(|e| e.to_string()),
                _ => unreachable!(),
            }
        });
        match res {
            Err(p) => {
                out.classes.push((route, "panic".into()));
                out.findings.push(Finding {
                    key: panic_key(&format!("{prefix}:deserialize"), &p),
                    what: format!("deserialising ({route} route) {}", panic_text(&p)),
                });
            }
            Ok(Err(e)) => out.classes.push((route, format!("err:{}", squash(&e, 70)))),
            Ok(Ok(got)) => {
                out.classes.push((route, "ok".into()));
                match &got {
                    Got::Image(img) => {
                        // what was accepted must survive a further serialise/deserialise
                        let again = catch(|| {
                            let v = serde_json::to_value(img).map_err(|e| e.to_string())?;
                            serde_json::from_value::<Image>(v).map_err(|e| e.to_string())
                        });
                        match again {
                            Err(p) => out.findings.push(Finding {
                                key: panic_key(&format!("{prefix}:reserialize"), &p),
                                what: format!("re-serialising an accepted image {}", panic_text(&p)),
                            }),
                            Ok(Err(e)) => out.findings.push(Finding {
                                key: format!("{prefix}:reserialize:error"),
                                what: format!("an accepted image does not survive serialise+deserialise: {e}"),
                            }),
                            Ok(Ok(img2)) => {
                                if img2.size() != img.size() || image_pixels(&img2) != image_pixels(img) {
                                    out.findings.push(Finding {
                                        key: format!("{prefix}:reserialize:differs"),
                                        what: format!("an accepted image of size {:?} changes under serialise+deserialise", img.size()),
                                    });
                                }
                            }
                        }
                        drive_view(&prefix, img, &mut out.findings, &mut out.evals);
                    }
                    Got::Glyph(g) => drive_view(&prefix, g, &mut out.findings, &mut out.evals),
                    Got::Text(t) => drive_view(&prefix, t, &mut out.findings, &mut out.evals),
                    Got::View(v) => drive_view(&prefix, v, &mut out.findings, &mut out.evals),
                }
                let dropped = catch(move || drop(got));
                if let Err(p) = dropped {
                    out.findings.push(Finding {
                        key: panic_key(&format!("{prefix}:drop"), &p),
                        what: format!("dropping the value {}", panic_text(&p)),
                    });
                }
            }
        }
    }
    out
}

const AS_LIMIT_BYTES: u64 = 3 << 30;
const CASE_STACK_BYTES: usize = 8 << 20;
const STALL_SECS: u64 = 8;

/// Address-space limit so that a document that makes the library allocate gigabytes aborts the
/// (child) process instead of exhausting the machine.
fn limit_address_space() {
    unsafe {
        let lim = libc::rlimit {
            rlim_cur: AS_LIMIT_BYTES,
            rlim_max: AS_LIMIT_BYTES,
        };
        libc::setrlimit(libc::RLIMIT_AS, &lim);
    }
}

fn hostile_witness(plan: &Plan, c: &CaseDesc) -> Value {
    // may run on a small stack (parent's shard threads): do not walk very deep documents here
    let deep_nest = [c.a, c.b].iter().any(|i| *i >= 0 && plan.muts.get(c.seed).and_then(|m| m.get(*i as usize)).map(|m| m.op.single_only()).unwrap_or(false));
    if deep_nest {
        let m = &plan.muts[c.seed][c.a.max(c.b) as usize];
        return json!({"part": "hostile", "case": c.encode(), "deserialiser": plan.seeds[c.seed].0.name(),
            "mutations": [m.describe(&plan.seeds[c.seed].1)], "document": "(seed document wrapped in very deep nesting; rebuilt from `case` on replay)"});
    }
    match plan.build(c) {
        Some((d, doc, what)) => {
            let mut text = doc.text();
            if text.len() > 1500 {
                let mut cut = 1500;
                while !text.is_char_boundary(cut) {
                    cut -= 1;
                }
                text = format!("{}... ({} bytes)", &text[..cut], text.len());
            }
            json!({"part": "hostile", "case": c.encode(), "deserialiser": d.name(), "mutations": what, "document": text})
        }
        None => json!({"part": "hostile", "case": c.encode()}),
    }
}

pub fn worker(ctx: &Ctx, w: WorkerCtx, _extra: &[String]) {
    limit_address_space();
    let tier = ctx.tier;
    let seed = ctx.seed;
    let handle = std::thread::Builder::new()
        .stack_size(CASE_STACK_BYTES)
        .spawn(move || worker_body(tier, seed, w))
        .expect("spawn case thread");
    if handle.join().is_err() {
        std::process::exit(101);
    }
}

fn worker_body(tier: Tier, seed: u64, mut w: WorkerCtx) {
    let plan = Plan::new();
    let mut seen: BTreeSet<String> = BTreeSet::new();
    let (shard, shards, resume) = (w.shard as u64, w.shards as u64, w.resume);
    let mut sampled = 0;
    let mut done = 0u64;
    let mut best: BTreeMap<String, usize> = BTreeMap::new();
    plan.for_each_case(tier, |idx, c| {
        if idx % shards != shard || idx < resume {
            return;
        }
        let desc = c.encode();
        w.begin_case(idx, desc.as_bytes());
        done += 1;
        if done % 500 == 0 {
            // counters travel with checkpoints; keep the loss after an abort small
            w.checkpoint();
        }
        let Some((deser, doc, what)) = plan.build(&c) else {
            w.count("skipped_inapplicable", 1);
            return;
        };
        let out = exec_doc(deser, &doc);
        let d = deser.name();
        w.count(&format!("{d}.documents"), 1);
        w.count(if c.b >= 0 { "pairs" } else if c.a >= 0 { "singles" } else { "pristine" }, 1);
        w.count("evaluations", out.evals);
        for (route, class) in &out.classes {
            let bucket = if class == "ok" { "ok" } else if class == "panic" { "panic" } else { "err" };
            w.count(&format!("{d}.{route}.{bucket}"), 1);
            w.count(&format!("{d}.{bucket}"), 1);
            let cls = format!("{d}:{class}");
            if seen.insert(cls.clone()) {
                w.note("class", Value::String(cls));
            }
            if c.a < 0 && class.starts_with("err:") {
                if deser == Deser::Image {
                    // the image seeds are plain documents of the documented layout (size, channels 1/3/4, base64 data)
                    // with their keys in several orders: the statement demands that they are read
                    w.violation(&Violation {
                        key: format!("image-input:seed-document-rejected:{route}"),
                        what: format!("a well-formed image document is rejected ({route} route): {} -> {class}", squash(&doc.text(), 300)),
                        witness: hostile_witness(&plan, &c),
                    });
                } else {
                    w.note("bad_seed", json!(format!("seed {} ({d}, {route} route) is not accepted: {class}", c.seed)));
                }
            }
        }
        if out.classes.len() == 2 && (out.classes[0].1 == "ok") != (out.classes[1].1 == "ok") {
            w.count(&format!("{d}.routes_disagree"), 1);
        }
        if sampled < 2 && (idx ^ seed).wrapping_mul(0x9e3779b97f4a7c15) >> 54 == 0 {
            sampled += 1;
            let mut t = doc.text();
            if t.len() > 300 {
                let mut cut = 300;
                while !t.is_char_boundary(cut) {
                    cut -= 1;
                }
                t.truncate(cut);
                t.push_str("...");
            }
            w.sample(json!({"case": desc, "deserialiser": d, "mutations": what, "document": t,
                "outcome_text_route": out.classes[0].1, "outcome_value_route": out.classes[1].1}));
        }
        let size_estimate = if out.findings.is_empty() { 0 } else { doc.text().len().min(1500) + what.iter().map(|x| x.len()).sum::<usize>() };
        for f in out.findings {
            w.count("raw_violations", 1);
            // per worker, forward a finding only if its key is new or its witness is smaller
            let len = size_estimate;
            let better = best.get(&f.key).map(|l| len < *l).unwrap_or(true);
            if better {
                best.insert(f.key.clone(), len);
                w.violation(&Violation {
                    key: f.key,
                    what: format!("[{}] {}", what.join(" ; "), f.what),
                    witness: hostile_witness(&plan, &c),
                });
            }
        }
    });
    w.finish();
}

// ---------------------------------------------------------------------------------------------
// part 1: round trips
// ---------------------------------------------------------------------------------------------

type Bad = Vec<(String, String)>;

const CHANNEL_LATTICE: [u8; 5] = [0, 1, 128, 254, 255];
const ALPHA_LATTICE: [u8; 4] = [0, 1, 128, 255];

fn colour_lattice() -> Vec<Option<[u8; 4]>> {
    let mut v = vec![None];
    for r in CHANNEL_LATTICE {
        for g in CHANNEL_LATTICE {
            for b in CHANNEL_LATTICE {
                for a in ALPHA_LATTICE {
                    v.push(Some([r, g, b, a]));
                }
            }
        }
    }
    v
}

/// indices into `colour_lattice()`: None, opaque black, a mid colour, the last colour
const FACE_ANCHORS: [usize; 4] = [0, 4, 251, 500];
const FACE_QUICK_ATTRS: [(u8, u8); 8] = [(0, 0), (31, 5), (1, 1), (2, 2), (4, 3), (8, 4), (16, 5), (21, 0)];

fn make_attrs(flags: u8, underline: u8) -> FaceAttrs {
    let mut a = FaceAttrs::EMPTY;
    for (bit, f) in [FaceAttrs::BOLD, FaceAttrs::ITALIC, FaceAttrs::BLINK, FaceAttrs::REVERSE, FaceAttrs::STRIKE].into_iter().enumerate() {
        if flags >> bit & 1 == 1 {
            a = a | f;
        }
    }
    match underline {
        1 => a | FaceAttrs::UNDERLINE,
        2 => a | FaceAttrs::UNDERLINE_DOUBLE,
        3 => a | FaceAttrs::UNDERLINE_CURLY,
        4 => a | FaceAttrs::UNDERLINE_DOTTED,
        5 => a | FaceAttrs::UNDERLINE_DASHED,
        _ => a,
    }
}

fn make_face(fg: Option<[u8; 4]>, bg: Option<[u8; 4]>, flags: u8, underline: u8) -> Face {
    let c = |c: Option<[u8; 4]>| c.map(|[r, g, b, a]| RGBA::new(r, g, b, a));
    Face::new(c(fg), c(bg), make_attrs(flags, underline))
}

fn face_diff(want: &Face, got: &Face) -> &'static str {
    if want.fg != got.fg {
        "fg-differs"
    } else if want.bg != got.bg {
        "bg-differs"
    } else {
        "attrs-differ"
    }
}

fn face_plain(f: &Face) -> String {
    format!("Face{{fg:{:?}, bg:{:?}, attrs:{:?}}}", f.fg.map(rgba_arr), f.bg.map(rgba_arr), f.attrs)
}

fn eval_face(face: Face) -> Bad {
    let mut bad = vec![];
    match catch(|| {
        let text = face.to_string();
        let parsed = text.parse::<Face>();
        (text, parsed)
    }) {
        Err(p) => bad.push((panic_key("face:display-fromstr", &p), panic_text(&p))),
        Ok((text, Err(e))) => bad.push(("face:display-fromstr:error".into(), format!("{} prints as {text:?} which does not parse: {e:?}", face_plain(&face)))),
        Ok((text, Ok(got))) => {
            if got != face {
                bad.push((
                    format!("face:display-fromstr:{}", face_diff(&face, &got)),
                    format!("expected {} back; it prints as {text:?} which parses to {}", face_plain(&face), face_plain(&got)),
                ));
            }
        }
    }
    match catch(|| {
        let v = serde_json::to_value(face).map_err(|e| e.to_string())?;
        let back = serde_json::from_value::<Face>(v.clone()).map_err(|e| e.to_string());
        Ok::<_, String>((v, back))
    }) {
        Err(p) => bad.push((panic_key("face:serde", &p), panic_text(&p))),
        Ok(Err(e)) => bad.push(("face:serde:serialize-error".into(), format!("{} does not serialise: {e}", face_plain(&face)))),
        Ok(Ok((v, Err(e)))) => bad.push(("face:serde:error".into(), format!("{} serialises to {v} which does not deserialise: {e}", face_plain(&face)))),
        Ok(Ok((v, Ok(got)))) => {
            if !v.is_string() {
                bad.push(("face:serde:not-a-string".into(), format!("{} serialises to {v}, expected a JSON string", face_plain(&face))));
            }
            if got != face {
                bad.push((
                    format!("face:serde:{}", face_diff(&face, &got)),
                    format!("expected {} back; it serialises to {v} which deserialises to {}", face_plain(&face), face_plain(&got)),
                ));
            }
        }
    }
    bad
}

fn face_witness(fg: Option<[u8; 4]>, bg: Option<[u8; 4]>, flags: u8, underline: u8) -> Value {
    json!({"part": "face", "fg": fg, "bg": bg, "flags": flags, "underline": underline})
}

// ----- keys -----

fn name_code(n: &KeyName) -> String {
    match n {
        KeyName::Char(c) => format!("Char:{}", *c as u32),
        KeyName::F(i) => format!("F:{i}"),
        KeyName::Backspace => "Backspace".into(),
        KeyName::Delete => "Delete".into(),
        KeyName::Insert => "Insert".into(),
        KeyName::Down => "Down".into(),
        KeyName::End => "End".into(),
        KeyName::Enter => "Enter".into(),
        KeyName::Esc => "Esc".into(),
        KeyName::Home => "Home".into(),
        KeyName::Left => "Left".into(),
        KeyName::MouseLeft => "MouseLeft".into(),
        KeyName::MouseMiddle => "MouseMiddle".into(),
        KeyName::MouseMove => "MouseMove".into(),
        KeyName::MouseRight => "MouseRight".into(),
        KeyName::MouseWheelDown => "MouseWheelDown".into(),
        KeyName::MouseWheelUp => "MouseWheelUp".into(),
        KeyName::PageDown => "PageDown".into(),
        KeyName::PageUp => "PageUp".into(),
        KeyName::Right => "Right".into(),
        KeyName::Tab => "Tab".into(),
        KeyName::Up => "Up".into(),
    }
}

fn all_plain_names() -> Vec<KeyName> {
    use KeyName::*;
    vec![Backspace, Delete, Insert, Down, End, Enter, Esc, Home, Left, MouseLeft, MouseMiddle, MouseMove, MouseRight, MouseWheelDown, MouseWheelUp, PageDown, PageUp, Right, Tab, Up]
}

fn name_from_code(code: &str) -> Option<KeyName> {
    if let Some(c) = code.strip_prefix("Char:") {
        return Some(KeyName::Char(char::from_u32(c.parse().ok()?)?));
    }
    if let Some(i) = code.strip_prefix("F:") {
        return Some(KeyName::F(i.parse().ok()?));
    }
    all_plain_names().into_iter().find(|n| name_code(n) == code)
}

const PUNCT: &str = "`-=[]\\;,./";
const F_LATTICE: [usize; 14] = [0, 1, 2, 9, 10, 11, 12, 24, 35, 99, 255, 65535, 1 << 32, usize::MAX];

/// Key names that have a spelling in the chord syntax (named keys, `space`, a-z, 0-9, the ten
/// punctuation keys, `f<n>`).
fn writable_names() -> Vec<KeyName> {
    use KeyName::*;
    let mut v = vec![Left, Up, Right, Down, PageUp, PageDown, End, Home, Tab, Enter, Esc, Char(' '), Backspace, Delete, Insert];
    v.extend(('a'..='z').map(Char));
    v.extend(('0'..='9').map(Char));
    v.extend(PUNCT.chars().map(Char));
    v.extend(F_LATTICE.iter().map(|i| F(*i)));
    v
}

/// Names without a spelling of their own: the statement does not cover them; only counted.
fn unwritable_names() -> Vec<KeyName> {
    use KeyName::*;
    vec![MouseLeft, MouseMiddle, MouseMove, MouseRight, MouseWheelDown, MouseWheelUp, Char('\t'), Char('\n'), Char('A'), Char('+'), Char('"'), Char('\u{e9}'), Char('!')]
}

/// The 256 modifier sets that can be spelled (NUMLOCK, bit 128, has no name).
fn writable_mods() -> Vec<u32> {
    (0..512u32).filter(|b| b & 128 == 0).collect()
}

fn chord_witness(keys: &[Key]) -> Value {
    let ks: Vec<Value> = keys
        .iter()
        .map(|k| {
            let bits = (0..9).filter(|b| k.mode.contains(KeyMod::from_bits(1 << b))).fold(0u32, |a, b| a | 1 << b);
            json!({"name": name_code(&k.name), "mods": bits})
        })
        .collect();
    json!({"part": "chord", "keys": ks})
}

fn eval_chord(keys: &[Key]) -> Bad {
    let mut bad = vec![];
    let chord = KeyChord::new(keys.to_vec());
    match catch(|| {
        let text = chord.to_string();
        let parsed = text.parse::<KeyChord>();
        (text, parsed)
    }) {
        Err(p) => bad.push((panic_key("chord:display-fromstr", &p), panic_text(&p))),
        Ok((text, Err(e))) => bad.push(("chord:display-fromstr:error".into(), format!("chord {} prints as {text:?} which does not parse: {e:?}", chord_witness(keys)))),
        Ok((text, Ok(got))) => {
            if got != chord {
                bad.push(("chord:display-fromstr:differs".into(), format!("chord {} prints as {text:?} which parses to {:?}", chord_witness(keys), chord_witness(got.keys()))));
            }
        }
    }
    match catch(|| {
        let v = serde_json::to_value(&chord).map_err(|e| e.to_string())?;
        let back = serde_json::from_value::<KeyChord>(v.clone()).map_err(|e| e.to_string());
        Ok::<_, String>((v, back))
    }) {
        Err(p) => bad.push((panic_key("chord:serde", &p), panic_text(&p))),
        Ok(Err(e)) => bad.push(("chord:serde:serialize-error".into(), e)),
        Ok(Ok((v, Err(e)))) => bad.push(("chord:serde:error".into(), format!("chord {} serialises to {v} which does not deserialise: {e}", chord_witness(keys)))),
        Ok(Ok((v, Ok(got)))) => {
            if !v.is_string() {
                bad.push(("chord:serde:not-a-string".into(), format!("chord serialises to {v}")));
            }
            if got != chord {
                bad.push(("chord:serde:differs".into(), format!("chord {} serialises to {v} which deserialises to {}", chord_witness(keys), chord_witness(got.keys()))));
            }
        }
    }
    if keys.len() == 1 {
        let key = keys[0];
        match catch(|| {
            let text = key.to_string();
            let parsed = text.parse::<Key>();
            (text, parsed)
        }) {
            Err(p) => bad.push((panic_key("key:display-fromstr", &p), panic_text(&p))),
            Ok((text, Err(e))) => bad.push(("key:display-fromstr:error".into(), format!("key prints as {text:?} which does not parse: {e:?}"))),
            Ok((text, Ok(got))) => {
                if got != key {
                    bad.push(("key:display-fromstr:differs".into(), format!("key prints as {text:?} which parses to {}", chord_witness(&[got]))));
                }
            }
        }
    }
    bad
}

/// A chord written as text (the direction serde deserialisation takes): must not panic, and
/// what it parses to must round-trip.
fn eval_chord_text(text: &str) -> (Bad, &'static str) {
    let mut bad = vec![];
    let outcome;
    match catch(|| serde_json::from_value::<KeyChord>(Value::String(text.to_string()))) {
        Err(p) => {
            outcome = "panic";
            bad.push((panic_key("chord-text:deserialize", &p), format!("deserialising the chord {text:?} {}", panic_text(&p))));
        }
        Ok(Err(_)) => outcome = "error",
        Ok(Ok(chord)) => {
            outcome = "ok";
            for (k, w) in eval_chord(chord.keys()) {
                bad.push((format!("chord-text:{k}"), w));
            }
        }
    }
    (bad, outcome)
}

fn chord_texts() -> Vec<String> {
    let mut v = vec![];
    for d in ['0', '1', '9'] {
        for len in 1..=30 {
            v.push(format!("f{}", d.to_string().repeat(len)));
            v.push(format!("ctrl+F{} a", d.to_string().repeat(len)));
        }
    }
    v.push("f18446744073709551615".into());
    v.push("f18446744073709551616".into());
    v
}

// ----- sizes -----

const SIZE_LATTICE: [usize; 11] = [0, 1, 2, 65535, (1 << 24) + 1, (1 << 32) + 1, (1 << 53) - 1, 1 << 53, (1 << 53) + 1, usize::MAX - 1, usize::MAX];

fn eval_size(h: usize, w: usize) -> Bad {
    let size = Size::new(h, w);
    let mut bad = vec![];
    let r = catch(|| {
        let mut out: Bad = vec![];
        let v = serde_json::to_value(size).map_err(|e| e.to_string())?;
        match serde_json::from_value::<Size>(v.clone()) {
            Ok(got) if got == size => {}
            other => out.push(("size:serde-value:differs".into(), format!("{size:?} -> {v} -> {other:?}"))),
        }
        let t = serde_json::to_string(&size).map_err(|e| e.to_string())?;
        match serde_json::from_str::<Size>(&t) {
            Ok(got) if got == size => {}
            other => out.push(("size:serde-text:differs".into(), format!("{size:?} -> {t} -> {other:?}"))),
        }
        // the two hand-written spellings used by the library's own documents
        for doc in [format!("[{h},{w}]"), format!("{{\"height\":{h},\"width\":{w}}}"), format!("{{\"width\":{w},\"height\":{h}}}")] {
            match serde_json::from_str::<Size>(&doc) {
                Ok(got) if got == size => {}
                other => out.push(("size:hand-built:differs".into(), format!("{doc} -> {other:?}, expected {size:?}"))),
            }
        }
        Ok::<_, String>(out)
    });
    match r {
        Err(p) => bad.push((panic_key("size", &p), panic_text(&p))),
        Ok(Err(e)) => bad.push(("size:serialize-error".into(), e)),
        Ok(Ok(out)) => bad.extend(out),
    }
    bad
}

// ----- images -----

/// pixel i of a base image (distinct for i < 65536, all alpha classes)
fn pix(i: usize) -> [u8; 4] {
    const A: [u8; 6] = [255, 0, 1, 128, 254, 77];
    [((i * 7 + 1) & 255) as u8, (((i >> 8) * 91 + i * 13 + 2) & 255) as u8, ((i * 29 + 3) & 255) as u8, A[i % 6]]
}

fn base_data(len: usize) -> Arc<[RGBA]> {
    (0..len).map(|i| { let [r, g, b, a] = pix(i); RGBA::new(r, g, b, a) }).collect::<Vec<_>>().into()
}

#[derive(Clone, Debug)]
enum ImgCase {
    /// base h x w, crop rows r0..r1, cols c0..c1
    Crop { h: usize, w: usize, r0: usize, r1: usize, c0: usize, c1: usize },
    /// hand-made shape over `len` base pixels
    Shape { len: usize, start: usize, height: usize, width: usize, row_stride: usize, col_stride: usize },
}

impl ImgCase {
    fn json(&self) -> Value {
        match self {
            ImgCase::Crop { h, w, r0, r1, c0, c1 } => json!({"part": "image", "h": h, "w": w, "crop": [r0, r1, c0, c1]}),
            ImgCase::Shape { len, start, height, width, row_stride, col_stride } => {
                json!({"part": "image", "len": len, "shape": {"start": start, "height": height, "width": width, "row_stride": row_stride, "col_stride": col_stride}})
            }
        }
    }
    fn from_json(v: &Value) -> Option<Self> {
        let u = |x: &Value| x.as_u64().map(|x| x as usize);
        if let Some(c) = v.get("crop") {
            return Some(ImgCase::Crop { h: u(&v["h"])?, w: u(&v["w"])?, r0: u(&c[0])?, r1: u(&c[1])?, c0: u(&c[2])?, c1: u(&c[3])? });
        }
        let sh = v.get("shape")?;
        Some(ImgCase::Shape { len: u(&v["len"])?, start: u(&sh["start"])?, height: u(&sh["height"])?, width: u(&sh["width"])?, row_stride: u(&sh["row_stride"])?, col_stride: u(&sh["col_stride"])? })
    }

    /// the image under test and, from plain arithmetic, its expected (height, width, pixels);
    /// for an empty crop the expected size is left to the library (only `pixels` is fixed)
    fn build(&self) -> (Image, Option<(usize, usize)>, Vec<[u8; 4]>) {
        match *self {
            ImgCase::Crop { h, w, r0, r1, c0, c1 } => {
                let base = Image::from_parts(base_data(h * w), Shape::from(Size::new(h, w)));
                let img = base.crop(r0..r1, c0..c1);
                if r0 >= r1 || c0 >= c1 {
                    return (img, None, vec![]);
                }
                let mut px = vec![];
                for r in r0..r1 {
                    for c in c0..c1 {
                        px.push(pix(r * w + c));
                    }
                }
                (img, Some((r1 - r0, c1 - c0)), px)
            }
            ImgCase::Shape { len, start, height, width, row_stride, col_stride } => {
                let end = if height == 0 || width == 0 { start } else { start + (height - 1) * row_stride + (width - 1) * col_stride + 1 };
                let shape = Shape { start, end, width, height, row_stride, col_stride };
                let img = Image::from_parts(base_data(len), shape);
                let mut px = vec![];
                for r in 0..height {
                    for c in 0..width {
                        px.push(pix(start + r * row_stride + c * col_stride));
                    }
                }
                (img, Some((height, width)), px)
            }
        }
    }
}

fn image_cases() -> Vec<ImgCase> {
    let mut v = vec![];
    for h in 0..=3usize {
        for w in 0..=3usize {
            for r0 in 0..=h {
                for r1 in r0..=h {
                    for c0 in 0..=w {
                        for c1 in c0..=w {
                            v.push(ImgCase::Crop { h, w, r0, r1, c0, c1 });
                        }
                    }
                }
            }
        }
    }
    let cols = [0usize, 1, 2, 499, 500, 998, 999, 1000];
    for (i, c0) in cols.iter().enumerate() {
        for c1 in &cols[i..] {
            for (r0, r1) in [(0, 1), (0, 0), (1, 1)] {
                v.push(ImgCase::Crop { h: 1, w: 1000, r0, r1, c0: *c0, c1: *c1 });
            }
        }
    }
    // hand-made shapes: offsets, padded rows, column strides, transposed
    for height in 0..=3usize {
        for width in 0..=3usize {
            for start in [0usize, 1] {
                for col_stride in [1usize, 2] {
                    for pad in [0usize, 1] {
                        v.push(ImgCase::Shape { len: 40, start, height, width, row_stride: width * col_stride + pad, col_stride });
                    }
                }
                // transposed: consecutive rows are adjacent, columns are `height` apart
                v.push(ImgCase::Shape { len: 40, start, height, width, row_stride: 1, col_stride: height.max(1) });
            }
        }
    }
    v
}

fn eval_image(case: &ImgCase) -> Bad {
    let mut bad = vec![];
    let (img, want_size, want_px) = case.build();
    let r = catch(|| {
        let v = serde_json::to_value(&img).map_err(|e| format!("serialize: {e}"))?;
        let back = serde_json::from_value::<Image>(v.clone()).map_err(|e| format!("deserialize {v}: {e}"))?;
        Ok::<_, String>((v, back))
    });
    match r {
        Err(p) => bad.push((panic_key("image:roundtrip", &p), panic_text(&p))),
        Ok(Err(e)) => bad.push(("image:roundtrip:error".into(), e)),
        Ok(Ok((v, back))) => {
            let (h, w) = want_size.unwrap_or((img.height(), img.width()));
            if (back.height(), back.width()) != (h, w) {
                bad.push(("image:roundtrip:size-differs".into(), format!("expected {h}x{w}, got {}x{} from {v}", back.height(), back.width())));
            } else {
                let got = image_pixels(&back);
                if got != want_px {
                    let i = got.iter().zip(&want_px).position(|(a, b)| a != b).unwrap_or(got.len().min(want_px.len()));
                    bad.push(("image:roundtrip:pixels-differ".into(), format!("{h}x{w}: pixel #{i} expected {:?} got {:?}", want_px.get(i), got.get(i))));
                }
            }
            // the serialised form itself, read with the reference base64 decoder
            let ok_form = v["channels"] == json!(4) && v["size"] == json!({"height": h, "width": w});
            let data = v["data"].as_str().and_then(b64_decode_lenient);
            let want_bytes: Vec<u8> = want_px.iter().flatten().copied().collect();
            if !ok_form || data.as_deref() != Some(&want_bytes[..]) {
                bad.push(("image:serialized-form".into(), format!("expected size {h}x{w}, channels 4 and base64 of {} RGBA bytes, got {}", want_bytes.len(), squash(&v.to_string(), 200))));
            }
        }
    }
    bad
}

/// Two views of ONE image object serialised back to back on one thread (whatever the serialiser keeps from one call
/// to the next - a scratch buffer, a memo - must not leak into the second document): all ordered pairs of the
/// non-empty windows of a 3x4 image, each second document deserialised and compared with its own window.
fn eval_image_pairs() -> (u64, Bad) {
    let (h, w) = (3usize, 4usize);
    let base = Image::from_parts(base_data(h * w), Shape::from(Size::new(h, w)));
    let mut windows = vec![];
    for r0 in 0..h {
        for r1 in r0 + 1..=h {
            for c0 in 0..w {
                for c1 in c0 + 1..=w {
                    windows.push((r0, r1, c0, c1));
                }
            }
        }
    }
    let mut bad: Bad = vec![];
    let mut n = 0u64;
    let views: Vec<Image> = windows.iter().map(|(r0, r1, c0, c1)| base.crop(*r0..*r1, *c0..*c1)).collect();
    for (i, a) in views.iter().enumerate() {
        for (j, b) in views.iter().enumerate() {
            n += 1;
            let r = catch(|| {
                let _first = serde_json::to_string(a).map_err(|e| format!("serialize: {e}"))?;
                let second = serde_json::to_string(b).map_err(|e| format!("serialize: {e}"))?;
                serde_json::from_str::<Image>(&second).map_err(|e| format!("deserialize: {e}"))
            });
            let (r0, r1, c0, c1) = windows[j];
            let mut want = vec![];
            for r in r0..r1 {
                for c in c0..c1 {
                    want.push(pix(r * w + c));
                }
            }
            let what = || format!("window {:?} of a 3x4 image serialised right after window {:?} of the same image object", windows[j], windows[i]);
            match r {
                Err(p) => bad.push((panic_key("image-pair", &p), format!("{}: {}", what(), panic_text(&p)))),
                Ok(Err(e)) => bad.push(("image-pair:error".into(), format!("{}: {e}", what()))),
                Ok(Ok(back)) => {
                    if (back.height(), back.width()) != (r1 - r0, c1 - c0) || image_pixels(&back) != want {
                        bad.push(("image-pair:second-document-differs".into(), format!("{}: deserialises to {}x{} {:?}, expected {}x{} {:?}", what(), back.height(), back.width(), image_pixels(&back), r1 - r0, c1 - c0, want)));
                    }
                }
            }
            if bad.len() > 3 {
                return (n, bad);
            }
        }
    }
    (n, bad)
}

fn input_byte(i: usize) -> u8 {
    ((i * 37 + 11) & 255) as u8
}

/// hand-built document -> expected pixels, from the documented layout (row-major, `channels`
/// bytes per pixel; 1 = grey, 3 = RGB opaque, 4 = RGBA)
fn eval_image_input(channels: usize, h: usize, w: usize, form: usize) -> Bad {
    let mut bad = vec![];
    let bytes: Vec<u8> = (0..channels * h * w).map(input_byte).collect();
    let data = b64_encode(&bytes);
    let size_arr = format!("[{h},{w}]");
    let size_map = format!("{{\"height\":{h},\"width\":{w}}}");
    let text = match form {
        0 => format!("{{\"size\":{size_arr},\"channels\":{channels},\"data\":\"{data}\"}}"),
        1 => format!("{{\"data\":\"{data}\",\"size\":{size_map},\"channels\":{channels}}}"),
        3 => format!("{{\"size\":{size_arr},\"data\":\"{data}\",\"channels\":{channels}}}"),
        4 => format!("{{\"data\":\"{data}\",\"channels\":{channels},\"size\":{size_arr}}}"),
        5 => format!("{{\"channels\":{channels},\"size\":{size_map},\"data\":\"{data}\"}}"),
        _ => format!("{{\"channels\":{channels},\"data\":\"{data}\",\"extra\":[1,{{}}],\"size\":{size_arr}}}"),
    };
    let want: Vec<[u8; 4]> = (0..if matches!(channels, 1 | 3 | 4) { h * w } else { 0 })
        .map(|p| match channels {
            1 => [bytes[p], bytes[p], bytes[p], 255],
            3 => [bytes[3 * p], bytes[3 * p + 1], bytes[3 * p + 2], 255],
            _ => [bytes[4 * p], bytes[4 * p + 1], bytes[4 * p + 2], bytes[4 * p + 3]],
        })
        .collect();
    for route in ["text", "value"] {
        let r = catch(|| {
            if route == "text" {
                serde_json::from_str::<Image>(&text).map_err(|e| e.to_string())
            } else {
                let v: Value = serde_json::from_str(&text).map_err(|e| e.to_string())?;
                serde_json::from_value::<Image>(v).map_err(|e| e.to_string())
            }
        });
        match r {
            Err(p) => bad.push((panic_key("image-input", &p), panic_text(&p))),
            // channel counts other than 1, 3, 4 are not a documented layout: whatever the answer is,
            // it must be an answer (the data length is consistent with the declared count)
            Ok(_) if !matches!(channels, 1 | 3 | 4) => {}
            Ok(Err(e)) => bad.push((format!("image-input:{channels}ch:rejected"), format!("valid {channels}-channel {h}x{w} document rejected ({route}): {e}"))),
            Ok(Ok(img)) => {
                if (img.height(), img.width()) != (h, w) {
                    bad.push((format!("image-input:{channels}ch:size-differs"), format!("expected {h}x{w} got {}x{}", img.height(), img.width())));
                } else {
                    let got = image_pixels(&img);
                    if got != want {
                        let i = got.iter().zip(&want).position(|(a, b)| a != b).unwrap_or(0);
                        bad.push((format!("image-input:{channels}ch:pixels-differ"), format!("{h}x{w} ({route}): pixel #{i} expected {:?} got {:?}", want.get(i), got.get(i))));
                    }
                }
            }
        }
    }
    bad
}

fn image_input_sizes() -> Vec<(usize, usize)> {
    let mut v = vec![];
    for h in 0..=3 {
        for w in 0..=3 {
            v.push((h, w));
        }
    }
    v.extend([(1, 1000), (1000, 1), (5, 7), (13, 10)]);
    v
}

// ---------------------------------------------------------------------------------------------
// driver
// ---------------------------------------------------------------------------------------------

struct Part1 {
    counts: BTreeMap<&'static str, u64>,
    evaluations: u64,
    unwritable_outcomes: BTreeMap<String, u64>,
    chord_text_outcomes: BTreeMap<&'static str, u64>,
}

fn run_part1(ctx: &Ctx, viol: &Violations, samples: &Samples) -> Part1 {
    let mut counts: BTreeMap<&'static str, u64> = BTreeMap::new();
    let evals = AtomicU64::new(0);

    // faces
    let colours = colour_lattice();
    let full = ctx.tier == Tier::Thorough;
    let face_cases = AtomicU64::new(0);
    (0..colours.len()).into_par_iter().for_each(|fi| {
        let fg = colours[fi];
        let mut local = 0u64;
        for (bi, bg) in colours.iter().enumerate() {
            // quick tier: every (fg, bg) pair with 8 attribute sets, and every attribute set
            // with every pair in which fg or bg is one of 4 anchor colours
            let all_attrs = full || FACE_ANCHORS.contains(&fi) || FACE_ANCHORS.contains(&bi);
            for flags in 0..32u8 {
                for ul in 0..6u8 {
                    if !all_attrs && !FACE_QUICK_ATTRS.contains(&(flags, ul)) {
                        continue;
                    }
                    local += 1;
                    let face = make_face(fg, *bg, flags, ul);
                    for (key, what) in eval_face(face) {
                        viol.add(key, what, face_witness(fg, *bg, flags, ul));
                    }
                    let id = ((fi * colours.len() + bi) * 192 + flags as usize * 6 + ul as usize) as u64;
                    if samples.wants(id + 1000) {
                        samples.offer(id + 1000, || json!({"part": "face", "text": face.to_string()}));
                    }
                }
            }
        }
        face_cases.fetch_add(local, Ordering::Relaxed);
    });
    counts.insert("faces", face_cases.load(Ordering::Relaxed));
    evals.fetch_add(2 * face_cases.load(Ordering::Relaxed), Ordering::Relaxed);

    // keys x modifier sets
    let names = writable_names();
    let mods = writable_mods();
    let key_cases = AtomicU64::new(0);
    names.par_iter().for_each(|name| {
        for m in &mods {
            let key = Key::new(*name, KeyMod::from_bits(*m));
            for (k, what) in eval_chord(&[key]) {
                viol.add(k, what, chord_witness(&[key]));
            }
            key_cases.fetch_add(1, Ordering::Relaxed);
        }
    });
    counts.insert("keys", key_cases.load(Ordering::Relaxed));
    evals.fetch_add(3 * key_cases.load(Ordering::Relaxed), Ordering::Relaxed);
    samples.force(json!({"part": "chord", "text": KeyChord::new(vec![Key::new(KeyName::F(12), KeyMod::from_bits(7)), Key::new(KeyName::Char(' '), KeyMod::EMPTY)]).to_string()}));

    // chords of length <= 3 over two 8-key sets
    let all = KeyMod::from_bits(511 & !128);
    let sets: [Vec<Key>; 2] = [
        vec![
            Key::new(KeyName::Char('x'), KeyMod::CTRL),
            Key::new(KeyName::Char('a'), KeyMod::EMPTY),
            Key::new(KeyName::F(12), KeyMod::ALT | KeyMod::SHIFT),
            Key::new(KeyName::Char(' '), KeyMod::EMPTY),
            Key::new(KeyName::Enter, KeyMod::EMPTY),
            Key::new(KeyName::Char('/'), all),
            Key::new(KeyName::F(0), KeyMod::EMPTY),
            Key::new(KeyName::Tab, KeyMod::SHIFT),
        ],
        vec![
            Key::new(KeyName::Char('\\'), KeyMod::EMPTY),
            Key::new(KeyName::Char('-'), KeyMod::META),
            Key::new(KeyName::Esc, KeyMod::EMPTY),
            Key::new(KeyName::PageDown, KeyMod::PRESS),
            Key::new(KeyName::F(usize::MAX), KeyMod::HYPER),
            Key::new(KeyName::Char('0'), KeyMod::CAPSLOCK),
            Key::new(KeyName::Backspace, KeyMod::SUPER | KeyMod::CTRL),
            Key::new(KeyName::Char('f'), KeyMod::EMPTY),
        ],
    ];
    let mut chords: Vec<Vec<Key>> = vec![];
    for set in &sets {
        for a in set {
            chords.push(vec![*a]);
            for b in set {
                chords.push(vec![*a, *b]);
                for c in set {
                    chords.push(vec![*a, *b, *c]);
                }
            }
        }
    }
    chords.par_iter().for_each(|ch| {
        for (k, what) in eval_chord(ch) {
            viol.add(k, what, chord_witness(ch));
        }
    });
    counts.insert("chords", chords.len() as u64);
    evals.fetch_add(2 * chords.len() as u64, Ordering::Relaxed);

    // names outside the syntax: observed, not judged
    let mut unwritable_outcomes: BTreeMap<String, u64> = BTreeMap::new();
    for name in unwritable_names() {
        let key = Key::new(name, KeyMod::EMPTY);
        let o = match catch(|| key.to_string().parse::<Key>()) {
            Err(_) => "panic",
            Ok(Err(_)) => "print-does-not-parse",
            Ok(Ok(k)) if k == key => "round-trips",
            Ok(Ok(_)) => "parses-to-another-key",
        };
        *unwritable_outcomes.entry(o.to_string()).or_insert(0) += 1;
    }

    // chords written as text
    let mut chord_text_outcomes: BTreeMap<&'static str, u64> = BTreeMap::new();
    let texts = chord_texts();
    for t in &texts {
        let (bad, outcome) = eval_chord_text(t);
        *chord_text_outcomes.entry(outcome).or_insert(0) += 1;
        for (k, what) in bad {
            viol.add(k, what, json!({"part": "chord-text", "text": t}));
        }
    }
    counts.insert("chord_texts", texts.len() as u64);
    evals.fetch_add(texts.len() as u64, Ordering::Relaxed);

    // sizes
    let mut nsizes = 0;
    for h in SIZE_LATTICE {
        for w in SIZE_LATTICE {
            nsizes += 1;
            for (k, what) in eval_size(h, w) {
                viol.add(k, what, json!({"part": "size", "h": h.to_string(), "w": w.to_string()}));
            }
        }
    }
    counts.insert("sizes", nsizes);
    evals.fetch_add(5 * nsizes, Ordering::Relaxed);

    // images
    let cases = image_cases();
    cases.par_iter().for_each(|c| {
        for (k, what) in eval_image(c) {
            viol.add(k, format!("{}: {what}", c.json()), c.json());
        }
    });
    let (pair_count, pair_bad) = eval_image_pairs();
    for (k, what) in pair_bad {
        viol.add(k, what, json!({"part": "image-pairs"}));
    }
    counts.insert("image_view_pairs_back_to_back", pair_count);
    evals.fetch_add(pair_count, Ordering::Relaxed);
    counts.insert("image_views", cases.len() as u64);
    evals.fetch_add(cases.len() as u64, Ordering::Relaxed);
    samples.force(cases[cases.len() / 3].json());
    let mut inputs = vec![];
    for ch in [1usize, 3, 4, 0, 2, 5, 6, 8, 255] {
        for (h, w) in image_input_sizes() {
            if !matches!(ch, 1 | 3 | 4) && h * w > 100 {
                continue;
            }
            for form in 0..6 {
                inputs.push((ch, h, w, form));
            }
        }
    }
    inputs.par_iter().for_each(|(ch, h, w, form)| {
        for (k, what) in eval_image_input(*ch, *h, *w, *form) {
            viol.add(k, what, json!({"part": "image-input", "channels": ch, "h": h, "w": w, "form": form}));
        }
    });
    counts.insert("image_inputs", inputs.len() as u64);
    evals.fetch_add(2 * inputs.len() as u64, Ordering::Relaxed);
    Part1 { counts, evaluations: evals.load(Ordering::Relaxed), unwritable_outcomes, chord_text_outcomes }
}

fn norm_how(how: &str) -> String {
    let h = how.replace(" (core dumped)", "");
    squash(&h, 40)
}

pub fn run(ctx: &Ctx) -> Result<Report, String> {
    let viol = Violations::new();
    let samples = Samples::new(ctx.seed);
    let t0 = Instant::now();
    let p1 = run_part1(ctx, &viol, &samples);
    let part1_s = t0.elapsed().as_secs_f64();

    // part 2
    let plan = Plan::new();
    let mut planned = 0u64;
    plan.for_each_case(ctx.tier, |_, _| planned += 1);
    let spec = Spec {
        prop: "C19",
        tier: ctx.tier,
        seed: ctx.seed,
        shards: ctx.tier.pick(16, 64),
        parallel: ctx.threads.clamp(1, 16),
        extra_args: vec![],
        stall_timeout: Duration::from_secs(STALL_SECS),
        max_restarts_per_shard: 40,
        deadline: ctx.start + Duration::from_secs_f64(ctx.wall_cap_s),
    };
    let describe = |desc: &[u8], how: &str| -> (String, String, Value) {
        let text = String::from_utf8_lossy(desc).to_string();
        match CaseDesc::decode(&text) {
            Some(c) if c.seed < plan.seeds.len() => {
                let d = plan.seeds[c.seed].0.name();
                let w = hostile_witness(&plan, &c);
                (
                    format!("hostile:{d}:process-died[{}]:{}", norm_how(how), plan.kinds(&c)),
                    format!("worker process ended ({how}) while handling {d} document {}", w["mutations"]),
                    w,
                )
            }
            _ => (format!("hostile:process-died[{}]", norm_how(how)), format!("worker ended ({how}) at unknown case {text}"), json!({"part": "hostile", "case": text})),
        }
    };
    let merged = workers::run_shards(&spec, &describe)?;
    if let Some(bad) = merged.notes.get("bad_seed") {
        return Err(format!("C19: seed documents must be valid: {:?}", bad));
    }
    let c = |k: &str| merged.counters.get(k).copied().unwrap_or(0);
    let mut per = serde_json::Map::new();
    for d in Deser::ALL {
        let n = d.name();
        let (ok, err) = (c(&format!("{n}.ok")), c(&format!("{n}.err")));
        if !merged.capped && (ok == 0 || err == 0) {
            return Err(format!("C19: vacuous run for {n}: {ok} accepted, {err} rejected"));
        }
        per.insert(
            n.into(),
            json!({"documents": c(&format!("{n}.documents")), "accepted": ok, "rejected": err, "panicked": c(&format!("{n}.panic")),
                "accepted_text_route": c(&format!("{n}.text.ok")), "accepted_value_route": c(&format!("{n}.value.ok")),
                "routes_disagree": c(&format!("{n}.routes_disagree"))}),
        );
    }
    let classes: BTreeSet<String> = merged.notes.get("class").map(|v| v.iter().filter_map(|x| x.as_str().map(String::from)).collect()).unwrap_or_default();
    let executed = c("pristine") + c("singles") + c("pairs") + c("skipped_inapplicable") + merged.crashes;
    let complete = !merged.capped && executed == planned;
    viol.extend(merged.violations);

    let mut all_samples = samples.into_vec();
    all_samples.extend(merged.samples);
    let mut r = Report::new("exploration");
    r.set("evaluations", p1.evaluations + c("evaluations"))
        .set("distinct_nontrivial", classes.len() as u64)
        .set(
            "rule",
            "part 1: every element of each lattice once (distinct by construction). part 2: documents = seed x mutation (singles) and seed x allowed mutation pair (thorough), \
             each deserialised from JSON text and from serde_json::Value; evaluations = deserialisations + layout/render runs; distinct_nontrivial = number of distinct \
             (deserialiser, outcome) classes observed, an outcome being `ok`, `panic` or the error message with digits squashed",
        )
        .set("samples", all_samples)
        .set("exhaustive", complete)
        .set("capped", merged.capped)
        .set("part1_cases", json!(p1.counts))
        .set("part1_wall_s", (part1_s * 100.0).round() / 100.0)
        .set("unwritable_key_names_observed", json!(p1.unwritable_outcomes))
        .set("chord_text_outcomes", json!(p1.chord_text_outcomes))
        .set("hostile_seeds", plan.seeds.len())
        .set("hostile_single_mutations_per_seed", plan.muts.iter().map(|m| m.len()).collect::<Vec<_>>())
        .set("hostile_cases_planned", planned)
        .set("hostile_cases_executed", executed)
        .set("hostile_singles", c("singles"))
        .set("hostile_pairs", c("pairs"))
        .set("hostile_per_deserialiser", Value::Object(per))
        .set("outcome_classes", classes.iter().take(400).cloned().collect::<Vec<_>>())
        .set("worker_crashes", merged.crashes)
        .set("raw_violations", viol.raw_count() + c("raw_violations"));
    r.assume("serde_json (text parser with its recursion limit of 128, Value deserialiser) and the rasterize crate's own deserialisers are trusted as given; panics inside them are still reported");
    r.assume(&format!("each document is handled on a thread with a {} MiB stack in a process limited to {} GiB of address space; no progress for {} s counts as a stall", CASE_STACK_BYTES >> 20, AS_LIMIT_BYTES >> 30, STALL_SECS));
    r.assume("layout/render uses ViewContext::dummy() (glyph support on); `ref` views resolve uid 1 through a ViewCache, one custom view type is registered");
    r.assume("key names without a spelling of their own (mouse keys, Char of tab/newline/upper case/other symbols, NUMLOCK) are outside 'every chord that can be written'");
    if ctx.tier == Tier::Quick {
        r.set("tier_note", "quick: all single mutations; thorough adds every allowed pair of mutations");
    }
    r.violations = viol.into_vec();
    Ok(r)
}

fn opt_rgba(v: &Value) -> Option<[u8; 4]> {
    let a = v.as_array()?;
    Some([a[0].as_u64()? as u8, a[1].as_u64()? as u8, a[2].as_u64()? as u8, a[3].as_u64()? as u8])
}

fn report_bad(bad: Bad, subject: String) -> (bool, String) {
    if bad.is_empty() {
        (false, format!("{subject}: round-trips as expected"))
    } else {
        (true, format!("{subject}:\n{}", bad.iter().map(|(k, w)| format!("  [{k}] {w}")).collect::<Vec<_>>().join("\n")))
    }
}

pub fn replay(w: &Value) -> Result<(bool, String), String> {
    match w["part"].as_str().ok_or("witness without part")? {
        "face" => {
            let (fg, bg) = (opt_rgba(&w["fg"]), opt_rgba(&w["bg"]));
            let flags = w["flags"].as_u64().ok_or("flags")? as u8;
            let ul = w["underline"].as_u64().ok_or("underline")? as u8;
            let face = make_face(fg, bg, flags, ul);
            Ok(report_bad(eval_face(face), format!("face {} (expected: printing then parsing, and serialising then deserialising, give the same face)", face_plain(&face))))
        }
        "chord" => {
            let mut keys = vec![];
            for k in w["keys"].as_array().ok_or("keys")? {
                let name = name_from_code(k["name"].as_str().ok_or("name")?).ok_or("bad key name")?;
                keys.push(Key::new(name, KeyMod::from_bits(k["mods"].as_u64().ok_or("mods")? as u32)));
            }
            Ok(report_bad(eval_chord(&keys), format!("chord {} (expected: the same chord back)", w["keys"])))
        }
        "chord-text" => {
            let t = w["text"].as_str().ok_or("text")?;
            let (bad, outcome) = eval_chord_text(t);
            Ok(report_bad(bad, format!("chord text {t:?} (expected: an error or a chord that round-trips; observed {outcome})")))
        }
        "size" => {
            let h: usize = w["h"].as_str().ok_or("h")?.parse().map_err(|_| "h")?;
            let wd: usize = w["w"].as_str().ok_or("w")?.parse().map_err(|_| "w")?;
            Ok(report_bad(eval_size(h, wd), format!("size {h}x{wd}")))
        }
        "image-pairs" => Ok(report_bad(eval_image_pairs().1, "views of one image object serialised back to back (expected: every second document is its own window)".to_string())),
        "image" => {
            let c = ImgCase::from_json(w).ok_or("bad image case")?;
            Ok(report_bad(eval_image(&c), format!("image view {c:?} (expected: same size and pixels after serialise+deserialise)")))
        }
        "image-input" => {
            let u = |k: &str| w[k].as_u64().map(|x| x as usize).ok_or(format!("missing {k}"));
            Ok(report_bad(eval_image_input(u("channels")?, u("h")?, u("w")?, u("form")?), "hand-built image document (expected: pixels as laid out in the data)".to_string()))
        }
        "hostile" => {
            let c = CaseDesc::decode(w["case"].as_str().ok_or("case")?).ok_or("bad case descriptor")?;
            limit_address_space();
            let handle = std::thread::Builder::new()
                .stack_size(CASE_STACK_BYTES)
                .spawn(move || -> Result<(bool, String), String> {
                    let plan = Plan::new();
                    let (d, doc, what) = plan.build(&c).ok_or("case does not apply")?;
                    let started = Instant::now();
                    let out = exec_doc(d, &doc);
                    let secs = started.elapsed().as_secs_f64();
                    let mut text = doc.text();
                    if text.len() > 600 {
                        let mut cut = 600;
                        while !text.is_char_boundary(cut) {
                            cut -= 1;
                        }
                        text.truncate(cut);
                        text.push_str("...");
                    }
                    let mut detail = format!(
                        "{} document, mutations {:?}\n  document: {}\n  expected: a value or an error from both routes, then layout+render without panic\n  observed: text route -> {}, value route -> {} ({secs:.2}s)",
                        d.name(), what, text, out.classes[0].1, out.classes[1].1
                    );
                    for f in &out.findings {
                        detail.push_str(&format!("\n  [{}] {}", f.key, f.what));
                    }
                    let stalled = secs > STALL_SECS as f64;
                    if stalled {
                        detail.push_str("\n  took longer than the stall limit");
                    }
                    Ok((!out.findings.is_empty() || stalled, detail))
                })
                .map_err(|e| e.to_string())?;
            match handle.join() {
                Ok(r) => r,
                Err(_) => Ok((true, "the case panicked outside the instrumented region".into())),
            }
        }
        "hostile-index" => {
            // debugging aid: {"part":"hostile-index","index":N,"tier":"thorough"} -> the case
            let want = w["index"].as_u64().ok_or("index")?;
            let tier = if w["tier"] == "thorough" { Tier::Thorough } else { Tier::Quick };
            let plan = Plan::new();
            let mut found = None;
            plan.for_each_case(tier, |idx, c| {
                if idx == want {
                    found = Some(c);
                }
            });
            let c = found.ok_or("no such index")?;
            replay(&json!({"part": "hostile", "case": c.encode()}))
        }
        other => Err(format!("unknown witness part {other}")),
    }
}
