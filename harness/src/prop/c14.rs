//! C14 -- the streaming base64 codec follows RFC 4648 and round-trips under any chunking.
//!
//! Encoder (`Base64Encoder`): closed exploration of the carry state (0, 1 or 2 pending
//! bytes: 1 + 256 + 65 536 states) x every next byte, each transition executed on a real
//! encoder reached through a canonical history, in a fresh and in a "stale buffer" context;
//! all 2^24 three-byte groups (also followed by tails, so that every concrete content of the
//! 3-byte buffer is exercised); every partition of short inputs into writes, <= 2-cut and
//! all-singleton partitions for every length up to 200, empty writes, flushes and a sink that
//! accepts one byte per call.
//! Decoder (`Base64Decoder`): the encodings of all lengths 0..=200 through a reader that
//! delivers the text in chunks (every composition of the text for short texts, cyclic
//! schedules beyond) into destination buffers of many sizes; every group of four characters;
//! texts whose length is not a multiple of four must end in an error; arbitrary bytes must
//! not panic.
//! Oracle: `model::b64` (RFC 4648 section 4, cross-checked with CPython at start-up).
use crate::engine::catch;
use crate::engine::report::{Ctx, Report, Samples, Tier, Violations};
use crate::engine::util::{cuts_from_mask, esc, hex, partitions_upto_cuts, unhex};
use crate::model::b64;
use rayon::prelude::*;
use serde_json::{json, Value};
use std::collections::BTreeSet;
use std::io::{Read, Write};
use std::sync::atomic::{AtomicU64, Ordering};
use std::sync::Mutex;
use surf_n_term::decoder::Base64Decoder;
use surf_n_term::encoder::Base64Encoder;

// ---------------------------------------------------------------------------------------
// environment: sink and source with schedules
// ---------------------------------------------------------------------------------------

/// Sink that accepts at most `limit` bytes per `write` call.
struct Sink {
    out: Vec<u8>,
    limit: usize,
}

impl Write for Sink {
    fn write(&mut self, buf: &[u8]) -> std::io::Result<usize> {
        let n = buf.len().min(self.limit);
        self.out.extend_from_slice(&buf[..n]);
        Ok(n)
    }
    fn flush(&mut self) -> std::io::Result<()> {
        Ok(())
    }
}

/// Source that delivers `data` in chunks: a `read` returns what is left of the current
/// chunk, limited by the caller's buffer; `Ok(0)` only at the end of the data. When the
/// schedule is exhausted it starts over (`cyclic`) or delivers the rest in one chunk.
struct ChunkReader<'a> {
    data: &'a [u8],
    pos: usize,
    chunks: &'a [usize],
    cyclic: bool,
    next: usize,
    left: usize,
}

impl<'a> ChunkReader<'a> {
    fn new(data: &'a [u8], chunks: &'a [usize], cyclic: bool) -> Self {
        Self { data, pos: 0, chunks, cyclic, next: 0, left: 0 }
    }
}

impl Read for ChunkReader<'_> {
    fn read(&mut self, buf: &mut [u8]) -> std::io::Result<usize> {
        if buf.is_empty() || self.pos == self.data.len() {
            return Ok(0);
        }
        let mut spins = 0;
        while self.left == 0 {
            if self.next < self.chunks.len() {
                self.left = self.chunks[self.next];
                self.next += 1;
                if self.left == 0 {
                    // a 0 in the schedule: this call is interrupted (the non-fatal "try again" outcome of `Read`)
                    return Err(std::io::Error::new(std::io::ErrorKind::Interrupted, "interrupted"));
                }
            } else if self.cyclic && spins == 0 && !self.chunks.is_empty() {
                self.next = 0;
                spins = 1;
            } else {
                self.left = usize::MAX;
            }
        }
        let n = buf.len().min(self.left).min(self.data.len() - self.pos);
        buf[..n].copy_from_slice(&self.data[self.pos..self.pos + n]);
        self.pos += n;
        self.left -= n;
        Ok(n)
    }
}

// ---------------------------------------------------------------------------------------
// one execution of the real encoder / decoder
// ---------------------------------------------------------------------------------------

/// Write `pieces` with one `write_all` each (optionally `flush` after each), finish.
fn encode_run(pieces: &[&[u8]], flush: bool, sink_limit: usize) -> Result<Vec<u8>, String> {
    if sink_limit == VECTORED_WRITE {
        // all pieces handed to `write_vectored` together (a method of `Write` an implementation may provide itself),
        // called again with what it did not take
        let mut enc = Base64Encoder::new(Sink { out: Vec::with_capacity(16), limit: usize::MAX });
        let mut rest: Vec<&[u8]> = pieces.to_vec();
        let mut budget = 4 * pieces.iter().map(|p| p.len() + 1).sum::<usize>() + 16;
        while rest.iter().any(|p| !p.is_empty()) {
            budget -= 1;
            if budget == 0 {
                return Err("write_vectored makes no progress".into());
            }
            let slices: Vec<std::io::IoSlice<'_>> = rest.iter().map(|p| std::io::IoSlice::new(p)).collect();
            let mut n = enc.write_vectored(&slices).map_err(|e| format!("write_vectored failed: {e}"))?;
            if n == 0 {
                return Err("write_vectored returned 0 for non-empty input".into());
            }
            for p in rest.iter_mut() {
                let take = n.min(p.len());
                *p = &p[take..];
                n -= take;
            }
            if n > 0 {
                return Err("write_vectored reports more bytes than it was given".into());
            }
        }
        return Ok(enc.finish().map_err(|e| format!("finish failed: {e}"))?.out);
    }
    let mut enc = Base64Encoder::new(Sink { out: Vec::with_capacity(16), limit: sink_limit });
    for p in pieces {
        enc.write_all(p).map_err(|e| format!("write failed: {e}"))?;
        if flush {
            enc.flush().map_err(|e| format!("flush failed: {e}"))?;
        }
    }
    Ok(enc.finish().map_err(|e| format!("finish failed: {e}"))?.out)
}

#[derive(Debug, Clone, PartialEq, Eq)]
enum End {
    Eof,
    Error(String),
}

#[derive(Debug, Clone)]
struct DecOut {
    bytes: Vec<u8>,
    end: End,
    /// violations of the `Read` contract seen on the way
    contract: Vec<(&'static str, String)>,
}

/// Read the decoder to the end with destination sizes `dsts` (cyclic).
fn decode_run(text: &[u8], chunks: &[usize], cyclic: bool, dsts: &[usize]) -> DecOut {
    let mut dec = Base64Decoder::new(ChunkReader::new(text, chunks, cyclic));
    let cap = dsts.iter().copied().filter(|d| *d < TO_STRING).max().unwrap_or(1).max(1);
    let mut buf = vec![0xAAu8; cap];
    let mut out = DecOut { bytes: Vec::with_capacity(text.len()), end: End::Eof, contract: vec![] };
    let max_iters = 4 * text.len() + 64;
    let mut i = 0;
    loop {
        if i >= max_iters {
            out.contract.push(("no-progress", format!("{max_iters} reads without reaching the end")));
            return out;
        }
        let d = dsts[i % dsts.len()];
        i += 1;
        if d == REST {
            // the rest through `read_to_end` (a method of `Read` an implementation may provide itself)
            match dec.read_to_end(&mut out.bytes) {
                Ok(_) => break,
                Err(e) => {
                    out.end = End::Error(e.to_string());
                    return out;
                }
            }
        }
        if d == TO_STRING {
            // the rest through `read_to_string` (valid only for payloads that are UTF-8 text)
            let mut text = String::new();
            match dec.read_to_string(&mut text) {
                Ok(_) => {
                    out.bytes.extend_from_slice(text.as_bytes());
                    break;
                }
                Err(e) => {
                    out.end = End::Error(e.to_string());
                    return out;
                }
            }
        }
        if d == VECTORED {
            // one `read_vectored` call with buffers of 2 and 3 bytes
            let (mut a, mut b) = ([0xAAu8; 2], [0xAAu8; 3]);
            let r = {
                let mut bufs = [std::io::IoSliceMut::new(&mut a), std::io::IoSliceMut::new(&mut b)];
                dec.read_vectored(&mut bufs)
            };
            match r {
                Ok(0) => break,
                Ok(n) if n > 5 => {
                    out.contract.push(("overlong", format!("read_vectored returned {n} for buffers of 2 + 3 bytes")));
                    return out;
                }
                Ok(n) => {
                    out.bytes.extend_from_slice(&a[..n.min(2)]);
                    out.bytes.extend_from_slice(&b[..n.saturating_sub(2)]);
                }
                Err(e) => {
                    out.end = End::Error(e.to_string());
                    return out;
                }
            }
            continue;
        }
        match dec.read(&mut buf[..d]) {
            Ok(0) if d > 0 => break,
            Ok(0) => continue,
            Ok(n) if n > d => {
                out.contract.push(("overlong", format!("read returned {n} for a buffer of {d}")));
                return out;
            }
            Ok(n) => out.bytes.extend_from_slice(&buf[..n]),
            Err(e) => {
                out.end = End::Error(e.to_string());
                return out;
            }
        }
    }
    // end of stream must be sticky
    for _ in 0..2 {
        match dec.read(&mut buf[..cap]) {
            Ok(0) => {}
            Ok(n) => {
                out.contract.push(("read-after-eof", format!("read returned {n} bytes after it had reported the end")));
                out.bytes.extend_from_slice(&buf[..n]);
            }
            Err(e) => out.contract.push(("read-after-eof", format!("read failed after the end: {e}"))),
        }
    }
    out
}

#[derive(Debug, Clone, Copy, PartialEq, Eq)]
enum Expect<'a> {
    /// canonical encoding of these bytes
    Bytes(&'a [u8]),
    /// length not a multiple of four
    Error,
    /// anything but a panic
    NoPanic,
}

/// Run + judge one decoder execution. Returns (kind, detail) list, empty = fine.
fn decode_check(text: &[u8], chunks: &[usize], cyclic: bool, dsts: &[usize], expect: Expect) -> (Vec<(String, String)>, Option<DecOut>) {
    match catch(|| decode_run(text, chunks, cyclic, dsts)) {
        Err(p) => (vec![(p.key(), format!("panicked: {} ({}:{})", p.message, p.file, p.line))], None),
        Ok(out) => {
            let mut problems: Vec<(String, String)> = vec![];
            match expect {
                Expect::Bytes(data) => {
                    match &out.end {
                        End::Error(e) => problems.push((
                            "error-on-valid".into(),
                            format!("expected {} decoded bytes, decoder failed after {} with: {e}", data.len(), out.bytes.len()),
                        )),
                        End::Eof => {
                            if out.bytes != data {
                                let kind = if out.bytes.len() < data.len() && data.starts_with(&out.bytes) { "truncated" } else { "wrong-bytes" };
                                problems.push((kind.into(), format!("expected {} got {}", hex(data), hex(&out.bytes))));
                            }
                        }
                    }
                    for (k, d) in &out.contract {
                        problems.push((k.to_string(), d.clone()));
                    }
                }
                Expect::Error => {
                    if out.end == End::Eof {
                        problems.push((
                            "no-error-on-bad-length".into(),
                            format!("text of {} characters decoded to {} bytes ({}) without an error", text.len(), out.bytes.len(), hex(&out.bytes)),
                        ));
                    }
                }
                Expect::NoPanic => {}
            }
            (problems, Some(out))
        }
    }
}

fn classify(text: &[u8]) -> (Option<Vec<u8>>, bool) {
    // (canonical payload, bad length)
    match b64::decode(text) {
        Ok(d) if b64::encode(&d) == text => (Some(d), false),
        _ => (None, text.len() % 4 != 0),
    }
}

// ---------------------------------------------------------------------------------------
// exploration
// ---------------------------------------------------------------------------------------

fn content(n: usize) -> Vec<u8> {
    (0..n).map(|i| ((37 * i + 11) & 255) as u8).collect()
}

struct Counters {
    enc_runs: AtomicU64,
    dec_runs: AtomicU64,
}

fn enc_witness(pieces: &[&[u8]], flush: bool, limit: usize) -> Value {
    json!({"op": "encode", "writes": pieces.iter().map(|p| hex(p)).collect::<Vec<_>>(), "flush": flush, "sink_limit": limit})
}

fn dec_witness(text: &[u8], chunks: &[usize], cyclic: bool, dsts: &[usize]) -> Value {
    json!({"op": "decode", "text_hex": hex(text), "text": esc(text), "chunks": chunks, "cyclic": cyclic, "dst": dsts})
}

/// judge one encoder execution against the reference; None = fine
fn encode_check(pieces: &[&[u8]], flush: bool, limit: usize) -> Option<(String, String)> {
    let all: Vec<u8> = pieces.concat();
    let expect = b64::encode(&all);
    match catch(|| encode_run(pieces, flush, limit)) {
        Err(p) => Some((p.key(), format!("panicked: {} ({}:{})", p.message, p.file, p.line))),
        Ok(Err(e)) => Some(("io-error".into(), e)),
        Ok(Ok(got)) => {
            if got == expect {
                None
            } else {
                Some((
                    "wrong-output".into(),
                    format!("expected {:?} got {:?}", String::from_utf8_lossy(&expect), String::from_utf8_lossy(&got)),
                ))
            }
        }
    }
}

const CYCLIC: &[&[usize]] = &[
    &[1], &[2], &[3], &[4], &[5], &[7], &[1, 4], &[4, 1], &[64], &[3, 1], &[1, 3], &[2, 2, 1],
    // schedules with interrupted reads (0)
    &[1, 0], &[2, 0], &[3, 0, 1], &[0, 4], &[1, 0, 0, 1], &[2, 0, 2, 0, 64],
];
/// sink "limit" meaning: the writes are handed to one `write_vectored` call (unlimited sink)
const VECTORED_WRITE: usize = usize::MAX - 1;
/// destination "size" meaning: read everything that is left with `read_to_end`
const REST: usize = usize::MAX;
/// destination "size" meaning: read everything that is left with `read_to_string`
const TO_STRING: usize = usize::MAX - 2;
/// destination "size" meaning: one `read_vectored` call with buffers of 2 and 3 bytes
const VECTORED: usize = usize::MAX - 1;
const DSTS: &[&[usize]] = &[
    &[1], &[2], &[3], &[4], &[5], &[63], &[64], &[65], &[1000], &[0, 3], &[1, 64], &[2, 1000, 1],
    // other methods of `Read`, from the start and after ordinary reads have consumed part of the stream
    &[REST], &[1, REST], &[2, REST], &[3, REST], &[47, REST], &[1, 1, 64, REST], &[VECTORED], &[1, VECTORED], &[VECTORED, REST],
];

pub fn run(ctx: &Ctx) -> Result<Report, String> {
    // reference self-check
    for (d, e) in [("", ""), ("f", "Zg=="), ("fo", "Zm8="), ("foo", "Zm9v"), ("foob", "Zm9vYg=="), ("fooba", "Zm9vYmE="), ("foobar", "Zm9vYmFy")] {
        if b64::encode(d.as_bytes()) != e.as_bytes() || b64::decode(e.as_bytes()).as_deref() != Ok(d.as_bytes()) {
            return Err(format!("reference codec fails RFC 4648 section 10 vector {d:?}"));
        }
    }
    let py = b64::validate_against_cpython()?;

    let viol = Violations::new();
    let samples = Samples::new(ctx.seed);
    let c = Counters { enc_runs: AtomicU64::new(0), dec_runs: AtomicU64::new(0) };
    let outcomes: Mutex<BTreeSet<String>> = Mutex::new(BTreeSet::new());
    let mut sizes = serde_json::Map::new();
    let verbose = std::env::var_os("SNT_VERBOSE").is_some();
    let lap = |what: &str| {
        if verbose {
            eprintln!("[c14] {:>8.2}s {what}", ctx.elapsed());
        }
    };

    // ---- E1: closed graph over the carry state -------------------------------------------
    // state index: 0 = empty, 1..=256 one byte, 257.. two bytes
    let carry_of = |s: usize| -> Vec<u8> {
        if s == 0 {
            vec![]
        } else if s <= 256 {
            vec![(s - 1) as u8]
        } else {
            vec![((s - 257) >> 8) as u8, ((s - 257) & 255) as u8]
        }
    };
    let n_states = 1 + 256 + 65536usize;
    let bfs_transitions = AtomicU64::new(0);
    let successors: Vec<std::sync::atomic::AtomicBool> = (0..n_states).map(|_| std::sync::atomic::AtomicBool::new(false)).collect();
    successors[0].store(true, Ordering::Relaxed); // initial state
    (0..n_states).into_par_iter().for_each(|s| {
        let carry = carry_of(s);
        let mut runs = 0u64;
        for b in 0..=255u8 {
            // reference transition
            let mut m = b64::IncEncoder { carry: carry.clone() };
            m.push(b);
            let succ = match m.carry.len() {
                0 => 0,
                1 => 1 + m.carry[0] as usize,
                _ => 257 + ((m.carry[0] as usize) << 8) + m.carry[1] as usize,
            };
            successors[succ].store(true, Ordering::Relaxed); // panics if the successor is not an enumerated state
            // stale context: a complete group written before, differing from the new bytes in every bit
            let stale = [!carry.first().copied().unwrap_or(b), !carry.get(1).copied().unwrap_or(b), !b];
            for ctxt in 0..2 {
                let one = [b];
                let mut pieces: Vec<&[u8]> = vec![];
                if ctxt == 1 {
                    pieces.push(&stale);
                }
                pieces.push(&carry);
                pieces.push(&one);
                runs += 1;
                if let Some((kind, detail)) = encode_check(&pieces, false, usize::MAX) {
                    viol.add(
                        format!("enc:carry-graph:{kind}"),
                        format!("carry {} + byte {:02x} ({}): {detail}", hex(&carry), b, if ctxt == 1 { "after a full group" } else { "fresh encoder" }),
                        enc_witness(&pieces, false, usize::MAX),
                    );
                }
            }
        }
        bfs_transitions.fetch_add(256, Ordering::Relaxed);
        c.enc_runs.fetch_add(runs, Ordering::Relaxed);
    });
    // finish() in every carry state (state observation)
    (0..n_states).into_par_iter().for_each(|s| {
        let carry = carry_of(s);
        c.enc_runs.fetch_add(1, Ordering::Relaxed);
        if let Some((kind, detail)) = encode_check(&[&carry], false, usize::MAX) {
            viol.add(format!("enc:carry-graph:{kind}"), format!("finish with carry {}: {detail}", hex(&carry)), enc_witness(&[&carry], false, usize::MAX));
        }
    });
    sizes.insert("encoder_carry_states".into(), json!(n_states));
    sizes.insert("encoder_carry_transitions".into(), json!(bfs_transitions.load(Ordering::Relaxed)));
    lap("encoder carry graph");

    // ---- E2: every 3-byte group, alone and followed by tails (every content of the 3-byte buffer)
    let groups_done = AtomicU64::new(0);
    let tail_bytes: u32 = ctx.tier.pick(1, 256);
    (0..(1u32 << 16)).into_par_iter().for_each(|hi| {
        let mut runs = 0u64;
        for lo in 0..=255u32 {
            let g = [(hi >> 8) as u8, hi as u8, lo as u8];
            let t1 = [!g[0]];
            let t2 = [!g[1], g[2] ^ 0x0f];
            let variants: [&[&[u8]]; 4] = [&[&g], &[&g[..1], &g[1..]], &[&g, &t1], &[&g, &t2]];
            for pieces in variants {
                runs += 1;
                if let Some((kind, detail)) = encode_check(pieces, false, usize::MAX) {
                    viol.add(format!("enc:groups:{kind}"), format!("group {} {:?}: {detail}", hex(&g), pieces.len()), enc_witness(pieces, false, usize::MAX));
                }
            }
            if tail_bytes == 256 {
                // thorough: every (stale group, one pending byte) content of the buffer
                let head = b64::encode_group(&g);
                let fast = catch(|| {
                    let mut bad = None;
                    for t in 0..=255u8 {
                        let mut enc = Base64Encoder::new(Sink { out: Vec::with_capacity(8), limit: usize::MAX });
                        let ok = enc.write_all(&g).is_ok() && enc.write_all(&[t]).is_ok();
                        let got = enc.finish().map(|s| s.out).unwrap_or_default();
                        if !ok || got[..got.len().min(4)] != head || got.get(4..) != Some(&b64::encode_group(&[t])[..]) {
                            bad = Some(t);
                            break;
                        }
                    }
                    bad
                });
                runs += 256;
                if !matches!(fast, Ok(None)) {
                    // slow path: find and report the exact case
                    for t in 0..=255u8 {
                        let tt = [t];
                        if let Some((kind, detail)) = encode_check(&[&g, &tt], false, usize::MAX) {
                            viol.add(format!("enc:groups:{kind}"), format!("group {} then {:02x}: {detail}", hex(&g), t), enc_witness(&[&g, &tt], false, usize::MAX));
                        }
                    }
                }
            }
        }
        groups_done.fetch_add(256, Ordering::Relaxed);
        c.enc_runs.fetch_add(runs, Ordering::Relaxed);
    });
    sizes.insert("encoder_groups".into(), json!(groups_done.load(Ordering::Relaxed)));
    sizes.insert("encoder_group_tail_variants".into(), json!(if tail_bytes == 256 { 4 + 256 } else { 4 }));
    lap("encoder groups");

    // ---- E3: partitions into writes -------------------------------------------------------
    let full_part_len: usize = ctx.tier.pick(12, 18);
    let partitions_run = AtomicU64::new(0);
    // (a) all 2^(n-1) partitions
    for n in 0..=full_part_len {
        let data = content(n);
        let masks: u64 = if n == 0 { 1 } else { 1 << (n - 1) };
        (0..masks).into_par_iter().for_each(|mask| {
            let parts = cuts_from_mask(n, mask);
            let pieces = crate::engine::util::split_by(&data, &parts);
            let variants: &[(bool, usize)] = if n <= 10 { &[(false, usize::MAX), (true, usize::MAX), (false, 1), (false, VECTORED_WRITE)] } else { &[(false, usize::MAX), (false, VECTORED_WRITE)] };
            for (flush, limit) in variants {
                partitions_run.fetch_add(1, Ordering::Relaxed);
                if let Some((kind, detail)) = encode_check(&pieces, *flush, *limit) {
                    viol.add(format!("enc:partitions:{kind}"), format!("{n} bytes written as {:?}: {detail}", parts), enc_witness(&pieces, *flush, *limit));
                }
            }
            // one empty write inserted at every position, and everywhere
            if n <= 8 {
                for at in 0..=pieces.len() + 1 {
                    let mut p2: Vec<&[u8]> = pieces.clone();
                    if at <= pieces.len() {
                        p2.insert(at, &[]);
                    } else {
                        p2 = vec![&[]];
                        for p in &pieces {
                            p2.push(p);
                            p2.push(&[]);
                        }
                    }
                    for limit in [usize::MAX, VECTORED_WRITE] {
                        partitions_run.fetch_add(1, Ordering::Relaxed);
                        if let Some((kind, detail)) = encode_check(&p2, false, limit) {
                            viol.add(format!("enc:partitions:{kind}"), format!("{n} bytes written as {:?} with empty writes{}: {detail}", parts, if limit == VECTORED_WRITE { " (one write_vectored call)" } else { "" }), enc_witness(&p2, false, limit));
                        }
                    }
                }
            }
        });
    }
    // (b) <= 2 cuts and all singletons for every length up to 200
    (0..=200usize).into_par_iter().for_each(|n| {
        let data = content(n);
        let mut parts_list = partitions_upto_cuts(n, 2);
        parts_list.push(vec![1; n]);
        for parts in &parts_list {
            let pieces = crate::engine::util::split_by(&data, parts);
            partitions_run.fetch_add(1, Ordering::Relaxed);
            if let Some((kind, detail)) = encode_check(&pieces, false, usize::MAX) {
                viol.add(format!("enc:partitions:{kind}"), format!("{n} bytes written as {:?}: {detail}", parts), enc_witness(&pieces, false, usize::MAX));
            }
        }
    });
    // (c) long single writes: 0..=5 bytes already written (open group of 0, 1 or 2 bytes), then ONE write of L
    //     bytes for L around every power of two up to 64 KiB and around multiples of 768, then 0..=2 more bytes
    let mut ladder: Vec<usize> = vec![];
    for p in [256usize, 512, 768, 1024, 1536, 2048, 2304, 3072, 4096, 8192, 16384, 32768, 65536] {
        for d in [-2i64, -1, 0, 1, 2, 3] {
            ladder.push((p as i64 + d) as usize);
        }
    }
    ladder.sort();
    ladder.dedup();
    let long_runs = AtomicU64::new(0);
    ladder.par_iter().for_each(|l| {
        for head in 0..=5usize {
            for tail in 0..=2usize {
                for head_whole in [true, false] {
                    let data = content(head + l + tail);
                    let mut parts: Vec<usize> = if head_whole && head > 0 { vec![head] } else { vec![1; head] };
                    parts.push(*l);
                    parts.extend(std::iter::repeat(1).take(tail));
                    let pieces = crate::engine::util::split_by(&data, &parts);
                    long_runs.fetch_add(1, Ordering::Relaxed);
                    if let Some((kind, detail)) = encode_check(&pieces, false, usize::MAX) {
                        let short = if detail.len() > 300 { format!("{}...", String::from_utf8_lossy(&detail.as_bytes()[..300])) } else { detail };
                        viol.add(format!("enc:long-write:{kind}"), format!("{} bytes written as {} byte(s), then one write of {l}, then {tail} byte(s): {short}", data.len(), head), enc_witness(&pieces, false, usize::MAX));
                    }
                }
            }
        }
    });
    partitions_run.fetch_add(long_runs.load(Ordering::Relaxed), Ordering::Relaxed);
    sizes.insert("encoder_long_single_writes".into(), json!(long_runs.load(Ordering::Relaxed)));
    c.enc_runs.fetch_add(partitions_run.load(Ordering::Relaxed), Ordering::Relaxed);
    sizes.insert("encoder_write_partitions".into(), json!(partitions_run.load(Ordering::Relaxed)));
    sizes.insert("encoder_all_partitions_up_to_len".into(), json!(full_part_len));
    lap("encoder partitions");

    // ---- D0: payloads that are UTF-8 text, read with `read_to_string` (from the start and after one small read);
    // multi-byte characters at every offset modulo the decoder's internal buffer
    let d0 = AtomicU64::new(0);
    (0..=260usize).into_par_iter().for_each(|n| {
        for phase in 0..4usize {
            let pattern = ['a', '\u{e9}', '\u{20ac}', '\u{1f600}', 'b', '\u{44f}'];
            let mut s = String::new();
            let mut k = phase;
            while s.len() < n {
                s.push(pattern[k % pattern.len()]);
                k += 1;
            }
            let data = s.as_bytes();
            let text = b64::encode(data);
            for chunks in [&[64usize][..], &[1], &[3, 0, 1]] {
                for dsts in [&[TO_STRING][..], &[1, TO_STRING], &[5, TO_STRING]] {
                    // the small read may end inside a character: what is left is then not valid UTF-8 on its own
                    let lead: usize = dsts[..dsts.len() - 1].iter().sum();
                    if lead > 0 && (lead >= data.len() || !s.is_char_boundary(lead)) {
                        continue;
                    }
                    d0.fetch_add(1, Ordering::Relaxed);
                    let (problems, _) = decode_check(&text, chunks, true, dsts, Expect::Bytes(data));
                    for (kind, detail) in problems {
                        viol.add(
                            format!("dec:text:{kind}"),
                            format!("{} bytes of UTF-8 text, reader chunks {:?} (cyclic), destination {:?} (the last one = read_to_string): {detail}", data.len(), chunks, dsts),
                            dec_witness(&text, chunks, true, dsts),
                        );
                    }
                }
            }
        }
    });
    c.dec_runs.fetch_add(d0.load(Ordering::Relaxed), Ordering::Relaxed);
    sizes.insert("decoder_text_payloads_read_to_string".into(), json!(d0.load(Ordering::Relaxed)));

    // ---- D1: valid encodings, cyclic schedules x destination sizes -------------------------
    let d1 = AtomicU64::new(0);
    (0..=200usize).into_par_iter().for_each(|n| {
        let data = content(n);
        let text = b64::encode(&data);
        for chunks in CYCLIC {
            for dsts in DSTS {
                d1.fetch_add(1, Ordering::Relaxed);
                let (problems, _) = decode_check(&text, chunks, true, dsts, Expect::Bytes(&data));
                for (kind, detail) in problems {
                    viol.add(
                        format!("dec:valid-cyclic:{kind}"),
                        format!("{n} bytes, reader chunks {:?} (cyclic), destination {:?}: {detail}", chunks, dsts),
                        dec_witness(&text, chunks, true, dsts),
                    );
                }
            }
        }
        // round trip through the real encoder (one byte per write) and the real decoder (one byte per read)
        let singles: Vec<&[u8]> = data.chunks(1).collect();
        if let Ok(Ok(real_text)) = catch(|| encode_run(&singles, false, usize::MAX)) {
            d1.fetch_add(1, Ordering::Relaxed);
            let (problems, _) = decode_check(&real_text, &[1], true, &[1], Expect::Bytes(&data));
            for (kind, detail) in problems {
                viol.add(format!("dec:roundtrip:{kind}"), format!("{n} bytes through real encoder and decoder one byte at a time: {detail}"), dec_witness(&real_text, &[1], true, &[1]));
            }
        }
    });
    sizes.insert("decoder_valid_cyclic_runs".into(), json!(d1.load(Ordering::Relaxed)));
    lap("decoder cyclic");

    // ---- D2: valid encodings, every composition of the text into reader chunks --------------
    let comp_chars: usize = ctx.tier.pick(16, 24);
    let d2 = AtomicU64::new(0);
    let comp_dsts: &[&[usize]] = &[&[1], &[2], &[3], &[4], &[5], &[64], &[1000], &[0, 3]];
    for n in 0..=(comp_chars / 4 * 3) {
        let data = content(n);
        let text = b64::encode(&data);
        let l = text.len();
        let masks: u64 = if l == 0 { 1 } else { 1 << (l - 1) };
        (0..masks).into_par_iter().for_each(|mask| {
            let chunks = cuts_from_mask(l, mask);
            let dsts: &[&[usize]] = if l <= 16 { comp_dsts } else { &comp_dsts[..1] };
            for dst in dsts {
                d2.fetch_add(1, Ordering::Relaxed);
                let (problems, _) = decode_check(&text, &chunks, false, dst, Expect::Bytes(&data));
                for (kind, detail) in problems {
                    viol.add(
                        format!("dec:valid-compositions:{kind}"),
                        format!("{n} bytes, reader chunks {:?}, destination {:?}: {detail}", chunks, dst),
                        dec_witness(&text, &chunks, false, dst),
                    );
                }
            }
        });
    }
    sizes.insert("decoder_valid_composition_runs".into(), json!(d2.load(Ordering::Relaxed)));
    sizes.insert("decoder_all_compositions_up_to_chars".into(), json!(comp_chars));
    lap("decoder compositions");

    // ---- D3: every group of four characters (= encodings of all 3-, 2- and 1-byte groups) ----
    let d3 = AtomicU64::new(0);
    let group_scheds: &[&[usize]] = ctx.tier.pick(&[&[64]], &[&[64], &[1], &[2], &[3]]);
    (0..(1u32 << 16)).into_par_iter().for_each(|hi| {
        let mut runs = 0u64;
        for lo in 0..=255u32 {
            let g = [(hi >> 8) as u8, hi as u8, lo as u8];
            let text = b64::encode_group(&g);
            for chunks in group_scheds {
                runs += 1;
                let (problems, _) = decode_check(&text, chunks, true, &[3], Expect::Bytes(&g));
                for (kind, detail) in problems {
                    viol.add(format!("dec:groups:{kind}"), format!("group {:?} chunks {:?}: {detail}", String::from_utf8_lossy(&text), chunks), dec_witness(&text, chunks, true, &[3]));
                }
            }
        }
        // tails: two-byte groups for this `hi`, one-byte groups once
        let g2 = [(hi >> 8) as u8, hi as u8];
        let mut tails: Vec<Vec<u8>> = vec![g2.to_vec()];
        if hi < 256 {
            tails.push(vec![hi as u8]);
        }
        for t in tails {
            let text = b64::encode_group(&t);
            for chunks in [&[64usize][..], &[1], &[3]] {
                runs += 1;
                let (problems, _) = decode_check(&text, chunks, true, &[2], Expect::Bytes(&t));
                for (kind, detail) in problems {
                    viol.add(format!("dec:groups:{kind}"), format!("padded group {:?} chunks {:?}: {detail}", String::from_utf8_lossy(&text), chunks), dec_witness(&text, chunks, true, &[2]));
                }
            }
        }
        d3.fetch_add(runs, Ordering::Relaxed);
    });
    sizes.insert("decoder_group_runs".into(), json!(d3.load(Ordering::Relaxed)));
    lap("decoder groups");

    // ---- D1b: long valid encodings through large reads into large destinations -----------------
    let d1b = AtomicU64::new(0);
    let long_lens: Vec<usize> = [255usize, 256, 257, 1023, 1024, 1025, 4095, 4096, 4097, 49_151, 49_152, 49_153, 65_535, 65_536, 65_537].to_vec();
    let big_chunks: &[&[usize]] = &[&[1], &[63], &[64], &[1000], &[4096], &[100_000]];
    let big_dsts: &[&[usize]] = &[&[3], &[64], &[1000], &[4096], &[100_000], &[REST], &[5, REST], &[5000, REST]];
    long_lens.par_iter().for_each(|n| {
        let data = content(*n);
        let text = b64::encode(&data);
        for chunks in big_chunks {
            for dsts in big_dsts {
                if chunks[0] == 1 && dsts[0] == 3 && *n > 5000 {
                    continue;
                }
                d1b.fetch_add(1, Ordering::Relaxed);
                let (problems, _) = decode_check(&text, chunks, true, dsts, Expect::Bytes(&data));
                for (kind, detail) in problems {
                    let short = if detail.len() > 300 { format!("{}...", String::from_utf8_lossy(&detail.as_bytes()[..300])) } else { detail };
                    viol.add(
                        format!("dec:valid-long:{kind}"),
                        format!("{n} bytes, reader chunks {:?} (cyclic), destination {:?}: {short}", chunks, dsts),
                        dec_witness(&text, chunks, true, dsts),
                    );
                }
            }
        }
    });
    c.dec_runs.fetch_add(d1b.load(Ordering::Relaxed), Ordering::Relaxed);
    sizes.insert("decoder_long_runs".into(), json!(d1b.load(Ordering::Relaxed)));

    // ---- D4: length not a multiple of four must be an error ---------------------------------
    let d4 = AtomicU64::new(0);
    let mal_dsts: &[&[usize]] = &[&[1], &[3], &[64], &[1000], &[REST], &[2, REST]];
    (0..=200usize).into_par_iter().for_each(|n| {
        let data = content(n);
        let full = b64::encode(&data);
        let mut texts: Vec<Vec<u8>> = vec![];
        for cut in 1..=3 {
            if full.len() >= cut {
                texts.push(full[..full.len() - cut].to_vec());
            }
        }
        for extra in [&b"A"[..], b"AB", b"ABC", b"=", b"A=", b"A=="] {
            let mut t = full.clone();
            t.extend_from_slice(extra);
            texts.push(t);
        }
        for text in &texts {
            debug_assert!(text.len() % 4 != 0);
            for chunks in CYCLIC {
                for dsts in mal_dsts {
                    d4.fetch_add(1, Ordering::Relaxed);
                    let (problems, out) = decode_check(text, chunks, true, dsts, Expect::Error);
                    if let Some(o) = &out {
                        if let End::Error(e) = &o.end {
                            let mut g = outcomes.lock().unwrap();
                            if g.len() < 16 {
                                g.insert(format!("error: {e}"));
                            }
                        }
                    }
                    for (kind, detail) in problems {
                        viol.add(
                            format!("dec:bad-length:{kind}"),
                            format!("text of {} characters, reader chunks {:?} (cyclic), destination {:?}: {detail}", text.len(), chunks, dsts),
                            dec_witness(text, chunks, true, dsts),
                        );
                    }
                }
            }
        }
    });
    // every composition for short bad lengths
    for l in (1..=11usize).filter(|l| l % 4 != 0) {
        let text: Vec<u8> = b64::encode(&content(9))[..l].to_vec();
        (0..(1u64 << (l - 1))).into_par_iter().for_each(|mask| {
            let chunks = cuts_from_mask(l, mask);
            for dsts in mal_dsts {
                d4.fetch_add(1, Ordering::Relaxed);
                let (problems, _) = decode_check(&text, &chunks, false, dsts, Expect::Error);
                for (kind, detail) in problems {
                    viol.add(
                        format!("dec:bad-length:{kind}"),
                        format!("text of {l} characters, reader chunks {:?}, destination {:?}: {detail}", chunks, dsts),
                        dec_witness(&text, &chunks, false, dsts),
                    );
                }
            }
        });
    }
    sizes.insert("decoder_bad_length_runs".into(), json!(d4.load(Ordering::Relaxed)));
    lap("decoder bad length");

    // ---- D5: arbitrary bytes never panic -----------------------------------------------------
    let d5 = AtomicU64::new(0);
    let d5_ok = AtomicU64::new(0);
    let d5_err = AtomicU64::new(0);
    let garbage_scheds: &[(&[usize], &[usize])] = &[(&[64], &[1000]), (&[1], &[1]), (&[3], &[2]), (&[2], &[1000])];
    let garbage = |text: &[u8]| {
        for (chunks, dsts) in garbage_scheds {
            d5.fetch_add(1, Ordering::Relaxed);
            let (problems, out) = decode_check(text, chunks, true, dsts, Expect::NoPanic);
            match out.map(|o| o.end) {
                Some(End::Eof) => {
                    d5_ok.fetch_add(1, Ordering::Relaxed);
                }
                Some(End::Error(_)) => {
                    d5_err.fetch_add(1, Ordering::Relaxed);
                }
                None => {}
            }
            for (kind, detail) in problems {
                viol.add(format!("dec:garbage:{kind}"), format!("input {:?} chunks {:?}: {detail}", esc(text), chunks), dec_witness(text, chunks, true, dsts));
            }
        }
    };
    (0..=255u8).into_par_iter().for_each(|a| {
        garbage(&[a]);
        for b in 0..=255u8 {
            garbage(&[a, b]);
        }
        // every byte value in every position of two groups
        for pos in 0..8 {
            let mut t = *b"QUJDREVG";
            t[pos] = a;
            garbage(&t);
            let mut t = *b"QUJDRA==";
            t[pos] = a;
            garbage(&t);
        }
    });
    let sym: [u8; 20] = [b'A', b'Z', b'a', b'z', b'0', b'9', b'+', b'/', b'=', 0x00, 0xff, b'-', b'_', b' ', b'\n', b'\r', 0x7f, 0x80, b'@', b'.'];
    (0..20usize.pow(4)).into_par_iter().for_each(|i| {
        let t = [sym[i % 20], sym[i / 20 % 20], sym[i / 400 % 20], sym[i / 8000 % 20]];
        garbage(&t);
    });
    let sym8: [u8; 4] = [b'A', b'/', b'=', 0xff];
    (0..4usize.pow(8)).into_par_iter().for_each(|i| {
        let mut t = [0u8; 8];
        let mut k = i;
        for x in t.iter_mut() {
            *x = sym8[k % 4];
            k /= 4;
        }
        garbage(&t);
    });
    // sequences of groups that decode to 1, 2 or 3 bytes ("AA==", "AAA=", "AAAA", padding in the
    // middle is garbage, not an encoding): k groups of one kind, then 1..=3 of another, which
    // presents every fill level of the decoder's 64-byte buffer with every group size
    let kinds: [&[u8; 4]; 3] = [b"QQ==", b"QUI=", b"QUJD"];
    (0..=70usize).into_par_iter().for_each(|k| {
        for x in kinds {
            for y in kinds {
                for m in 1..=3 {
                    let mut t: Vec<u8> = Vec::with_capacity(4 * (k + m));
                    for _ in 0..k {
                        t.extend_from_slice(x);
                    }
                    for _ in 0..m {
                        t.extend_from_slice(y);
                    }
                    garbage(&t);
                    for dst in [&[1usize][..], &[63], &[64], &[65]] {
                        d5.fetch_add(1, Ordering::Relaxed);
                        let (problems, _) = decode_check(&t, &[64], true, dst, Expect::NoPanic);
                        for (kind, detail) in problems {
                            viol.add(format!("dec:garbage:{kind}"), format!("input {:?} destination {:?}: {detail}", esc(&t), dst), dec_witness(&t, &[64], true, dst));
                        }
                    }
                }
            }
        }
    });
    sizes.insert("decoder_garbage_runs".into(), json!(d5.load(Ordering::Relaxed)));
    sizes.insert("decoder_garbage_outcomes".into(), json!({"ok": d5_ok.load(Ordering::Relaxed), "error": d5_err.load(Ordering::Relaxed)}));
    lap("decoder garbage");

    c.dec_runs.fetch_add(
        d1.load(Ordering::Relaxed) + d2.load(Ordering::Relaxed) + d3.load(Ordering::Relaxed) + d4.load(Ordering::Relaxed) + d5.load(Ordering::Relaxed),
        Ordering::Relaxed,
    );

    // a few concrete cases for the evidence
    for n in [1usize, 2, 49 + (ctx.seed % 3) as usize] {
        let data = content(n);
        let pieces: Vec<&[u8]> = data.chunks(2).collect();
        let got = encode_run(&pieces, false, usize::MAX).unwrap_or_default();
        samples.force(json!({"sub": "encode", "data": hex(&data), "writes_of": 2, "library": String::from_utf8_lossy(&got), "rfc4648": String::from_utf8_lossy(&b64::encode(&data))}));
    }
    for (n, chunks, dsts) in [(5usize, &[1usize][..], &[1usize][..]), (50 + (ctx.seed % 3) as usize, &[1, 4], &[5])] {
        let data = content(n);
        let text = b64::encode(&data);
        let o = decode_run(&text, chunks, true, dsts);
        samples.force(json!({"sub": "decode", "text": String::from_utf8_lossy(&text), "chunks": chunks, "dst": dsts, "library": hex(&o.bytes), "expected": hex(&data), "end": format!("{:?}", o.end)}));
    }
    for text in [&b"QUJDRA"[..], b"QUJDRA=", b"\xff=\x00A"] {
        let o = decode_run(text, &[3], true, &[2]);
        samples.force(json!({"sub": "decode-malformed", "text": esc(text), "chunks": [3], "dst": [2], "library": hex(&o.bytes), "end": format!("{:?}", o.end)}));
    }

    let succ = successors.iter().filter(|b| b.load(Ordering::Relaxed)).count();
    let mut r = Report::new("model_checking");
    r.set("states", n_states as u64)
        .set("transitions", bfs_transitions.load(Ordering::Relaxed))
        .set("traces_validated_against_impl", c.enc_runs.load(Ordering::Relaxed) + c.dec_runs.load(Ordering::Relaxed))
        .set("encoder_executions", c.enc_runs.load(Ordering::Relaxed))
        .set("decoder_executions", c.dec_runs.load(Ordering::Relaxed))
        .set("exhaustive", true)
        .set("capped", false)
        .set("fixpoint", true)
        .set("carry_graph_states_reached_as_successor_or_initial", succ)
        .set("sub_spaces", Value::Object(sizes))
        .set("lengths", "0..=200, content i -> 37*i+11 mod 256")
        .set("reader_cyclic_schedules", json!(CYCLIC))
        .set("destination_sizes", json!(DSTS))
        .set("distinct_error_messages_on_bad_length", json!(outcomes.lock().unwrap().iter().cloned().collect::<Vec<_>>()))
        .set("reference_validation", format!("RFC 4648 section 10 vectors; {py} strings compared with CPython base64"))
        .set("samples", samples.into_vec())
        .set("raw_violations", viol.raw_count());
    r.assume("the encoder's behaviour depends only on the bytes written since the last complete group (carry) and possibly on the stale content of its 3-byte buffer; the graph over carry states is closed under that abstraction, the stale dimension is covered by the all-groups sweep (every stale group x tails) and the second context of every transition");
    r.assume("a reader is modelled as a source that delivers the text in chunks and reports the end only at the end; errors and Interrupted from the underlying reader are outside the statement");
    r.assume("for compositions the reader offers chunks larger than the decoder asks for as several reads, so distinct compositions may induce the same sequence of read results");
    if ctx.tier == Tier::Thorough {
        r.set("tier_note", "thorough: all partitions up to 18 bytes, all compositions up to 24 characters, every (group, one-byte tail) buffer content, groups under 1/2/3-byte readers");
    }
    r.violations = viol.into_vec();
    Ok(r)
}

pub fn replay(w: &Value) -> Result<(bool, String), String> {
    match w.get("op").and_then(|x| x.as_str()) {
        Some("encode") => {
            let writes: Vec<Vec<u8>> = w["writes"].as_array().ok_or("writes")?.iter().map(|x| unhex(x.as_str().unwrap_or(""))).collect();
            let pieces: Vec<&[u8]> = writes.iter().map(|v| &v[..]).collect();
            let flush = w["flush"].as_bool().unwrap_or(false);
            let limit = w["sink_limit"].as_u64().map(|x| x as usize).unwrap_or(usize::MAX);
            let all = pieces.concat();
            let head = format!(
                "encode {} bytes ({}) in writes {:?}, flush={flush}, sink accepts {} bytes per call; RFC 4648 text: {:?}",
                all.len(),
                hex(&all),
                writes.iter().map(|v| v.len()).collect::<Vec<_>>(),
                if limit == usize::MAX { "all".to_string() } else if limit == VECTORED_WRITE { "all (the writes are one write_vectored call)".to_string() } else { limit.to_string() },
                String::from_utf8_lossy(&b64::encode(&all))
            );
            Ok(match encode_check(&pieces, flush, limit) {
                Some((kind, detail)) => (true, format!("{head}: {detail} [{kind}]")),
                None => (false, format!("{head}: library agrees")),
            })
        }
        Some("decode") => {
            let text = unhex(w["text_hex"].as_str().ok_or("text_hex")?);
            let list = |k: &str| -> Result<Vec<usize>, String> {
                Ok(w[k].as_array().ok_or(k.to_string())?.iter().map(|x| x.as_u64().unwrap_or(1) as usize).collect())
            };
            let chunks = list("chunks")?;
            let dsts = list("dst")?;
            if dsts.is_empty() || dsts.iter().all(|d| *d == 0) {
                return Err("destination sizes must contain a positive size".into());
            }
            let cyclic = w["cyclic"].as_bool().unwrap_or(false);
            let (payload, bad_len) = classify(&text);
            let expect = match (&payload, bad_len) {
                (Some(d), _) => Expect::Bytes(d),
                (None, true) => Expect::Error,
                _ => Expect::NoPanic,
            };
            let head = format!(
                "decode {:?} ({} characters) through a reader delivering chunks {:?}{} into buffers of {:?}; expected: {}",
                esc(&text),
                text.len(),
                chunks,
                if cyclic { " (cyclic)" } else { "" },
                dsts,
                match &expect {
                    Expect::Bytes(d) => format!("bytes {}", hex(d)),
                    Expect::Error => "an error (length is not a multiple of four)".into(),
                    Expect::NoPanic => "no panic".into(),
                }
            );
            let (problems, out) = decode_check(&text, &chunks, cyclic, &dsts, expect);
            let observed = match &out {
                Some(o) => format!("observed: bytes {} then {:?}", hex(&o.bytes), o.end),
                None => "observed: panic".into(),
            };
            if problems.is_empty() {
                Ok((false, format!("{head}; {observed}: library agrees")))
            } else {
                Ok((true, format!("{head}; {observed}: {}", problems.iter().map(|(k, d)| format!("{d} [{k}]")).collect::<Vec<_>>().join("; "))))
            }
        }
        _ => Err("witness needs op = encode | decode".into()),
    }
}
