//! C18 -- key-chord maps behave as a last-writer-wins, prefix-free dictionary of chords.
//!
//! Four exhaustively enumerated spaces, all on the real `surf_n_term::keys` code:
//!
//! 1. *Registration histories* (explicit-state BFS, `engine::bfs`): operations = `register` of
//!    every chord of length 1..=3 over a key alphabet, value = position in the history. The
//!    real `KeyMap` is rebuilt by replaying the history; the state key is observational
//!    (`for_each` listing + `lookup` of every chord of length <= 4 over the alphabet). In every
//!    state: all lookups, the enumeration and `register`'s return value are compared with the
//!    flat dictionary model (`model::keymap::Dict`).
//! 2. *Override merging*: `m1.register_override(&m2)` for all ordered pairs of small maps equals
//!    registering m2's bindings on top of m1 in the model.
//! 3. *Stateful matcher*: every key string of length <= 6 over {a, b, c, x} fed to a fresh
//!    `KeyMapHandler` (and to `KeyMap::lookup_state`) for every prefix-free map of up to N chords,
//!    against exactly the two rules of the statement (`model::keymap::matcher_demands`) plus
//!    soundness of every answer.
//! 4. *Parsers*: all strings of up to k tokens over a 24-token alphabet, `f` + 1..=30 digits,
//!    every key name x modifier set printed and re-parsed, as `Key`, `KeyName`, `KeyChord`:
//!    never panics; accepted => parse(print(v)) == v.
use crate::engine::bfs;
use crate::engine::catch;
use crate::engine::report::{Ctx, Report, Samples, Tier, Violations};
use crate::engine::util::{hash128, hash64};
use crate::model::keymap::{matcher_demands, sound, Dict, Displaced, Expect, Lookup};
use rayon::prelude::*;
use serde_json::{json, Value};
use std::collections::{BTreeMap, BTreeSet, HashSet};
use std::fmt::{Debug, Display};
use std::str::FromStr;
use std::sync::atomic::{AtomicU64, Ordering};
use surf_n_term::keys::KeyMapResult;
use surf_n_term::{Key, KeyChord, KeyMap, KeyMapHandler, KeyMod, KeyName};

// ---------------------------------------------------------------------------------------------
// key alphabet (the model works on indices into this table)

const NAMES: [&str; 10] = ["a", "b", "^c", "c", "x", "F1", "F(1+2^32)", "Tab", "Char(tab)", "numlock+a"];
/// a key and the same key with a lock modifier (different values), and a third key
const A5: [u8; 3] = [0, 9, 1];

/// The "skin" of the key table: which real keys the indices 0 (a), 1 (b), 3 (c), 4 (x) stand for. Skin 0 = plain
/// characters; skin 1 = pointer motion, a character, the named Tab key and a mouse button (a matcher must not care
/// what kind of key it is given). Set once per pass, before the parallel sweep starts.
static SKIN: AtomicU64 = AtomicU64::new(0);
/// keys that are different values but easy to confuse: function keys 2^32 apart, the named Tab key and the
/// tab character
const A4: [u8; 4] = [5, 6, 7, 8];
/// BFS alphabets
const A3: [u8; 3] = [0, 1, 2];
const A2: [u8; 2] = [0, 1];
/// matcher: chords over {a, b, c}, typed keys over {a, b, c, x}
const HANDLER_CHORD_KEYS: [u8; 3] = [0, 1, 3];
const HANDLER_TYPED_KEYS: [u8; 4] = [0, 1, 3, 4];

fn key(i: u8) -> Key {
    if SKIN.load(Ordering::Relaxed) == 1 {
        match i {
            0 => return Key::new(KeyName::MouseMove, KeyMod::EMPTY),
            3 => return Key::new(KeyName::Tab, KeyMod::EMPTY),
            4 => return Key::new(KeyName::MouseLeft, KeyMod::PRESS),
            _ => {}
        }
    }
    match i {
        0 => Key::new(KeyName::Char('a'), KeyMod::EMPTY),
        1 => Key::new(KeyName::Char('b'), KeyMod::EMPTY),
        2 => Key::new(KeyName::Char('c'), KeyMod::CTRL),
        3 => Key::new(KeyName::Char('c'), KeyMod::EMPTY),
        5 => Key::new(KeyName::F(1), KeyMod::EMPTY),
        6 => Key::new(KeyName::F(1 + (1usize << 32)), KeyMod::EMPTY),
        7 => Key::new(KeyName::Tab, KeyMod::EMPTY),
        8 => Key::new(KeyName::Char('\t'), KeyMod::EMPTY),
        9 => Key::new(KeyName::Char('a'), KeyMod::NUMLOCK),
        _ => Key::new(KeyName::Char('x'), KeyMod::EMPTY),
    }
}

fn index_of(k: &Key) -> u8 {
    (0..NAMES.len() as u8).find(|i| key(*i) == *k).unwrap_or(255)
}

fn keys_of(chord: &[u8]) -> Vec<Key> {
    chord.iter().map(|i| key(*i)).collect()
}

fn show(chord: &[u8]) -> String {
    chord
        .iter()
        .map(|i| NAMES.get(*i as usize).copied().unwrap_or("?"))
        .collect::<Vec<_>>()
        .join(" ")
}

fn unshow(s: &str) -> Result<Vec<u8>, String> {
    s.split(' ')
        .filter(|t| !t.is_empty())
        .map(|t| NAMES.iter().position(|n| *n == t).map(|p| p as u8).ok_or(format!("unknown key {t:?}")))
        .collect()
}

/// all chords over `alpha` with length in min..=max, shorter first, then lexicographic
fn chords(alpha: &[u8], min: usize, max: usize) -> Vec<Vec<u8>> {
    let mut out = vec![];
    let mut level: Vec<Vec<u8>> = vec![vec![]];
    for len in 1..=max {
        let mut next = vec![];
        for c in &level {
            for k in alpha {
                let mut n = c.clone();
                n.push(*k);
                next.push(n);
            }
        }
        if len >= min {
            out.extend(next.iter().cloned());
        }
        level = next;
    }
    out
}

// ---------------------------------------------------------------------------------------------
// observation of a map (real and model) and comparison

#[derive(Debug, Clone, PartialEq, Eq, Hash)]
struct Obs {
    listing: Vec<(Vec<u8>, usize)>,
    lookups: Vec<Lookup<usize>>,
}

/// the chords every state is probed with, as model indices and as real keys
struct Probes {
    idx: Vec<Vec<u8>>,
    keys: Vec<Vec<Key>>,
}

impl Probes {
    fn new(alpha: &[u8]) -> Self {
        let idx = chords(alpha, 1, 4);
        let keys = idx.iter().map(|c| keys_of(c)).collect();
        Self { idx, keys }
    }
}

fn real_lookup(map: &KeyMap<usize>, chord: &[Key]) -> Lookup<usize> {
    match map.lookup(chord) {
        KeyMapResult::Success(v) => Lookup::Success(*v),
        KeyMapResult::Continue => Lookup::Continue,
        KeyMapResult::Failure => Lookup::Failure,
    }
}

fn real_listing(map: &KeyMap<usize>) -> Vec<(Vec<u8>, usize)> {
    let mut listing = vec![];
    map.for_each(|chord, v| listing.push((chord.iter().map(index_of).collect::<Vec<u8>>(), *v)));
    listing
}

fn observe_real(map: &KeyMap<usize>, probes: &Probes) -> Obs {
    Obs { listing: real_listing(map), lookups: probes.keys.iter().map(|p| real_lookup(map, p)).collect() }
}

fn observe_model(d: &Dict<u8, usize>, probes: &Probes) -> Obs {
    Obs { listing: d.list(), lookups: probes.idx.iter().map(|p| d.lookup(p)).collect() }
}

fn show_listing(l: &[(Vec<u8>, usize)]) -> String {
    let v: Vec<String> = l.iter().map(|(c, v)| format!("{}={}", show(c), v)).collect();
    format!("{{{}}}", v.join(", "))
}

/// (finding-key suffix, detail) of the first disagreement
fn compare(real: &Obs, model: &Obs, probes: &Probes) -> Option<(String, String)> {
    for ((p, r), m) in probes.idx.iter().zip(&real.lookups).zip(&model.lookups) {
        if r != m {
            let kind = if r.kind() == m.kind() { "success-with-other-value".to_string() } else { r.kind().to_string() };
            return Some((
                format!("lookup:{}->{}", m.kind(), kind),
                format!("lookup({}) expected {:?}, library gives {:?}; bound chords (model) {}", show(p), m, r, show_listing(&model.listing)),
            ));
        }
    }
    // enumeration: exactly the bound chords (order is not part of the statement)
    let mut sorted = real.listing.clone();
    sorted.sort();
    if sorted != model.listing {
        let rs: BTreeSet<_> = sorted.iter().cloned().collect();
        let ms: BTreeSet<_> = model.listing.iter().cloned().collect();
        let kind = if rs.len() != sorted.len() {
            "duplicate"
        } else if ms.difference(&rs).next().is_some() && rs.difference(&ms).next().is_none() {
            "missing"
        } else if rs.difference(&ms).next().is_some() && ms.difference(&rs).next().is_none() {
            "extra"
        } else {
            "different"
        };
        return Some((
            format!("for_each:{kind}"),
            format!("for_each lists {}, bound chords are {}", show_listing(&real.listing), show_listing(&model.listing)),
        ));
    }
    None
}

fn displaced_name<K, V>(d: &Displaced<K, V>) -> &'static str {
    match d {
        Displaced::Nothing => "nothing",
        Displaced::Value(_) => "value",
        Displaced::Extensions(_) => "sub-map",
    }
}

fn real_displaced(r: Option<Result<usize, KeyMap<usize>>>) -> Displaced<u8, usize> {
    match r {
        None => Displaced::Nothing,
        Some(Ok(v)) => Displaced::Value(v),
        Some(Err(sub)) => Displaced::Extensions(real_listing(&sub).into_iter().collect::<BTreeMap<_, _>>()),
    }
}

#[derive(Default)]
struct MapCounters {
    lookups_success: AtomicU64,
    lookups_continue: AtomicU64,
    lookups_failure: AtomicU64,
    ret_nothing: AtomicU64,
    ret_value: AtomicU64,
    ret_submap: AtomicU64,
    superseding_registrations: AtomicU64,
}

/// Replay a registration history (values = `offset` + position) on the real map and the model,
/// comparing `register`'s return value (all steps or the last one only) and, at the end (or
/// after every step), the complete observation. Returns the real observation.
fn run_history(
    probes: &Probes,
    hist: &[Vec<u8>],
    every_step: bool,
    counters: Option<&MapCounters>,
) -> Result<Obs, (String, String)> {
    let mut real: KeyMap<usize> = KeyMap::new();
    let mut model: Dict<u8, usize> = Dict::new();
    for (i, chord) in hist.iter().enumerate() {
        let before = model.len();
        let r = real_displaced(real.register(keys_of(chord), i));
        let m = model.register(chord, i);
        let last = i + 1 == hist.len();
        if every_step || last {
            if let Some(c) = counters {
                match &m {
                    Displaced::Nothing => &c.ret_nothing,
                    Displaced::Value(_) => &c.ret_value,
                    Displaced::Extensions(_) => &c.ret_submap,
                }
                .fetch_add(1, Ordering::Relaxed);
                // a registration that removed at least one *other* chord
                let removed_others = before + 1 - usize::from(matches!(m, Displaced::Value(_))) - model.len();
                if removed_others > 0 {
                    c.superseding_registrations.fetch_add(1, Ordering::Relaxed);
                }
            }
            if r != m {
                return Err((
                    format!("register-return:{}->{}", displaced_name(&m), displaced_name(&r)),
                    format!(
                        "step {}: register({}, {}) should return {:?} (documented: previous value or sub-map at this chord), library returned {:?}",
                        i, show(chord), i, m, r
                    ),
                ));
            }
        }
        if every_step && !last {
            let ro = observe_real(&real, probes);
            let mo = observe_model(&model, probes);
            if let Some((k, d)) = compare(&ro, &mo, probes) {
                return Err((k, format!("after step {} register({}): {}", i, show(chord), d)));
            }
        }
    }
    debug_assert!(model.prefix_free());
    let ro = observe_real(&real, probes);
    let mo = observe_model(&model, probes);
    if let Some(c) = counters {
        for l in &mo.lookups {
            match l {
                Lookup::Success(_) => &c.lookups_success,
                Lookup::Continue => &c.lookups_continue,
                Lookup::Failure => &c.lookups_failure,
            }
            .fetch_add(1, Ordering::Relaxed);
        }
    }
    match compare(&ro, &mo, probes) {
        Some((k, d)) => Err((k, format!("after {}: {}", hist.iter().map(|c| format!("register({})", show(c))).collect::<Vec<_>>().join(", "), d))),
        None => Ok(ro),
    }
}

fn history_witness(alpha: &[u8], hist: &[Vec<u8>]) -> Value {
    json!({"kind": "history", "alphabet": show(alpha), "ops": hist.iter().map(|c| show(c)).collect::<Vec<_>>()})
}

fn run_bfs(
    ctx: &Ctx,
    alpha: &[u8],
    depth: usize,
    viol: &Violations,
    samples: &Samples,
    counters: &MapCounters,
) -> bfs::BfsStats {
    let ops = chords(alpha, 1, 3);
    let probes = Probes::new(alpha);
    bfs::bfs(ctx, &ops, depth, |hist: &[Vec<u8>]| {
        match catch(|| run_history(&probes, hist, false, Some(counters))) {
            Err(p) => {
                viol.add(format!("map:{}", p.key()), format!("panicked: {} ({}:{})", p.message, p.file, p.line), history_witness(alpha, hist));
                None
            }
            Ok(Err((k, d))) => {
                viol.add(format!("map:{k}"), d, history_witness(alpha, hist));
                None
            }
            Ok(Ok(obs)) => {
                samples.offer(hash64(&(alpha, hist)), || {
                    json!({"space": "history", "ops": hist.iter().map(|c| show(c)).collect::<Vec<_>>(), "for_each": show_listing(&obs.listing)})
                });
                Some(hash128(&obs))
            }
        }
    })
}

// ---------------------------------------------------------------------------------------------
// override merging

fn build(hist: &[Vec<u8>], offset: usize) -> (KeyMap<usize>, Dict<u8, usize>) {
    let mut real = KeyMap::new();
    let mut model = Dict::new();
    for (i, c) in hist.iter().enumerate() {
        real.register(keys_of(c), offset + i);
        model.register(c, offset + i);
    }
    (real, model)
}

/// all histories of depth <= `depth` over the chords of `alpha`, one per distinct resulting map
fn small_maps(alpha: &[u8], depth: usize, seen: &mut HashSet<Vec<(Vec<u8>, usize)>>, out: &mut Vec<Vec<Vec<u8>>>) {
    let ops = chords(alpha, 1, 3);
    let mut level: Vec<Vec<Vec<u8>>> = vec![vec![]];
    for d in 0..=depth {
        let mut next = vec![];
        for h in &level {
            let (_, m) = build(h, 0);
            if seen.insert(m.list()) {
                out.push(h.clone());
            }
            if d < depth {
                for op in &ops {
                    let mut n = h.clone();
                    n.push(op.clone());
                    next.push(n);
                }
            }
        }
        level = next;
    }
}

type Built = (KeyMap<usize>, Dict<u8, usize>);

/// `b1` is m1 (values 0..), `b2` is m2 (values 100..)
fn check_override(probes: &Probes, b1: &Built, b2: &Built) -> Option<(String, String)> {
    let (mut r1, mut m1) = (b1.0.clone(), b1.1.clone());
    r1.register_override(&b2.0);
    m1.register_override(&b2.1);
    // fast path without building observations
    let same = probes.keys.iter().zip(&probes.idx).all(|(k, i)| real_lookup(&r1, k) == m1.lookup(i)) && {
        let mut l = real_listing(&r1);
        l.sort();
        l == m1.list()
    };
    if same {
        return None;
    }
    let ro = observe_real(&r1, probes);
    let mo = observe_model(&m1, probes);
    compare(&ro, &mo, probes).map(|(k, d)| {
        (k, format!("m1 = {}, m2 = {}: after m1.register_override(&m2): {}", show_listing(&b1.1.list()), show_listing(&b2.1.list()), d))
    })
}

/// names of the pair sweep: a character, its upper case, a function key, a named key, a pointer key
fn pair_names() -> Vec<KeyName> {
    vec![KeyName::Char('a'), KeyName::Char('A'), KeyName::F(1), KeyName::Tab, KeyName::MouseLeft]
}

/// Two keys (name index, modifier bits) bound to 1 and 2 in one map, one key each and as second key behind a
/// common first key. Different keys are different chords: both stay bound with their own values, the listing has
/// two entries; the same key twice is a re-registration.
fn check_key_pair(k1: (usize, u32), k2: (usize, u32)) -> Option<(String, String)> {
    let names = pair_names();
    let a = Key::new(names[k1.0].clone(), KeyMod::from_bits(k1.1));
    let b = Key::new(names[k2.0].clone(), KeyMod::from_bits(k2.1));
    let lead = Key::new(KeyName::Char('x'), KeyMod::EMPTY);
    let same = k1 == k2;
    for nested in [false, true] {
        let chord = |k: &Key| if nested { vec![lead.clone(), k.clone()] } else { vec![k.clone()] };
        let mut map: KeyMap<usize> = KeyMap::new();
        map.register(chord(&a), 1);
        map.register(chord(&b), 2);
        let got_a = real_lookup(&map, &chord(&a));
        let got_b = real_lookup(&map, &chord(&b));
        let mut listed = 0;
        map.for_each(|_, _| listed += 1);
        let want_a = if same { Lookup::Success(2) } else { Lookup::Success(1) };
        if got_a != want_a || got_b != Lookup::Success(2) || listed != if same { 1 } else { 2 } {
            return Some((
                if same { "pair:re-registration".to_string() } else { "pair:distinct-keys-confused".to_string() },
                format!(
                    "{}{:?} -> 1 then {}{:?} -> 2: lookup of the first gives {:?}, of the second {:?}, for_each lists {} binding(s)",
                    if nested { "x " } else { "" }, a, if nested { "x " } else { "" }, b, got_a, got_b, listed
                ),
            ));
        }
    }
    None
}

fn show_hist(h: &[Vec<u8>]) -> String {
    h.iter().map(|c| show(c)).collect::<Vec<_>>().join(", ")
}

// ---------------------------------------------------------------------------------------------
// stateful matcher

fn typed_string(index: u64, len: usize) -> Vec<u8> {
    let mut v = Vec::with_capacity(len);
    let mut x = index;
    for _ in 0..len {
        v.push(HANDLER_TYPED_KEYS[(x % 4) as usize]);
        x /= 4;
    }
    v.reverse();
    v
}

#[derive(Default, Clone, Copy)]
struct HandlerCounts {
    runs: u64,
    keys: u64,
    fire_idle: u64,
    fire_after_unbound: u64,
    silent: u64,
    free: u64,
    fired: u64,
}

/// Feed `typed` to a fresh `KeyMapHandler` and to `KeyMap::lookup_state`; returns both answer
/// sequences.
fn drive_matcher(map: &KeyMap<usize>, bindings: &[Vec<u8>], typed: &[u8]) -> (Vec<Option<usize>>, Vec<Option<usize>>) {
    let mut handler: KeyMapHandler<usize> = KeyMapHandler::new();
    for (i, c) in bindings.iter().enumerate() {
        handler.register(&keys_of(c), i);
    }
    let mut state = Vec::new();
    let mut a = Vec::with_capacity(typed.len());
    let mut b = Vec::with_capacity(typed.len());
    for k in typed {
        a.push(handler.handle(key(*k)).copied());
        b.push(map.lookup_state(&mut state, key(*k)).copied());
    }
    (a, b)
}

fn check_matcher(
    map: &KeyMap<usize>,
    dict: &Dict<u8, usize>,
    bindings: &[Vec<u8>],
    typed: &[u8],
    counts: &mut HandlerCounts,
) -> Option<(String, String)> {
    let (got, via_state) = drive_matcher(map, bindings, typed);
    let demands = matcher_demands(dict, typed);
    counts.runs += 1;
    counts.keys += typed.len() as u64;
    let ctxt = |i: usize| {
        format!(
            "bound {}; typed [{}]; answers {:?}; at key #{} ({})",
            show_listing(&dict.list()),
            show(typed),
            got,
            i,
            NAMES[typed[i] as usize]
        )
    };
    if got != via_state {
        return Some(("handler-differs-from-lookup_state".into(), format!("KeyMapHandler answers {:?}, KeyMap::lookup_state answers {:?} for [{}]", got, via_state, show(typed))));
    }
    for (i, d) in demands.iter().enumerate() {
        if got[i].is_some() {
            counts.fired += 1;
        }
        match d {
            Expect::Fire { value, after_unbound } => {
                if *after_unbound {
                    counts.fire_after_unbound += 1;
                } else {
                    counts.fire_idle += 1;
                }
                if got[i] != Some(*value) {
                    let k = if *after_unbound { "no-fire-after-unbound-key" } else { "no-fire-from-idle" };
                    return Some((k.into(), format!("{}: expected the chord bound to {} to fire, got {:?}", ctxt(i), value, got[i])));
                }
            }
            Expect::Silent => {
                counts.silent += 1;
                if got[i].is_some() {
                    return Some(("fires-before-last-key".into(), format!("{}: expected no firing inside a chord typed from idle, got {:?}", ctxt(i), got[i])));
                }
            }
            Expect::Free => counts.free += 1,
        }
        if let Some(v) = got[i] {
            if !sound(dict, typed, i, &v) {
                return Some(("unsound-fire".into(), format!("{}: fired {} but no chord ending at this key is bound to it", ctxt(i), v)));
            }
        }
    }
    None
}

/// Map switch at an idle point: `typed1` is fed under the bindings `first`; if the statement says the matcher is
/// idle afterwards (nothing typed yet, or the last key was a demanded firing), the bindings `more` are registered
/// on top and `typed2` is fed. A matcher that is idle carries nothing over, so the answers to `typed2` must equal
/// those of a matcher that starts fresh with the final bindings - for `KeyMap::lookup_state` with the caller's
/// buffer and for `KeyMapHandler` with registrations between keys. None = not idle (nothing compared).
fn check_switch(first: &[Vec<u8>], more: &[Vec<u8>], typed1: &[u8], typed2: &[u8]) -> Option<Result<(), (String, String)>> {
    let (map_a, dict_a) = build(first, 0);
    let demands = matcher_demands(&dict_a, typed1);
    if !(typed1.is_empty() || matches!(demands.last(), Some(Expect::Fire { .. }))) {
        return None;
    }
    let mut all: Vec<Vec<u8>> = first.to_vec();
    all.extend(more.iter().cloned());
    let (map_ab, _) = build(&all, 0);
    // lookup_state, one buffer across both maps
    let mut state = Vec::new();
    for k in typed1 {
        let _ = map_a.lookup_state(&mut state, key(*k));
    }
    let carried: Vec<Option<usize>> = typed2.iter().map(|k| map_ab.lookup_state(&mut state, key(*k)).copied()).collect();
    let mut fresh_state = Vec::new();
    let fresh: Vec<Option<usize>> = typed2.iter().map(|k| map_ab.lookup_state(&mut fresh_state, key(*k)).copied()).collect();
    let describe = |what: &str, got: &[Option<usize>], want: &[Option<usize>]| {
        format!(
            "{what}: bound [{}], typed [{}] (idle afterwards), then [{}] registered and [{}] typed: answers {:?}, a fresh matcher with the same bindings answers {:?}",
            show_hist(first), show(typed1), show_hist(more), show(typed2), got, want
        )
    };
    if carried != fresh {
        return Some(Err(("idle-matcher-carries-keys:lookup_state".into(), describe("KeyMap::lookup_state", &carried, &fresh))));
    }
    // KeyMapHandler with registrations between keys
    let mut handler: KeyMapHandler<usize> = KeyMapHandler::new();
    for (i, c) in first.iter().enumerate() {
        handler.register(&keys_of(c), i);
    }
    for k in typed1 {
        let _ = handler.handle(key(*k));
    }
    for (i, c) in more.iter().enumerate() {
        handler.register(&keys_of(c), first.len() + i);
    }
    let carried: Vec<Option<usize>> = typed2.iter().map(|k| handler.handle(key(*k)).copied()).collect();
    if carried != fresh {
        return Some(Err(("idle-matcher-carries-keys:handler".into(), describe("KeyMapHandler", &carried, &fresh))));
    }
    Some(Ok(()))
}

/// all prefix-free sets of 0..=n chords (as sorted index lists into `all`)
fn prefix_free_sets(all: &[Vec<u8>], n: usize) -> Vec<Vec<usize>> {
    fn related(a: &[u8], b: &[u8]) -> bool {
        let l = a.len().min(b.len());
        a[..l] == b[..l]
    }
    let mut out = vec![vec![]];
    let mut level: Vec<Vec<usize>> = vec![vec![]];
    for _ in 0..n {
        let mut next = vec![];
        for s in &level {
            let start = s.last().map(|l| l + 1).unwrap_or(0);
            for i in start..all.len() {
                if s.iter().all(|j| !related(&all[*j], &all[i])) {
                    let mut t = s.clone();
                    t.push(i);
                    next.push(t);
                }
            }
        }
        out.extend(next.iter().cloned());
        level = next;
    }
    out
}

// ---------------------------------------------------------------------------------------------
// parsers

#[derive(Debug)]
enum Parsed {
    Rejected,
    /// accepted; the printed form
    Accepted(String),
    Violation(String, String),
}

fn check_parse<T>(ty: &str, input: &str) -> Parsed
where
    T: FromStr + Display + PartialEq + Debug,
{
    let v = match catch(|| input.parse::<T>()) {
        Err(p) => return Parsed::Violation(format!("parse:{ty}:{}", p.key()), format!("{ty}::from_str({input:?}) panicked: {} ({}:{})", p.message, p.file, p.line)),
        Ok(Err(_)) => return Parsed::Rejected,
        Ok(Ok(v)) => v,
    };
    let printed = match catch(|| v.to_string()) {
        Err(p) => return Parsed::Violation(format!("print:{ty}:{}", p.key()), format!("printing the {ty} parsed from {input:?} panicked: {}", p.message)),
        Ok(s) => s,
    };
    match catch(|| printed.parse::<T>()) {
        Err(p) => Parsed::Violation(
            format!("roundtrip:{ty}:{}", p.key()),
            format!("{ty}::from_str({input:?}) = {v:?} prints as {printed:?}, parsing that panicked: {}", p.message),
        ),
        Ok(Err(_)) => Parsed::Violation(
            format!("roundtrip:{ty}:printed-form-rejected"),
            format!("{ty}::from_str({input:?}) = {v:?} prints as {printed:?}, which the parser rejects"),
        ),
        Ok(Ok(v2)) => {
            if v2 == v {
                Parsed::Accepted(printed)
            } else {
                Parsed::Violation(
                    format!("roundtrip:{ty}:printed-form-parses-differently"),
                    format!("{ty}::from_str({input:?}) = {v:?} prints as {printed:?}, which parses to the different value {v2:?}"),
                )
            }
        }
    }
}

const TYPES: [&str; 3] = ["Key", "KeyName", "KeyChord"];

fn check_parse_as(ty: &str, input: &str) -> Parsed {
    match ty {
        "Key" => check_parse::<Key>(ty, input),
        "KeyName" => check_parse::<KeyName>(ty, input),
        _ => check_parse::<KeyChord>("KeyChord", input),
    }
}

/// token alphabet of the string sweep (tokens, not bytes)
const TOKENS: [&str; 24] = [
    "a", "f", "1", "9", "0", "+", " ", "\"", "-", "ctrl", "shift", "alt", "press", "capslock", "F", "A", "\u{e9}", "\u{130}", "\u{212a}",
    "space", "tab", "esc", "up", "f1",
];

#[derive(Default)]
struct ParseAcc {
    inputs: u64,
    evaluations: u64,
    accepted: u64,
    rejected: u64,
    distinct: HashSet<(u8, String)>,
    /// finding key -> (input, detail, witness); the shortest (then smallest) input per key
    viol: BTreeMap<String, (String, String, Value)>,
}

impl ParseAcc {
    fn merge(mut self, o: ParseAcc) -> ParseAcc {
        self.inputs += o.inputs;
        self.evaluations += o.evaluations;
        self.accepted += o.accepted;
        self.rejected += o.rejected;
        self.distinct.extend(o.distinct);
        for (k, v) in o.viol {
            self.note(k, v);
        }
        self
    }
    fn note(&mut self, key: String, v: (String, String, Value)) {
        match self.viol.get_mut(&key) {
            Some(old) => {
                if (v.0.len(), &v.0) < (old.0.len(), &old.0) {
                    *old = v;
                }
            }
            None => {
                self.viol.insert(key, v);
            }
        }
    }
    fn feed(&mut self, input: &str, types: &[&str]) {
        self.inputs += 1;
        for ty in types {
            self.evaluations += 1;
            match check_parse_as(ty, input) {
                Parsed::Rejected => self.rejected += 1,
                Parsed::Accepted(p) => {
                    self.accepted += 1;
                    let t = TYPES.iter().position(|x| x == ty).unwrap_or(0) as u8;
                    self.distinct.insert((t, p));
                }
                Parsed::Violation(k, d) => {
                    self.note(k, (input.to_string(), d, json!({"kind": "parse", "type": ty, "input": input})));
                }
            }
        }
    }
}

fn token_strings_sweep(max_tokens: usize) -> ParseAcc {
    let n = TOKENS.len() as u64;
    let mut acc = ParseAcc::default();
    for len in 0..=max_tokens {
        let total = n.pow(len as u32);
        let part = (0..total)
            .into_par_iter()
            .fold(ParseAcc::default, |mut acc, idx| {
                let mut s = String::new();
                let mut x = idx;
                for _ in 0..len {
                    s.push_str(TOKENS[(x % n) as usize]);
                    x /= n;
                }
                acc.feed(&s, &TYPES);
                acc
            })
            .reduce(ParseAcc::default, ParseAcc::merge);
        acc = acc.merge(part);
    }
    acc
}

fn function_key_inputs() -> Vec<String> {
    let mut digits: Vec<String> = vec![];
    for n in 1..=30usize {
        for d in b'0'..=b'9' {
            digits.push(std::iter::repeat(d as char).take(n).collect());
        }
        digits.push(format!("1{}", "0".repeat(n - 1)));
    }
    for b in [u8::MAX as u128, u16::MAX as u128, u32::MAX as u128, u64::MAX as u128, i64::MAX as u128] {
        for x in [b - 1, b, b + 1] {
            for z in 0..3 {
                digits.push(format!("{}{}", "0".repeat(z), x));
            }
        }
    }
    digits.sort();
    digits.dedup();
    let mut out = vec![];
    for d in &digits {
        for form in ["f{}", "F{}", "ctrl+f{}", "f{}+shift", "a f{}", "f{} f{}"] {
            out.push(form.replace("{}", d));
        }
    }
    out
}

/// Every character below `top` (and a few beyond) in the spellings a key file can contain: bare, double and
/// single quoted, with modifiers on either side, inside chords. Raw strings: the quoted spellings of control
/// characters are never produced by printing a value.
fn character_forms_sweep(top: u32) -> ParseAcc {
    const FORMS: [&str; 10] = ["{}", "\"{}\"", "'{}'", "ctrl+{}", "ctrl+\"{}\"", "\"{}\"+alt+shift", "a \"{}\"", "\"{}\" f1", "ctrl+x \"{}\" f1", "\"{}{}\""];
    let mut points: Vec<u32> = (0..top).collect();
    points.extend([0xfb00, 0xfffd, 0x1f600, 0x10ffff]);
    points
        .into_par_iter()
        .fold(ParseAcc::default, |mut acc, cp| {
            if let Some(c) = char::from_u32(cp) {
                let c = c.to_string();
                for form in FORMS {
                    acc.feed(&form.replace("{}", &c), &TYPES);
                }
            }
            acc
        })
        .reduce(ParseAcc::default, ParseAcc::merge)
}

/// Words that are (or could be taken for) modifier names, in every ordered pair, around four key names, in five
/// arrangements - raw strings, so a word the parser accepts but the printer has no name for is reached.
fn modifier_words_sweep() -> ParseAcc {
    const WORDS: [&str; 22] = [
        "", "alt", "ctrl", "shift", "press", "super", "hyper", "meta", "capslock", "numlock", "scrolllock", "release", "repeat", "cmd", "win",
        "control", "option", "Alt", "CTRL", "Numlock", "mod", "lock",
    ];
    const KEYS: [&str; 4] = ["a", "f1", "tab", "x"];
    let mut inputs: Vec<String> = vec![];
    for w1 in WORDS {
        for w2 in WORDS {
            for k in KEYS {
                let join = |parts: &[&str]| parts.iter().filter(|p| !p.is_empty()).copied().collect::<Vec<_>>().join("+");
                inputs.push(join(&[w1, w2, k]));
                inputs.push(join(&[w1, k, w2]));
                inputs.push(join(&[k, w1, w2]));
                inputs.push(format!("{} {}", join(&[w1, k]), join(&[w2, k])));
                inputs.push(format!("ctrl+x {} {}", join(&[w1, w2, k]), k));
            }
        }
    }
    inputs.sort();
    inputs.dedup();
    inputs
        .par_iter()
        .fold(ParseAcc::default, |mut acc, s| {
            acc.feed(s, &TYPES);
            acc
        })
        .reduce(ParseAcc::default, ParseAcc::merge)
}

fn key_names(thorough: bool) -> Vec<KeyName> {
    use KeyName::*;
    let mut v = vec![
        Backspace, Delete, Insert, Down, End, Enter, Esc, Home, Left, MouseLeft, MouseMiddle, MouseMove, MouseRight, MouseWheelDown,
        MouseWheelUp, PageDown, PageUp, Right, Tab, Up,
    ];
    for n in 0..=64usize {
        v.push(F(n));
    }
    for n in [99usize, 255, 256, 65535, 65536, u32::MAX as usize, u32::MAX as usize + 1, usize::MAX - 1, usize::MAX] {
        v.push(F(n));
    }
    let top = if thorough { 0x24f } else { 0xff };
    for c in 0..=top {
        if let Some(c) = char::from_u32(c) {
            v.push(Char(c));
        }
    }
    for c in ['\u{df}', '\u{130}', '\u{212a}', '\u{17f}', '\u{1c5}', '\u{3a3}', '\u{3c2}', '\u{fb00}', '\u{2028}', '\u{fffd}', '\u{1f600}', '\u{10ffff}'] {
        if !v.contains(&Char(c)) {
            v.push(Char(c));
        }
    }
    v
}

fn print_witness(name: &KeyName, bits: u32) -> Value {
    json!({"kind": "print", "name_index": key_names(true).iter().position(|n| n == name), "bits": bits})
}

/// every key name x every modifier set (all 2^9 bit patterns), printed by the library and fed
/// back to the parsers
fn printed_values_sweep(thorough: bool) -> (ParseAcc, u64, u64) {
    let names = key_names(thorough);
    let identity = AtomicU64::new(0);
    let values = AtomicU64::new(0);
    let acc = names
        .par_iter()
        .fold(ParseAcc::default, |mut acc, name| {
            if let Ok(s) = catch(|| name.to_string()) {
                values.fetch_add(1, Ordering::Relaxed);
                if catch(|| s.parse::<KeyName>().ok()).ok().flatten() == Some(*name) {
                    identity.fetch_add(1, Ordering::Relaxed);
                }
                acc.feed(&s, &["KeyName"]);
            } else {
                acc.note("print:KeyName:panic".into(), (String::new(), "printing a key name panicked".into(), print_witness(name, 0)));
            }
            for bits in 0..512u32 {
                let k = Key::new(*name, KeyMod::from_bits(bits));
                match catch(|| k.to_string()) {
                    Ok(s) => {
                        values.fetch_add(1, Ordering::Relaxed);
                        if catch(|| s.parse::<Key>().ok()).ok().flatten() == Some(k) {
                            identity.fetch_add(1, Ordering::Relaxed);
                        }
                        acc.feed(&s, &["Key", "KeyChord"]);
                    }
                    Err(p) => acc.note(format!("print:Key:{}", p.key()), (String::new(), format!("printing a key panicked: {}", p.message), print_witness(name, bits))),
                }
            }
            acc
        })
        .reduce(ParseAcc::default, ParseAcc::merge);
    // two-key chords printed by the library
    let mods = [KeyMod::EMPTY, KeyMod::CTRL];
    let pair_names: Vec<KeyName> = if thorough { names.clone() } else { names.iter().copied().filter(|n| !matches!(n, KeyName::Char(c) if *c as u32 > 0x7f)).collect() };
    let singles: Vec<Key> = pair_names.iter().flat_map(|n| mods.iter().map(move |m| Key::new(*n, *m))).collect();
    let acc2 = singles
        .par_iter()
        .fold(ParseAcc::default, |mut acc, k1| {
            for k2 in &singles {
                let chord = KeyChord::new(vec![*k1, *k2]);
                if let Ok(s) = catch(|| chord.to_string()) {
                    values.fetch_add(1, Ordering::Relaxed);
                    if catch(|| s.parse::<KeyChord>().ok()).ok().flatten().as_ref() == Some(&chord) {
                        identity.fetch_add(1, Ordering::Relaxed);
                    }
                    acc.feed(&s, &["KeyChord"]);
                }
            }
            acc
        })
        .reduce(ParseAcc::default, ParseAcc::merge);
    (acc.merge(acc2), values.load(Ordering::Relaxed), identity.load(Ordering::Relaxed))
}

// ---------------------------------------------------------------------------------------------

pub fn run(ctx: &Ctx) -> Result<Report, String> {
    let viol = Violations::new();
    let samples = Samples::new(ctx.seed);
    let counters = MapCounters::default();
    let mut capped = false;

    let mut timing = serde_json::Map::new();
    let mut t0 = std::time::Instant::now();
    let mut lap = |name: &str, timing: &mut serde_json::Map<String, Value>| {
        timing.insert(name.to_string(), json!((t0.elapsed().as_secs_f64() * 100.0).round() / 100.0));
        t0 = std::time::Instant::now();
    };
    // 1. registration histories
    let d3 = ctx.tier.pick(3, 4);
    let d2 = ctx.tier.pick(4, 6);
    let s3 = run_bfs(ctx, &A3, d3, &viol, &samples, &counters);
    let s2 = run_bfs(ctx, &A2, d2, &viol, &samples, &counters);
    let d4 = ctx.tier.pick(2usize, 3usize);
    let s4 = run_bfs(ctx, &A4, d4, &viol, &samples, &counters);
    let s5 = run_bfs(ctx, &A5, d3, &viol, &samples, &counters);
    capped |= s3.capped || s2.capped || s4.capped || s5.capped;

    lap("bfs", &mut timing);
    // 2. override merging over all ordered pairs of small maps
    let probes3 = Probes::new(&A3);
    let mut maps = vec![];
    let mut seen = HashSet::new();
    small_maps(&A3, 2, &mut seen, &mut maps);
    if ctx.tier.pick(false, true) {
        small_maps(&A2, 3, &mut seen, &mut maps);
    }
    let pairs = AtomicU64::new(0);
    let nontrivial_pairs = AtomicU64::new(0);
    let built1: Vec<Built> = maps.iter().map(|h| build(h, 0)).collect();
    let built2: Vec<Built> = maps.iter().map(|h| build(h, 100)).collect();
    maps.par_iter().enumerate().for_each(|(i1, h1)| {
        if ctx.over_cap() {
            return;
        }
        pairs.fetch_add(maps.len() as u64, Ordering::Relaxed);
        for (i2, h2) in maps.iter().enumerate() {
            // non-trivial: some binding of m2 is a proper prefix/extension/equal of one in m1
            if h1.iter().any(|a| h2.iter().any(|b| { let l = a.len().min(b.len()); a[..l] == b[..l] })) {
                nontrivial_pairs.fetch_add(1, Ordering::Relaxed);
            }
            let w = || json!({"kind": "override", "m1": h1.iter().map(|c| show(c)).collect::<Vec<_>>(), "m2": h2.iter().map(|c| show(c)).collect::<Vec<_>>()});
            match catch(|| check_override(&probes3, &built1[i1], &built2[i2])) {
                Err(p) => viol.add(format!("override:{}", p.key()), format!("panicked: {}", p.message), w()),
                Ok(Some((k, d))) => viol.add(format!("override:{k}"), d, w()),
                Ok(None) => {}
            }
        }
    });
    capped |= ctx.over_cap();

    // 2b. every pair of keys over 5 names x all 512 modifier sets, bound in one map
    let pair_keys: Vec<(usize, u32)> = (0..pair_names().len()).flat_map(|n| (0..512u32).map(move |b| (n, b))).collect();
    let key_pairs = AtomicU64::new(0);
    pair_keys.par_iter().for_each(|k1| {
        if ctx.over_cap() {
            return;
        }
        for k2 in &pair_keys {
            // quick: the same name with every pair of modifier sets, other names with the modifier sets that differ in at most one bit
            if ctx.tier == Tier::Quick && k1.0 != k2.0 && (k1.1 ^ k2.1).count_ones() > 1 {
                continue;
            }
            key_pairs.fetch_add(1, Ordering::Relaxed);
            let w = || json!({"kind": "key-pair", "first": [k1.0 as u64, k1.1 as u64], "second": [k2.0 as u64, k2.1 as u64]});
            match catch(|| check_key_pair(*k1, *k2)) {
                Err(p) => viol.add(format!("pair:{}", p.key()), format!("panicked: {}", p.message), w()),
                Ok(Some((k, d))) => viol.add(k, d, w()),
                Ok(None) => {}
            }
        }
    });
    capped |= ctx.over_cap();
    lap("key-pairs", &mut timing);

    lap("override", &mut timing);
    // 3. stateful matcher
    let hchords = chords(&HANDLER_CHORD_KEYS, 1, 3);
    // measured: about 1.8 us per run; quick 10.6 M runs, thorough 0.4 G runs
    let nmax = ctx.tier.pick(3, 4);
    let sets = prefix_free_sets(&hchords, nmax);
    let typed_len = ctx.tier.pick(5usize, 6usize);
    let matcher_pass = |typed_len: usize, skin: u64| sets
        .par_iter()
        .map(|set| {
            let mut counts = HandlerCounts::default();
            if ctx.over_cap() {
                return (counts, true);
            }
            let bindings: Vec<Vec<u8>> = set.iter().map(|i| hchords[*i].clone()).collect();
            let (map, dict) = build(&bindings, 0);
            debug_assert_eq!(dict.len(), bindings.len());
            for len in 0..=typed_len {
                for idx in 0..4u64.pow(len as u32) {
                    let typed = typed_string(idx, len);
                    let w = || json!({"kind": "handler", "skin": skin, "map": bindings.iter().map(|c| show(c)).collect::<Vec<_>>(), "typed": show(&typed)});
                    let note = if skin == 1 { " [keys: a = pointer motion, b = 'b', c = Tab, x = mouse button press]" } else { "" };
                    match catch(|| check_matcher(&map, &dict, &bindings, &typed, &mut counts)) {
                        Err(p) => viol.add(format!("handler:{}", p.key()), format!("panicked: {}{note}", p.message), w()),
                        Ok(Some((k, d))) => viol.add(format!("handler:{k}"), format!("{d}{note}"), w()),
                        Ok(None) => {
                            samples.offer(hash64(&(set, idx, len, skin)), || json!({"space": "matcher", "skin": skin, "map": show_listing(&dict.list()), "typed": show(&typed)}));
                        }
                    }
                }
            }
            (counts, false)
        })
        .reduce(
            || (HandlerCounts::default(), false),
            |(a, ca), (b, cb)| {
                (
                    HandlerCounts {
                        runs: a.runs + b.runs,
                        keys: a.keys + b.keys,
                        fire_idle: a.fire_idle + b.fire_idle,
                        fire_after_unbound: a.fire_after_unbound + b.fire_after_unbound,
                        silent: a.silent + b.silent,
                        free: a.free + b.free,
                        fired: a.fired + b.fired,
                    },
                    ca || cb,
                )
            },
        );
    let hc = matcher_pass(typed_len, 0);
    // the same sweep (one key shorter) with other kinds of keys behind the four indices
    SKIN.store(1, Ordering::SeqCst);
    let hc1 = matcher_pass(typed_len - 1, 1);
    SKIN.store(0, Ordering::SeqCst);
    capped |= hc.1 || hc1.1;
    let mut hc = hc.0;
    let special_key_runs = hc1.0.runs;
    hc.runs += hc1.0.runs;
    hc.keys += hc1.0.keys;
    hc.fire_idle += hc1.0.fire_idle;
    hc.fire_after_unbound += hc1.0.fire_after_unbound;
    hc.silent += hc1.0.silent;
    hc.free += hc1.0.free;
    hc.fired += hc1.0.fired;

    // 3c. registrations while the matcher is idle between two chords
    let sw_chords = chords(&HANDLER_CHORD_KEYS, 1, 2);
    let sw_sets = prefix_free_sets(&sw_chords, 2);
    let sw_typed1 = 2usize;
    let sw_typed2 = ctx.tier.pick(2usize, 3usize);
    let switch_runs: u64 = sw_sets
        .par_iter()
        .map(|sa| {
            let first: Vec<Vec<u8>> = sa.iter().map(|i| sw_chords[*i].clone()).collect();
            let mut runs = 0u64;
            for sb in sw_sets.iter() {
                let more: Vec<Vec<u8>> = sb.iter().map(|i| sw_chords[*i].clone()).collect();
                for l1 in 0..=sw_typed1 {
                    for i1 in 0..4u64.pow(l1 as u32) {
                        let typed1 = typed_string(i1, l1);
                        for l2 in 1..=sw_typed2 {
                            for i2 in 0..4u64.pow(l2 as u32) {
                                let typed2 = typed_string(i2, l2);
                                let w = || json!({"kind": "switch", "first": first.iter().map(|c| show(c)).collect::<Vec<_>>(), "more": more.iter().map(|c| show(c)).collect::<Vec<_>>(), "typed1": show(&typed1), "typed2": show(&typed2)});
                                match catch(|| check_switch(&first, &more, &typed1, &typed2)) {
                                    Err(p) => viol.add(format!("handler:{}", p.key()), format!("panicked: {}", p.message), w()),
                                    Ok(None) => break,
                                    Ok(Some(Err((k, d)))) => {
                                        runs += 1;
                                        viol.add(format!("handler:{k}"), d, w())
                                    }
                                    Ok(Some(Ok(()))) => runs += 1,
                                }
                            }
                        }
                    }
                }
            }
            runs
        })
        .sum();

    // 3b. long chords: one chord of four keys (every one over the chord keys), alone or next to a
    // single-key chord, so that a failure can happen with three keys pending
    let long_maps: Vec<Vec<Vec<u8>>> = chords(&HANDLER_CHORD_KEYS, 4, 4)
        .into_iter()
        .flat_map(|long| {
            let mut v = vec![vec![long.clone()]];
            for k in HANDLER_CHORD_KEYS.iter() {
                if *k != long[0] {
                    v.push(vec![long.clone(), vec![*k]]);
                }
            }
            v
        })
        .collect();
    let long_typed = ctx.tier.pick(6usize, 7usize);
    let lc = long_maps
        .par_iter()
        .map(|bindings| {
            let mut counts = HandlerCounts::default();
            let (map, dict) = build(bindings, 0);
            for len in 0..=long_typed {
                for idx in 0..4u64.pow(len as u32) {
                    let typed = typed_string(idx, len);
                    let w = || json!({"kind": "handler", "map": bindings.iter().map(|c| show(c)).collect::<Vec<_>>(), "typed": show(&typed)});
                    match catch(|| check_matcher(&map, &dict, bindings, &typed, &mut counts)) {
                        Err(p) => viol.add(format!("handler:{}", p.key()), format!("panicked: {}", p.message), w()),
                        Ok(Some((k, d))) => viol.add(format!("handler:{k}"), d, w()),
                        Ok(None) => {}
                    }
                }
            }
            counts
        })
        .reduce(HandlerCounts::default, |a, b| HandlerCounts {
            runs: a.runs + b.runs,
            keys: a.keys + b.keys,
            fire_idle: a.fire_idle + b.fire_idle,
            fire_after_unbound: a.fire_after_unbound + b.fire_after_unbound,
            silent: a.silent + b.silent,
            free: a.free + b.free,
            fired: a.fired + b.fired,
        });
    let long_runs = lc.runs;
    let long_maps_n = long_maps.len();
    hc.runs += lc.runs;
    hc.keys += lc.keys;
    hc.fire_idle += lc.fire_idle;
    hc.fire_after_unbound += lc.fire_after_unbound;
    hc.silent += lc.silent;
    hc.free += lc.free;
    hc.fired += lc.fired;

    lap("matcher", &mut timing);
    // 4. parsers
    let max_tokens = ctx.tier.pick(3, 5);
    let tok = token_strings_sweep(max_tokens);
    let mut fk = ParseAcc::default();
    for s in function_key_inputs() {
        fk.feed(&s, &TYPES);
    }
    let mw = modifier_words_sweep();
    let cf = character_forms_sweep(ctx.tier.pick(0x3000, 0x11_0000));
    let (pv, printed_values, print_parse_identity) = printed_values_sweep(ctx.tier.pick(false, true));
    lap("parsers", &mut timing);
    let mut parse_cov = serde_json::Map::new();
    let mut parse_evals = 0;
    let mut parse_accepted = 0;
    for (name, acc) in [("token_strings", tok), ("function_key_digits", fk), ("character_forms", cf), ("modifier_words", mw), ("printed_values", pv)] {
        parse_cov.insert(
            name.to_string(),
            json!({"inputs": acc.inputs, "evaluations": acc.evaluations, "accepted_and_round_tripped": acc.accepted, "rejected": acc.rejected, "distinct_accepted_values": acc.distinct.len()}),
        );
        parse_evals += acc.evaluations;
        parse_accepted += acc.accepted;
        let mut some: Vec<&(u8, String)> = acc.distinct.iter().collect();
        some.sort();
        if let Some(s) = some.get(some.len() / 2) {
            samples.force(json!({"space": name, "type": TYPES[s.0 as usize], "accepted_value_prints_as": s.1}));
        }
        for (k, (_, d, w)) in acc.viol {
            viol.add(k, d, w);
        }
    }

    let ld = |a: &AtomicU64| a.load(Ordering::Relaxed);
    let states = s3.states + s2.states + s4.states + s5.states;
    let transitions = s3.transitions + s2.transitions + s4.transitions + s5.transitions;
    let pairs = ld(&pairs);
    let mut r = Report::new("model_checking");
    r.set("matcher_runs_with_special_keys", special_key_runs);
    r.set("matcher_long_chords", json!({"maps": long_maps_n, "runs": long_runs, "typed_len": long_typed}));
    r.set("matcher_map_switch_at_idle", json!({"binding_sets": sw_sets.len(), "ordered_pairs": sw_sets.len() * sw_sets.len(), "typed_before": sw_typed1, "typed_after": sw_typed2, "compared_runs": switch_runs}));
    r.set("states", states)
        .set("transitions", transitions)
        .set("traces_validated_against_impl", transitions + pairs + hc.runs)
        .set("samples", samples.into_vec())
        .set("exhaustive", !capped)
        .set("capped", capped)
        .set(
            "bfs",
            json!([
                {"alphabet": show(&A3), "operations": chords(&A3, 1, 3).len(), "probe_chords": probes3.idx.len(), "depth": d3, "states": s3.states,
                 "transitions": s3.transitions, "levels": s3.levels, "fixpoint": s3.fixpoint, "pruned": s3.pruned},
                {"alphabet": show(&A2), "operations": chords(&A2, 1, 3).len(), "probe_chords": chords(&A2, 1, 4).len(), "depth": d2, "states": s2.states,
                 "transitions": s2.transitions, "levels": s2.levels, "fixpoint": s2.fixpoint, "pruned": s2.pruned},
                {"alphabet": show(&A4), "operations": chords(&A4, 1, 3).len(), "depth": d4, "states": s4.states,
                 "transitions": s4.transitions, "levels": s4.levels, "fixpoint": s4.fixpoint, "pruned": s4.pruned},
            ]),
        )
        .set(
            "map_observations",
            json!({
                "lookups_expected_success": ld(&counters.lookups_success),
                "lookups_expected_continue": ld(&counters.lookups_continue),
                "lookups_expected_failure": ld(&counters.lookups_failure),
                "register_returns_nothing": ld(&counters.ret_nothing),
                "register_returns_value": ld(&counters.ret_value),
                "register_returns_submap": ld(&counters.ret_submap),
                "registrations_superseding_other_chords": ld(&counters.superseding_registrations),
            }),
        )
        .set("override", json!({"maps": maps.len(), "ordered_pairs": pairs, "pairs_with_overlapping_chords": ld(&nontrivial_pairs)}))
        .set("key_pairs", json!({"names": pair_names().iter().map(|n| format!("{n:?}")).collect::<Vec<_>>(), "modifier_sets": 512, "ordered_pairs_bound_in_one_map": ld(&key_pairs)}))
        .set(
            "matcher",
            json!({
                "maps": sets.len(), "max_chords_per_map": nmax, "typed_strings_per_map": (0..=typed_len).map(|l| 4u64.pow(l as u32)).sum::<u64>(),
                "runs": hc.runs, "keys_fed": hc.keys, "demanded_fire_from_idle": hc.fire_idle, "demanded_fire_after_unbound_key": hc.fire_after_unbound,
                "demanded_silent": hc.silent, "positions_left_to_soundness_only": hc.free, "observed_firings": hc.fired,
            }),
        )
        .set("parsers", Value::Object(parse_cov))
        .set("parser_evaluations", parse_evals)
        .set("parser_accepted", parse_accepted)
        .set("printed_values", printed_values)
        .set("printed_values_parsing_back_to_themselves", print_parse_identity)
        .set("token_alphabet", TOKENS.to_vec())
        .set("max_tokens", max_tokens)
        .set("wall_s_by_part", Value::Object(timing))
        .set("raw_violations", viol.raw_count());
    r.assume("register's return value is specified by its doc comment: the value or sub-map previously at exactly that chord, else None");
    r.assume("enumeration order is not part of the statement: for_each is compared as a multiset");
    r.assume("matcher: idle = fresh matcher or right after a demanded firing; the unbound-key rule is applied where unambiguous (key met with nothing pending, or occurring in no bound chord); elsewhere only soundness of answers is demanded");
    r.assume("round trip is demanded of accepted strings only; values the parsers can never produce (e.g. NUMLOCK modifier, upper-case Char) are fed as printed strings but need not survive");
    r.violations = viol.into_vec();
    Ok(r)
}

pub fn replay(w: &Value) -> Result<(bool, String), String> {
    let strs = |v: &Value| -> Result<Vec<Vec<u8>>, String> {
        v.as_array().ok_or("expected array")?.iter().map(|s| unshow(s.as_str().unwrap_or(""))).collect()
    };
    match w["kind"].as_str().ok_or("witness without kind")? {
        "history" => {
            let alpha = unshow(w["alphabet"].as_str().ok_or("alphabet")?)?;
            let hist = strs(&w["ops"])?;
            let probes = Probes::new(&alpha);
            Ok(match catch(|| run_history(&probes, &hist, true, None)) {
                Err(p) => (true, format!("panicked: {} ({}:{})", p.message, p.file, p.line)),
                Ok(Err((k, d))) => (true, format!("[{k}] {d}")),
                Ok(Ok(obs)) => (false, format!("history [{}]: library agrees with the dictionary model; for_each {}", show_hist(&hist), show_listing(&obs.listing))),
            })
        }
        "key-pair" => {
            let g = |v: &Value| -> Result<(usize, u32), String> { Ok((v[0].as_u64().ok_or("pair")? as usize, v[1].as_u64().ok_or("pair")? as u32)) };
            let (k1, k2) = (g(&w["first"])?, g(&w["second"])?);
            if k1.0 >= pair_names().len() || k2.0 >= pair_names().len() {
                return Err("name index".into());
            }
            Ok(match catch(|| check_key_pair(k1, k2)) {
                Err(p) => (true, format!("panicked: {} ({}:{})", p.message, p.file, p.line)),
                Ok(Some((k, d))) => (true, format!("[{k}] {d}")),
                Ok(None) => (false, format!("keys {:?} and {:?}: both bound with their own values", k1, k2)),
            })
        }
        "override" => {
            let h1 = strs(&w["m1"])?;
            let h2 = strs(&w["m2"])?;
            let probes = Probes::new(&A3);
            Ok(match catch(|| check_override(&probes, &build(&h1, 0), &build(&h2, 100))) {
                Err(p) => (true, format!("panicked: {} ({}:{})", p.message, p.file, p.line)),
                Ok(Some((k, d))) => (true, format!("[{k}] {d}")),
                Ok(None) => (false, format!("m1=[{}] overridden by m2=[{}]: library agrees with the model", show_hist(&h1), show_hist(&h2))),
            })
        }
        "switch" => {
            let first = strs(&w["first"])?;
            let more = strs(&w["more"])?;
            let typed1 = unshow(w["typed1"].as_str().ok_or("typed1")?)?;
            let typed2 = unshow(w["typed2"].as_str().ok_or("typed2")?)?;
            Ok(match catch(|| check_switch(&first, &more, &typed1, &typed2)) {
                Err(p) => (true, format!("panicked: {} ({}:{})", p.message, p.file, p.line)),
                Ok(None) => (false, "the matcher is not idle after the first key string: nothing is demanded".to_string()),
                Ok(Some(Err((k, d)))) => (true, format!("[{k}] {d}")),
                Ok(Some(Ok(()))) => (false, "a matcher that is idle carries nothing over: answers equal those of a fresh matcher".to_string()),
            })
        }
        "handler" => {
            SKIN.store(w["skin"].as_u64().unwrap_or(0), Ordering::SeqCst);
            let bindings = strs(&w["map"])?;
            let typed = unshow(w["typed"].as_str().ok_or("typed")?)?;
            let (map, dict) = build(&bindings, 0);
            let mut counts = HandlerCounts::default();
            Ok(match catch(|| check_matcher(&map, &dict, &bindings, &typed, &mut counts)) {
                Err(p) => (true, format!("panicked: {} ({}:{})", p.message, p.file, p.line)),
                Ok(Some((k, d))) => (true, format!("[{k}] {d}; demands {:?}", matcher_demands(&dict, &typed))),
                Ok(None) => {
                    let (got, _) = drive_matcher(&map, &bindings, &typed);
                    (false, format!("bound {}; typed [{}]: answers {:?} satisfy the demands {:?}", show_listing(&dict.list()), show(&typed), got, matcher_demands(&dict, &typed)))
                }
            })
        }
        "parse" => {
            let ty = w["type"].as_str().ok_or("type")?;
            let input = w["input"].as_str().ok_or("input")?;
            Ok(match check_parse_as(ty, input) {
                Parsed::Violation(k, d) => (true, format!("[{k}] expected: no panic, and an accepted value prints to a string parsing back to it; observed: {d}")),
                Parsed::Rejected => (false, format!("{ty}::from_str({input:?}) is rejected without panic")),
                Parsed::Accepted(p) => (false, format!("{ty}::from_str({input:?}) accepted, prints as {p:?}, which parses back to the same value")),
            })
        }
        "print" => {
            let names = key_names(true);
            let name = *names.get(w["name_index"].as_u64().ok_or("name_index")? as usize).ok_or("name_index out of range")?;
            let bits = w["bits"].as_u64().ok_or("bits")? as u32;
            Ok(match catch(|| Key::new(name, KeyMod::from_bits(bits)).to_string()) {
                Err(p) => (true, format!("printing key (name #{}, modifier bits {bits}) panicked: {}", w["name_index"], p.message)),
                Ok(s) => (false, format!("prints as {s:?} without panic")),
            })
        }
        other => Err(format!("unknown witness kind {other}")),
    }
}
