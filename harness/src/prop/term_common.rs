//! Shared machinery for C16(b) and C17: the real `UnixTerminal` (`SystemTerminal`) on a real
//! pseudo-terminal, with every environment answer owned by the harness through hook H2
//! (`surf_n_term::unix_verif`): what `select` reports, how many bytes `write` accepts, what
//! `read` returns, the clock, and at which system-call boundary a wake-up, a signal, an input
//! chunk or a hang-up lands. Executions are enumerated by `engine::devdfs` with a bound on the
//! number of departures from the cooperative default.
use crate::engine::devdfs::Choices;
use serde_json::{json, Value};
use std::cell::RefCell;
use std::collections::VecDeque;
use std::io::Write;
use std::os::fd::{AsRawFd, FromRawFd, OwnedFd, RawFd};
use std::rc::Rc;
use std::time::Duration;
use surf_n_term::encoder::{Encoder, TTYEncoder};
use surf_n_term::unix_verif::{self, Env};
use surf_n_term::{Error, Position, SystemTerminal, Terminal, TerminalCaps, TerminalCommand, TerminalEvent, TerminalWaker};

// ------------------------------------------------------------------ session description

#[derive(Debug, Clone, PartialEq)]
pub enum Inject {
    Wake,
    /// n waker calls in a row (from other threads, while nobody is polling)
    WakeBurst(usize),
    Winch,
    Term,
    Input(Vec<u8>),
    Hangup,
}

impl Inject {
    fn kind(&self) -> &'static str {
        match self {
            Inject::Wake | Inject::WakeBurst(_) => "wake",
            Inject::Winch => "winch",
            Inject::Term => "term",
            Inject::Input(_) => "input",
            Inject::Hangup => "hangup",
        }
    }
}

#[derive(Debug, Clone)]
pub enum Act {
    /// write `n` payload bytes (running counter pattern) with `Write::write_all`
    Write(usize),
    Exec(TerminalCommand),
    Flush,
    /// poll with timeout in (virtual) milliseconds, None = infinite
    Poll(Option<u64>),
    FramesDrop,
    /// the environment event happens now (between two application calls)
    Arrive(Inject),
    /// the event arrives when the poll loop would otherwise block for ever
    Schedule(Inject),
    /// `Terminal::run_render` with a scripted handler: step i draws `ch` at (0, col) and
    /// returns the action
    RunRender(Vec<RenderStep>),
    /// `Terminal::position()`: cursor query + DA1 as sync event, blocking polls in between
    QueryPosition,
    /// execute `TerminalCommand::Image` for the session's test image at (1, 2)
    DrawImage,
    /// `execute_many([CursorTo, Char, Image, Char, ImageErase, Char])`: one batch with image commands between others
    ExecManyWithImage,
    /// the terminal answers the last image placement with an error (kitty graphics response)
    ImageError,
}

#[derive(Debug, Clone, Copy, PartialEq, Eq)]
pub enum RenderAction {
    Wait,
    WaitNoFrame,
    Sleep0,
    Quit,
}

#[derive(Debug, Clone, Copy)]
pub struct RenderStep {
    pub ch: char,
    pub col: usize,
    pub action: RenderAction,
}

#[derive(Debug, Clone)]
pub struct Session {
    pub name: &'static str,
    pub acts: Vec<Act>,
    /// injections the explorer may place at ANY choice point (kind, how many times)
    pub allowed: Vec<(Inject, usize)>,
    /// default environment: the tty is not writable during the first n `select` calls
    pub stall_selects: usize,
    /// TERM=xterm: the constructor probes the terminal; the peer answers the size query (cells and
    /// pixels) and DA1 only and the pty reports no pixel size, so the terminal object learns its
    /// size through escape sequences and asks again (from inside the poll loop) on SIGWINCH
    pub probe: bool,
    /// (with `probe`) the peer also answers the kitty graphics query, so the terminal object uses
    /// the kitty image handler
    pub kitty: bool,
}

// ------------------------------------------------------------------ kernel model (Env)

pub struct Shared {
    pub choices: Choices,
    pub tty_fd: RawFd,
    pub out: Vec<u8>,
    pub input: VecDeque<u8>,
    pub scheduled: VecDeque<Inject>,
    pub allowed: Vec<(Inject, usize)>,
    pub hangup: bool,
    pub now: Duration,
    pub calls: usize,
    pub horizon: usize,
    pub horizon_hit: bool,
    pub deadlock: bool,
    pub waker: Option<TerminalWaker>,
    /// (kind, number of polls completed when it was injected, input bytes)
    pub injected: Vec<(Inject, usize)>,
    pub polls_completed: usize,
    pub log: Vec<String>,
    pub verbose: bool,
    /// (query, reply, answered so far)
    replies: Vec<(Vec<u8>, Vec<u8>, usize)>,
    /// rows of the window the peer shows (24 at first, one more with every window-size signal)
    window_rows: usize,
    /// deviations are explored only once the terminal object has been constructed
    pub explore: bool,
    pub env_active: bool,
    pub in_release: bool,
    pub stall_selects: usize,
}

impl Shared {
    fn logf(&mut self, s: impl FnOnce() -> String) {
        if self.verbose {
            let l = s();
            self.log.push(l);
        }
    }

    pub fn perform(&mut self, inj: &Inject) {
        // events that arrive while the terminal is being released cannot be delivered to anybody
        let at = if self.in_release { usize::MAX } else { self.polls_completed };
        self.injected.push((inj.clone(), at));
        self.logf(|| format!("  [env] inject {:?}", inj));
        match inj {
            Inject::Wake => {
                if let Some(w) = &self.waker {
                    let _ = w.wake();
                }
            }
            Inject::WakeBurst(n) => {
                if let Some(w) = &self.waker {
                    for _ in 0..*n {
                        let _ = w.wake();
                    }
                }
            }
            Inject::Winch => {
                // the window really changes: one row more with every signal; a size request answered from now on
                // reports the new size
                self.window_rows += 1;
                let rows = self.window_rows;
                for r in self.replies.iter_mut() {
                    if r.0 == b"\x1b[18t\x1b[14t" {
                        r.1 = format!("\x1b[8;{rows};80t\x1b[4;{};800t", rows * 20).into_bytes();
                    }
                }
                unsafe {
                    libc::raise(libc::SIGWINCH);
                }
            }
            Inject::Term => unsafe {
                libc::raise(libc::SIGTERM);
            },
            Inject::Input(bytes) => self.input.extend(bytes.iter().copied()),
            Inject::Hangup => self.hangup = true,
        }
    }

    /// a point at which an environment event may land
    fn inject_point(&mut self, label: &'static str) {
        if !self.env_active {
            return;
        }
        let avail: Vec<usize> = self
            .allowed
            .iter()
            .enumerate()
            .filter(|(_, (_, n))| *n > 0)
            .map(|(i, _)| i)
            .collect();
        if avail.is_empty() {
            return;
        }
        if !self.explore {
            return;
        }
        let c = self.choices.choose(1 + avail.len(), label);
        if c > 0 {
            let i = avail[c - 1];
            self.allowed[i].1 -= 1;
            let inj = self.allowed[i].0.clone();
            self.perform(&inj);
        }
    }

    fn real_readable(fd: RawFd) -> bool {
        let mut p = libc::pollfd { fd, events: libc::POLLIN, revents: 0 };
        let r = unsafe { libc::poll(&mut p, 1, 0) };
        r > 0 && (p.revents & (libc::POLLIN | libc::POLLHUP)) != 0
    }

    /// the peer answers the queries it knows as soon as it has received them completely
    fn peer_reacts(&mut self) {
        if self.hangup {
            return;
        }
        let out = std::mem::take(&mut self.out);
        // answers are sent in the order in which the queries were received
        let mut due: Vec<(usize, usize)> = vec![];
        for (qi, (query, _, answered)) in self.replies.iter_mut().enumerate() {
            let mut count = 0;
            let mut i = 0;
            while i + query.len() <= out.len() {
                if &out[i..i + query.len()] == query.as_slice() {
                    count += 1;
                    if count > *answered {
                        due.push((i, qi));
                    }
                    i += query.len();
                } else {
                    i += 1;
                }
            }
            *answered = count.max(*answered);
        }
        due.sort();
        for (_, qi) in due {
            let reply = self.replies[qi].1.clone();
            self.input.extend(reply);
        }
        self.out = out;
    }
}

struct Kernel {
    sh: Rc<RefCell<Shared>>,
}

impl Env for Kernel {
    fn tty_write(&mut self, _fd: RawFd, buf: &[u8]) -> Option<std::io::Result<usize>> {
        let mut s = self.sh.borrow_mut();
        if !s.env_active {
            return None;
        }
        s.calls += 1;
        s.inject_point("before-write");
        let len = buf.len();
        // alternatives: all | 1 | half | len-1 | EAGAIN | EINTR (deduplicated)
        let mut alts: Vec<Result<usize, i32>> = vec![Ok(len)];
        for a in [1usize, (len + 1) / 2, len.saturating_sub(1)] {
            if a > 0 && a < len && !alts.contains(&Ok(a)) {
                alts.push(Ok(a));
            }
        }
        alts.push(Err(libc::EAGAIN));
        alts.push(Err(libc::EINTR));
        let c = if len == 0 || !s.explore { 0 } else { s.choices.choose(alts.len(), "write") };
        let res = match alts[c] {
            Ok(n) => {
                s.out.extend_from_slice(&buf[..n]);
                s.peer_reacts();
                Ok(n)
            }
            Err(e) => Err(std::io::Error::from_raw_os_error(e)),
        };
        s.logf(|| format!("  [env] write({} bytes) -> {:?}", len, res));
        Some(res)
    }

    fn tty_read(&mut self, _fd: RawFd, buf: &mut [u8]) -> Option<std::io::Result<usize>> {
        let mut s = self.sh.borrow_mut();
        if !s.env_active {
            return None;
        }
        s.calls += 1;
        s.inject_point("before-read");
        let avail = s.input.len().min(buf.len());
        let res = if avail == 0 {
            if s.hangup {
                Ok(0)
            } else {
                Err(std::io::Error::from_raw_os_error(libc::EAGAIN))
            }
        } else {
            // alternatives: all available | 1 byte | EAGAIN (spurious readiness) | EINTR
            let mut alts: Vec<Result<usize, i32>> = vec![Ok(avail)];
            if avail > 1 {
                alts.push(Ok(1));
            }
            alts.push(Err(libc::EAGAIN));
            alts.push(Err(libc::EINTR));
            let c = if s.explore { s.choices.choose(alts.len(), "read") } else { 0 };
            match alts[c] {
                Ok(n) => {
                    for b in buf.iter_mut().take(n) {
                        *b = s.input.pop_front().unwrap();
                    }
                    Ok(n)
                }
                Err(e) => Err(std::io::Error::from_raw_os_error(e)),
            }
        };
        s.logf(|| format!("  [env] read -> {:?}", res));
        Some(res)
    }

    fn select(
        &mut self,
        read: &[RawFd],
        write: &[RawFd],
        timeout: Option<Duration>,
    ) -> Option<std::io::Result<(Vec<RawFd>, Vec<RawFd>)>> {
        let mut s = self.sh.borrow_mut();
        if !s.env_active {
            return None;
        }
        s.calls += 1;
        if s.calls > s.horizon {
            s.horizon_hit = true;
            return Some(Err(std::io::Error::other("verif: horizon exceeded (livelock)")));
        }
        s.inject_point("before-select");
        let tty = s.tty_fd;
        let mut guard = 0;
        loop {
            guard += 1;
            let mut r: Vec<RawFd> = vec![];
            let mut w: Vec<RawFd> = vec![];
            for fd in read {
                if *fd == tty {
                    if !s.input.is_empty() || s.hangup {
                        r.push(*fd);
                    }
                } else if Shared::real_readable(*fd) {
                    r.push(*fd);
                }
            }
            let stalled = s.stall_selects > 0;
            if stalled && guard == 1 {
                s.stall_selects -= 1;
            }
            for fd in write {
                if *fd == tty && !stalled {
                    w.push(*fd);
                }
            }
            if r.is_empty() && w.is_empty() {
                match timeout {
                    Some(d) => {
                        s.now += d + Duration::from_micros(1);
                        s.logf(|| format!("  [env] select timeout after {:?}", d));
                        return Some(Ok((vec![], vec![])));
                    }
                    None => {
                        // would block for ever: the next scheduled external event arrives
                        match s.scheduled.pop_front() {
                            Some(ev) if guard < 8 => {
                                s.perform(&ev);
                                continue;
                            }
                            _ => {
                                s.deadlock = true;
                                s.logf(|| "  [env] select(None) with nothing ready and no event to come: DEADLOCK".to_string());
                                return Some(Err(std::io::Error::other("verif: deadlock")));
                            }
                        }
                    }
                }
            }
            // alternatives:
            //   0 report everything that is ready
            //   1 EINTR
            //   2 the tty is not writable for a while: if something else is ready only that is
            //     reported; otherwise the call returns later (half of the timeout, 1 ms if none)
            //   3 (finite timeout, not while the terminal is being released) the tty stays
            //     unwritable for the whole timeout
            let mut alts: Vec<u8> = vec![0, 1];
            if !w.is_empty() {
                alts.push(2);
                if r.is_empty() && timeout.is_some() && !s.in_release {
                    alts.push(3);
                }
            }
            let c = if s.explore { s.choices.choose(alts.len(), "select") } else { 0 };
            let res = match alts[c] {
                0 => Ok((r, w)),
                1 => Err(std::io::Error::from_raw_os_error(libc::EINTR)),
                2 => {
                    if r.is_empty() {
                        let d = timeout.map(|d| d / 2).unwrap_or(Duration::from_millis(1));
                        s.now += d;
                        Ok((r, w))
                    } else {
                        Ok((r, vec![]))
                    }
                }
                _ => {
                    if let Some(d) = timeout {
                        s.now += d + Duration::from_micros(1);
                    }
                    Ok((vec![], vec![]))
                }
            };
            s.logf(|| format!("  [env] select(timeout {:?}) -> {:?}", timeout, res));
            return Some(res);
        }
    }

    fn now(&mut self) -> Option<Duration> {
        let mut s = self.sh.borrow_mut();
        if !s.env_active {
            return None;
        }
        s.now += Duration::from_micros(1);
        Some(s.now)
    }

    fn point(&mut self, label: &'static str) {
        let mut s = self.sh.borrow_mut();
        let l: &'static str = match label {
            "signals" => "before-signals",
            "waker" => "before-waker",
            "input" => "before-input",
            _ => "point",
        };
        s.inject_point(l);
    }
}

// ------------------------------------------------------------------ expected output stream

#[derive(Debug, Clone)]
pub struct Chunk {
    pub bytes: Vec<u8>,
    /// the chunk may legitimately be missing (it had not started when frames were dropped)
    pub droppable: bool,
}

#[derive(Debug, Default)]
pub struct Expected {
    pub chunks: Vec<Chunk>,
    open: Vec<u8>,
}

impl Expected {
    fn append(&mut self, b: &[u8]) {
        self.open.extend_from_slice(b);
    }
    fn flush(&mut self) {
        if !self.open.is_empty() {
            self.chunks.push(Chunk { bytes: std::mem::take(&mut self.open), droppable: false });
        }
    }
    /// frames are dropped now; `out` is what has reached the tty so far
    fn drop_frames(&mut self, out: &[u8]) {
        // the open (un-flushed) tail is a chunk of its own for this purpose
        self.flush();
        match parse_stream(out, &self.chunks, false) {
            Ok(states) => {
                // every chunk after the last one that has (partly) been transmitted has not started
                let last_started = states
                    .iter()
                    // (a chunk of which nothing has been transmitted - the output ends exactly where it begins - has
                    // not started)
                    .rposition(|s| matches!(s, ChunkState::Present) || matches!(s, ChunkState::Partial(n) if *n > 0))
                    .map(|i| i + 1)
                    .unwrap_or(0);
                for c in self.chunks.iter_mut().skip(last_started) {
                    if !c.bytes.is_empty() {
                        c.droppable = true;
                    }
                }
            }
            Err(_) => {} // already wrong; the final check reports it
        }
    }
}

#[derive(Debug, Clone, Copy, PartialEq, Eq)]
pub enum ChunkState {
    Present,
    Absent,
    /// only the first n bytes have been transmitted (allowed only at the very end of `out`)
    Partial(usize),
}

/// Explain `out` as the concatenation, in order, of the expected chunks where droppable chunks
/// may be missing as a whole and (unless `complete`) the last transmitted chunk may be partial.
pub fn parse_stream(out: &[u8], chunks: &[Chunk], complete: bool) -> Result<Vec<ChunkState>, String> {
    fn rec(out: &[u8], chunks: &[Chunk], i: usize, pos: usize, complete: bool, acc: &mut Vec<ChunkState>, best: &mut (usize, usize)) -> bool {
        if pos > best.1 || (pos == best.1 && i > best.0) {
            *best = (i, pos);
        }
        if i == chunks.len() {
            return pos == out.len();
        }
        let c = &chunks[i];
        if out[pos..].starts_with(&c.bytes) {
            acc.push(ChunkState::Present);
            if rec(out, chunks, i + 1, pos + c.bytes.len(), complete, acc, best) {
                return true;
            }
            acc.pop();
        }
        if c.droppable || c.bytes.is_empty() {
            acc.push(ChunkState::Absent);
            if rec(out, chunks, i + 1, pos, complete, acc, best) {
                return true;
            }
            acc.pop();
        }
        if !complete {
            let rest = &out[pos..];
            if rest.len() < c.bytes.len() && c.bytes.starts_with(rest) {
                // in flight: nothing after it can have been transmitted
                acc.push(ChunkState::Partial(rest.len()));
                let n = acc.len();
                acc.extend(std::iter::repeat(ChunkState::Absent).take(chunks.len() - i - 1));
                let _ = n;
                return true;
            }
        }
        false
    }
    let mut acc = vec![];
    let mut best = (0usize, 0usize);
    if rec(out, chunks, 0, 0, complete, &mut acc, &mut best) {
        return Ok(acc);
    }
    let (i, pos) = best;
    let what = if i < chunks.len() {
        let c = &chunks[i];
        let common = out[pos..].iter().zip(c.bytes.iter()).take_while(|(a, b)| a == b).count();
        if pos + common >= out.len() {
            format!(
                "output ends after {} of {} bytes of chunk {i} although the tty kept accepting writes: bytes lost{}",
                common,
                c.bytes.len(),
                if c.droppable { " (torn frame: the chunk was dropped after it had started)" } else { "" }
            )
        } else {
            format!(
                "at offset {} (chunk {i}, byte {}) the tty received {:?} but the program wrote {:?}: lost, duplicated or reordered bytes{}",
                pos + common,
                common,
                crate::engine::util::esc(&out[pos + common..(pos + common + 8).min(out.len())]),
                crate::engine::util::esc(&c.bytes[common..(common + 8).min(c.bytes.len())]),
                if c.droppable && common > 0 { " (torn frame)" } else { "" }
            )
        }
    } else {
        format!("{} extra bytes after everything that was written: {:?}", out.len() - pos, crate::engine::util::esc(&out[pos..(pos + 16).min(out.len())]))
    };
    Err(what)
}

// ------------------------------------------------------------------ running one execution

pub struct Outcome {
    pub out: Vec<u8>,
    pub app_chunks: Vec<Chunk>,
    /// (poll index, result) for every poll the session made (including settle polls)
    pub events: Vec<(usize, Result<Option<TerminalEvent>, String>)>,
    pub injected: Vec<(Inject, usize)>,
    pub termios_restored: bool,
    /// rows of the peer's window at the end, and whether the terminal tracks the size by escape sequences
    pub final_rows: usize,
    pub escape_size: bool,
    pub deadlock: bool,
    pub horizon_hit: bool,
    pub hangup: bool,
    pub quit_seen: bool,
    pub log: Vec<String>,
    pub trace: Vec<crate::engine::devdfs::ChoicePoint>,
    pub construct_error: Option<String>,
    pub acts_done: usize,
    pub epilogue_from: usize,
    pub crashed: bool,
    /// for run_render sessions: what the last rendered frame drew (row 0)
    pub render_last: Option<Vec<(usize, char)>>,
    pub render_result: Option<String>,
    /// results of `position()` calls
    pub positions: Vec<Result<(usize, usize), String>>,
}

fn open_pty_px(pixels: bool) -> Result<(OwnedFd, OwnedFd), String> {
    let mut master: libc::c_int = -1;
    let mut slave: libc::c_int = -1;
    let ws = libc::winsize {
        ws_row: 24,
        ws_col: 80,
        ws_xpixel: if pixels { 800 } else { 0 },
        ws_ypixel: if pixels { 480 } else { 0 },
    };
    let r = unsafe { libc::openpty(&mut master, &mut slave, std::ptr::null_mut(), std::ptr::null(), &ws) };
    if r != 0 {
        return Err(format!("openpty failed: {}", std::io::Error::last_os_error()));
    }
    unsafe { Ok((OwnedFd::from_raw_fd(master), OwnedFd::from_raw_fd(slave))) }
}

fn termios_of(fd: RawFd) -> Option<Vec<u8>> {
    unsafe {
        let mut t: libc::termios = std::mem::zeroed();
        if libc::tcgetattr(fd, &mut t) != 0 {
            return None;
        }
        // compare the fields that matter (flags, control characters, speeds)
        let mut v = vec![];
        v.extend_from_slice(&t.c_iflag.to_le_bytes());
        v.extend_from_slice(&t.c_oflag.to_le_bytes());
        v.extend_from_slice(&t.c_cflag.to_le_bytes());
        v.extend_from_slice(&t.c_lflag.to_le_bytes());
        v.extend_from_slice(&t.c_cc);
        Some(v)
    }
}

fn open_pty() -> Result<(OwnedFd, OwnedFd), String> {
    open_pty_px(true)
}

pub fn payload(counter: &mut u32, n: usize) -> Vec<u8> {
    // printable, never ESC, so that it cannot be mistaken for a control sequence
    (0..n)
        .map(|_| {
            *counter = (*counter + 1) % 89;
            b'#' + (*counter as u8)
        })
        .collect()
}

pub fn test_image() -> (surf_n_term::Image, Position) {
    use surf_n_term::{SurfaceMut, SurfaceOwned, RGBA};
    let mut s = SurfaceOwned::new(surf_n_term::Size::new(3, 5));
    s.fill_with(|p, _| RGBA::new(p.row as u8 * 40, p.col as u8 * 30, 7, 255));
    (surf_n_term::Image::from(s), Position::new(1, 2))
}

/// one colour (the order of colours in a sixel band depends on the handler instance), six rows (one band)
pub fn test_image_sixel() -> (surf_n_term::Image, Position) {
    use surf_n_term::{SurfaceOwned, RGBA};
    let s = SurfaceOwned::new_with(surf_n_term::Size::new(6, 4), |_| RGBA::new(200, 40, 7, 255));
    (surf_n_term::Image::from(s), Position::new(1, 2))
}

pub fn prepare_process() {
    // no capability probing: the constructor must not talk to the terminal
    std::env::set_var("TERM", "dumb");
    std::env::remove_var("COLORTERM");
    std::env::remove_var("SURFNTERM");
}

/// Run `session` (its first `upto` acts, then settle polls unless `crash`) under `choices`.
pub fn execute(session: &Session, upto: usize, choices: Choices, verbose: bool) -> Result<Outcome, String> {
    std::env::set_var("TERM", if session.probe { "xterm" } else { "dumb" });
    let (master, slave) = open_pty_px(!session.probe)?;
    let slave_dup = unsafe { libc::dup(slave.as_raw_fd()) };
    let saved = termios_of(slave_dup).ok_or("tcgetattr on the pty failed")?;
    let tty_fd = slave.as_raw_fd();
    let sh = Rc::new(RefCell::new(Shared {
        choices,
        tty_fd,
        out: vec![],
        input: VecDeque::new(),
        scheduled: VecDeque::new(),
        allowed: session.allowed.clone(),
        hangup: false,
        now: Duration::from_secs(1000),
        calls: 0,
        horizon: 600,
        horizon_hit: false,
        deadlock: false,
        waker: None,
        injected: vec![],
        polls_completed: 0,
        log: vec![],
        verbose,
        // a "slow terminal" session scripts the answers to the cursor and device-attributes queries itself (they
        // arrive only when the program would otherwise wait for ever)
        replies: if session.name.contains("slow-terminal") {
            vec![(b"\x1b[18t\x1b[14t".to_vec(), b"\x1b[8;24;80t\x1b[4;480;800t".to_vec(), 0)]
        } else {
            vec![
                // a "sixel" session's terminal lists attribute 4 (sixel graphics) in its device attributes
                (b"\x1b[c".to_vec(), if session.name.contains("sixel") { b"\x1b[?62;4c".to_vec() } else { b"\x1b[?62;c".to_vec() }, 0),
                (b"\x1b[18t\x1b[14t".to_vec(), b"\x1b[8;24;80t\x1b[4;480;800t".to_vec(), 0),
                (b"\x1b[6n".to_vec(), b"\x1b[3;5R".to_vec(), 0),
            ]
        }
        .into_iter()
        .chain(if session.kitty {
            vec![(b"\x1b_Ga=q,i=31,s=1,v=1,f=24;AAAA\x1b\\".to_vec(), b"\x1b_Gi=31;OK\x1b\\".to_vec(), 0usize)]
        } else {
            vec![]
        })
        .collect(),
        window_rows: 24,
        explore: false,
        env_active: false,
        in_release: false,
        stall_selects: session.stall_selects,
    }));
    unix_verif::install(Box::new(Kernel { sh: sh.clone() }));
    let mut outcome = Outcome {
        out: vec![],
        app_chunks: vec![],
        events: vec![],
        injected: vec![],
        termios_restored: false,
        final_rows: 24,
        escape_size: false,
        deadlock: false,
        horizon_hit: false,
        hangup: false,
        quit_seen: false,
        log: vec![],
        trace: vec![],
        construct_error: None,
        acts_done: 0,
        epilogue_from: 0,
        crashed: upto < session.acts.len(),
        render_last: None,
        render_result: None,
        positions: vec![],
    };
    sh.borrow_mut().env_active = true;
    let term = SystemTerminal::new_from_fd(slave);
    let mut term = match term {
        Ok(t) => t,
        Err(e) => {
            unix_verif::uninstall();
            unsafe { libc::close(slave_dup) };
            drop(master);
            outcome.construct_error = Some(format!("{e:?}"));
            return Ok(outcome);
        }
    };
    sh.borrow_mut().waker = Some(term.waker());
    {
        // what the constructor exchanged with the terminal (capability probing) is not part of
        // the session; exploration of deviations starts here
        let mut s = sh.borrow_mut();
        if s.verbose {
            let n = s.out.len();
            s.log.push(format!("constructed (probing exchanged {n} bytes)"));
        }
        s.out.clear();
        for r in s.replies.iter_mut() {
            r.2 = 0;
        }
        s.explore = true;
    }
    let mut expected = Expected::default();
    let mut enc = TTYEncoder::new(TerminalCaps {
        depth: surf_n_term::encoder::ColorDepth::Gray,
        ..TerminalCaps::default()
    });
    let mut counter = 0u32;
    let mut poll_index = 0usize;
    let mut stop = false;
    let sixel = session.name.contains("sixel");
    let mut shadow_handler: Box<dyn surf_n_term::ImageHandler> =
        if sixel { Box::new(surf_n_term::SixelImageHandler::new(None)) } else { Box::new(surf_n_term::KittyImageHandler::new()) };
    let mut last_image_bytes: Vec<u8> = vec![];
    let mut pending_redraw: Option<Vec<u8>> = None;
    let do_poll = |term: &mut SystemTerminal, expected: &mut Expected, t: Option<Duration>, poll_index: &mut usize, outcome: &mut Outcome, stop: &mut bool| {
        expected.flush();
        sh.borrow_mut().logf(|| format!("poll({:?})", t));
        let res = term.poll(t);
        let idx = *poll_index;
        *poll_index += 1;
        sh.borrow_mut().polls_completed = *poll_index;
        match res {
            Ok(ev) => {
                sh.borrow_mut().logf(|| format!("  -> {:?}", ev));
                outcome.events.push((idx, Ok(ev)));
            }
            Err(Error::Quit) => {
                sh.borrow_mut().logf(|| "  -> Err(Quit)".to_string());
                outcome.events.push((idx, Err("Quit".into())));
                outcome.quit_seen = true;
                *stop = true;
            }
            Err(e) => {
                sh.borrow_mut().logf(|| format!("  -> Err({e:?})"));
                outcome.events.push((idx, Err(format!("{e:?}"))));
                *stop = true;
            }
        }
    };
    for act in session.acts.iter().take(upto) {
        if stop {
            break;
        }
        outcome.acts_done += 1;
        match act {
            Act::Write(n) => {
                let b = payload(&mut counter, *n);
                sh.borrow_mut().logf(|| format!("write({} bytes)", b.len()));
                let _ = term.write_all(&b);
                expected.append(&b);
            }
            Act::Exec(cmd) => {
                let mut b = vec![];
                let _ = enc.encode(&mut b, cmd.clone());
                sh.borrow_mut().logf(|| format!("execute({:?})", cmd));
                let _ = term.execute(cmd.clone());
                expected.append(&b);
            }
            Act::Flush => {
                let _ = term.flush();
                expected.flush();
            }
            Act::Poll(t) => do_poll(&mut term, &mut expected, t.map(Duration::from_millis), &mut poll_index, &mut outcome, &mut stop),
            Act::FramesDrop => {
                let out_now = sh.borrow().out.clone();
                sh.borrow_mut().logf(|| format!("frames_drop() with {} bytes transmitted", out_now.len()));
                expected.drop_frames(&out_now);
                term.frames_drop();
            }
            Act::Arrive(inj) => {
                let inj = inj.clone();
                sh.borrow_mut().perform(&inj);
            }
            Act::Schedule(inj) => sh.borrow_mut().scheduled.push_back(inj.clone()),
            Act::QueryPosition => {
                expected.append(b"\x1b[6n\x1b[c");
                expected.flush();
                sh.borrow_mut().logf(|| "position()".to_string());
                let r = term.position();
                sh.borrow_mut().logf(|| format!("  -> {:?}", r.as_ref().map_err(|e| format!("{e:?}"))));
                match r {
                    Ok(p) => outcome.positions.push(Ok((p.row, p.col))),
                    Err(Error::Quit) => {
                        outcome.positions.push(Err("Quit".into()));
                        outcome.quit_seen = true;
                        stop = true;
                    }
                    Err(e) => {
                        outcome.positions.push(Err(format!("{e:?}")));
                        stop = true;
                    }
                }
            }
            Act::DrawImage => {
                let (img, pos) = if sixel { test_image_sixel() } else { test_image() };
                let mut b = vec![];
                let _ = surf_n_term::ImageHandler::draw(&mut shadow_handler, &mut b, &img, pos);
                sh.borrow_mut().logf(|| format!("execute(Image) -> {} bytes expected", b.len()));
                let _ = term.execute(TerminalCommand::Image(img, pos));
                expected.append(&b);
                last_image_bytes = b;
            }
            Act::ExecManyWithImage => {
                let (img, pos) = test_image();
                let before = [TerminalCommand::CursorTo(Position::new(1, 2)), TerminalCommand::Char('p')];
                let between = [TerminalCommand::Char('q')];
                let after = [TerminalCommand::Char('r')];
                let mut b = vec![];
                for c in &before {
                    let _ = enc.encode(&mut b, c.clone());
                }
                let _ = surf_n_term::ImageHandler::draw(&mut shadow_handler, &mut b, &img, pos);
                for c in &between {
                    let _ = enc.encode(&mut b, c.clone());
                }
                let _ = surf_n_term::ImageHandler::erase(&mut shadow_handler, &mut b, &img, Some(pos));
                for c in &after {
                    let _ = enc.encode(&mut b, c.clone());
                }
                sh.borrow_mut().logf(|| format!("execute_many(6 commands incl. Image and ImageErase) -> {} bytes expected", b.len()));
                let mut cmds: Vec<TerminalCommand> = before.to_vec();
                cmds.push(TerminalCommand::Image(img.clone(), pos));
                cmds.extend(between.iter().cloned());
                cmds.push(TerminalCommand::ImageErase(img, Some(pos)));
                cmds.extend(after.iter().cloned());
                let _ = term.execute_many(cmds);
                expected.append(&b);
            }
            Act::ImageError => {
                // the response names the id / placement of the last put, as the terminal would
                let text = String::from_utf8_lossy(&last_image_bytes).to_string();
                let field = |k: &str| -> Option<u64> {
                    let at = text.rfind(&format!("{k}="))?;
                    text[at + k.len() + 1..].split(|c: char| !c.is_ascii_digit()).next()?.parse().ok()
                };
                if let (Some(i), Some(pl)) = (field("i"), field("p")) {
                    let resp = format!("\x1b_Gi={i},p={pl};ENOENT:image not found\x1b\\");
                    // what the handler must send in answer: computed with the shadow handler
                    let mut b = vec![];
                    let _ = surf_n_term::ImageHandler::handle(
                        &mut shadow_handler,
                        &mut b,
                        &TerminalEvent::KittyImage { id: i, placement: Some(pl), error: Some("ENOENT:image not found".into()) },
                    );
                    pending_redraw = Some(b);
                    sh.borrow_mut().perform(&Inject::Input(resp.into_bytes()));
                }
            }
            Act::RunRender(steps) => {
                use surf_n_term::{Cell, Face, SurfaceMut, TerminalAction};
                let mut i = 0usize;
                let mut last: Option<Vec<(usize, char)>> = None;
                let shc = sh.clone();
                let res = term.run_render(|_term, event, mut view| -> Result<TerminalAction<()>, Error> {
                    let step = steps.get(i).copied().unwrap_or(RenderStep { ch: '!', col: 0, action: RenderAction::Quit });
                    shc.borrow_mut().logf(|| format!("handler call {i}: event {:?} -> draw {:?}@{} then {:?}", event, step.ch, step.col, step.action));
                    i += 1;
                    view.set(Position::new(0, step.col), Cell::new_char(Face::default(), step.ch));
                    if step.action != RenderAction::WaitNoFrame {
                        last = Some(vec![(step.col, step.ch)]);
                    }
                    Ok(match step.action {
                        RenderAction::Wait => TerminalAction::Wait,
                        RenderAction::WaitNoFrame => TerminalAction::WaitNoFrame,
                        RenderAction::Sleep0 => TerminalAction::Sleep(Duration::from_millis(0)),
                        RenderAction::Quit => TerminalAction::Quit(()),
                    })
                });
                sh.borrow_mut().logf(|| format!("run_render -> {:?}", res.as_ref().map_err(|e| format!("{e:?}"))));
                outcome.render_result = Some(match &res {
                    Ok(()) => "ok".to_string(),
                    Err(Error::Quit) => {
                        outcome.quit_seen = true;
                        "Quit".to_string()
                    }
                    Err(e) => format!("{e:?}"),
                });
                // the error path renders a cleanup frame: an empty screen
                outcome.render_last = if res.is_ok() { last } else { Some(vec![]) };
                if res.is_err() {
                    stop = true;
                }
            }
        }
    }
    let crash = upto < session.acts.len();
    let redraw_chunk = pending_redraw.take();
    if !stop && !crash {
        // settle: drain events and output cooperatively (the explorer may still deviate)
        for _ in 0..40 {
            if stop {
                break;
            }
            let before = outcome.events.len();
            let injected_before = sh.borrow().injected.len();
            do_poll(&mut term, &mut expected, Some(Duration::from_millis(0)), &mut poll_index, &mut outcome, &mut stop);
            let last_none = matches!(outcome.events.get(before), Some((_, Ok(None))));
            // an event that landed during this poll is owed to the *next* poll
            // ... and so is input that the kernel still holds (e.g. after a spurious EAGAIN)
            let quiet = sh.borrow().injected.len() == injected_before && sh.borrow().input.is_empty();
            if last_none && quiet && term.frames_pending() == 0 {
                break;
            }
        }
    }
    if let Some(b) = redraw_chunk {
        // written by the image handler from inside the poll loop once the error response was read
        expected.flush();
        let settled = !stop && !crash && sh.borrow().input.is_empty();
        expected.chunks.push(Chunk { bytes: b, droppable: !settled });
    }
    // release the terminal (normally, after an error, after a quit, or at a crash point)
    {
        expected.flush();
        let out_now = sh.borrow().out.clone();
        expected.drop_frames(&out_now); // dispose drops frames that have not started
        outcome.epilogue_from = out_now.len();
        sh.borrow_mut().logf(|| "drop(terminal)".to_string());
        sh.borrow_mut().in_release = true;
    }
    drop(term);
    unix_verif::uninstall();
    let restored = termios_of(slave_dup);
    outcome.termios_restored = restored.as_ref() == Some(&saved);
    unsafe { libc::close(slave_dup) };
    drop(master);
    let mut s = sh.borrow_mut();
    s.env_active = false;
    outcome.out = std::mem::take(&mut s.out);
    outcome.app_chunks = expected.chunks;
    outcome.injected = std::mem::take(&mut s.injected);
    outcome.deadlock = s.deadlock;
    outcome.horizon_hit = s.horizon_hit;
    outcome.hangup = s.hangup;
    outcome.final_rows = s.window_rows;
    outcome.escape_size = session.probe;
    outcome.log = std::mem::take(&mut s.log);
    outcome.trace = std::mem::take(&mut s.choices.trace);
    Ok(outcome)
}

pub fn trace_json(trace: &[crate::engine::devdfs::ChoicePoint]) -> Value {
    json!(trace.iter().map(|c| json!([c.label, c.chosen, c.alts])).collect::<Vec<_>>())
}

// ------------------------------------------------------------------ oracles

/// C16: everything written reaches the tty in order exactly once; drops are whole chunks that
/// had not started.
pub fn c16_problems(o: &Outcome) -> Vec<(String, String)> {
    let mut p = vec![];
    if let Some(e) = &o.construct_error {
        p.push(("construct".into(), format!("terminal construction failed: {e}")));
        return p;
    }
    // the application part of the stream is everything before the closing sequence; the closing
    // sequence itself is one more chunk whose exact bytes are not judged here
    let complete = !o.hangup && !o.deadlock && !o.horizon_hit;
    let app = &o.out[..o.app_end()];
    if let Some(last) = &o.render_last {
        // run_render session: the chunk list is the renderer's business; judge structure and outcome
        p.extend(render_stream_problems(app, last, complete && !o.crashed));
        if o.horizon_hit {
            p.push(("livelock".into(), "more than the horizon of system calls without finishing (livelock)".into()));
        }
        return p;
    }
    // output the terminal produces itself when a window-size signal arrives and the size is tracked by escape
    // sequences (the size request): it may appear between two chunks, never inside one
    const SIZE_REQUEST: &[u8] = b"\x1b[18t\x1b[14t";
    let mut stripped: Vec<u8> = Vec::with_capacity(app.len());
    let mut request_at: Vec<usize> = vec![];
    if o.injected.iter().any(|(i, at)| matches!(i, Inject::Winch) && *at != usize::MAX) {
        let mut i = 0;
        while i < app.len() {
            if app[i..].starts_with(SIZE_REQUEST) {
                request_at.push(stripped.len());
                i += SIZE_REQUEST.len();
            } else {
                stripped.push(app[i]);
                i += 1;
            }
        }
    } else {
        stripped.extend_from_slice(app);
    }
    let app = &stripped[..];
    if !request_at.is_empty() {
        if let Ok(states) = parse_stream(app, &o.app_chunks, complete) {
            let mut boundaries = vec![0usize];
            let mut pos = 0usize;
            for (c, st) in o.app_chunks.iter().zip(states.iter()) {
                match st {
                    ChunkState::Present => pos += c.bytes.len(),
                    ChunkState::Partial(n) => pos += n,
                    ChunkState::Absent => {}
                }
                boundaries.push(pos);
            }
            for at in &request_at {
                if !boundaries.contains(at) {
                    p.push(("torn-frame".into(), format!("the terminal's own size request was written {at} bytes into the application's output, inside a chunk (chunk boundaries at {:?}): torn frame", boundaries)));
                    break;
                }
            }
        }
    }
    if let Err(what) = parse_stream(app, &o.app_chunks, complete) {
        let kind = if what.contains("torn") {
            "torn-frame"
        } else if what.contains("bytes lost") {
            "bytes-lost"
        } else if what.contains("extra bytes") {
            "extra-bytes"
        } else {
            "stream-mismatch"
        };
        p.push((kind.into(), what));
    }
    if o.horizon_hit {
        p.push(("livelock".into(), "more than 600 system calls without finishing (livelock)".into()));
    }
    p
}

impl Outcome {
    /// where the application's output ends and the closing sequence (written by the release
    /// path) begins: the release path starts with the face reset `ESC [ 0 m`
    pub fn app_end(&self) -> usize {
        let from = self.epilogue_from.min(self.out.len());
        let needle = b"\x1b[0m\x1b[?25h";
        if let Some(i) = self.out[from..].windows(needle.len()).position(|w| w == needle) {
            return from + i;
        }
        // the closing sequence may have been cut short: a proper prefix of it at the very end
        for k in (1..needle.len()).rev() {
            if self.out.len() >= from + k && self.out[self.out.len() - k..] == needle[..k] {
                return self.out.len() - k;
            }
        }
        self.out.len()
    }
}

/// C17: wake-ups and signals are not lost, input order, quit, tty restored, epilogue delivered.
pub fn c17_problems(o: &Outcome, expect_events: &dyn Fn(&[u8]) -> Vec<TerminalEvent>) -> Vec<(String, String)> {
    let mut p = vec![];
    if o.construct_error.is_some() {
        return p;
    }
    let crashed_early = false;
    let _ = crashed_early;
    let ended_by_error = o.events.iter().any(|(_, r)| r.is_err());
    // what was still pending when the session was cut short is not demanded
    let settled = !ended_by_error && !o.deadlock && !o.horizon_hit;
    if o.deadlock {
        p.push((
            "blocked-forever".into(),
            "a poll blocked with no descriptor that could ever become ready although an event was pending".into(),
        ));
    }
    let last_of = |k: &str| {
        o.injected
            .iter()
            .filter(|(i, at)| i.kind() == k && *at != usize::MAX)
            .map(|(_, at)| *at)
            .max()
    };
    let complete_session = o.acts_done > 0 && settled && !o.crashed;
    if complete_session {
        if let Some(at) = last_of("wake") {
            let ok = o
                .events
                .iter()
                .any(|(idx, r)| *idx >= at && matches!(r, Ok(Some(TerminalEvent::Wake))));
            if !ok {
                p.push((
                    "wake-lost".into(),
                    format!("a wake request issued when {at} polls had completed was never followed by a Wake event (events: {:?})", o.events),
                ));
            }
        }
        if let Some(at) = last_of("winch") {
            let ok = o
                .events
                .iter()
                .any(|(idx, r)| *idx >= at && matches!(r, Ok(Some(TerminalEvent::Resize(_)))));
            if !ok {
                p.push((
                    "winch-lost".into(),
                    format!("SIGWINCH raised when {at} polls had completed was never followed by a Resize event (events: {:?})", o.events),
                ));
            } else if o.escape_size && !o.hangup {
                // the window grows by one row with every signal and the terminal learns its size by asking: the last
                // Resize delivered after the last signal must carry the size the window has now - an older report
                // that was already on its way does not describe the window after the last change
                // (signals that arrive while the terminal is being released are owed to nobody)
                let rows_now = 24 + o.injected.iter().filter(|(i, at)| matches!(i, Inject::Winch) && *at != usize::MAX).count();
                let last = o.events.iter().rev().find_map(|(_, r)| match r {
                    Ok(Some(TerminalEvent::Resize(size))) => Some(size.cells.height),
                    _ => None,
                });
                if last != Some(rows_now) {
                    p.push((
                        "winch-stale-size".into(),
                        format!(
                            "the window was resized {} time(s) and has {} rows now; the last Resize event delivered says {:?} rows: the last window-size signal was not followed by a size the window had after it (events: {:?})",
                            rows_now - 24, rows_now, last, o.events
                        ),
                    ));
                }
            }
        }
    }
    if let Some(at) = last_of("term") {
        let ok = o.events.iter().any(|(idx, r)| *idx >= at && matches!(r, Err(e) if e == "Quit"));
        // the session may have been cut at a crash point before any further poll
        let polled_after = o.events.iter().any(|(idx, _)| *idx >= at);
        if !ok && polled_after && complete_session {
            p.push((
                "term-lost".into(),
                format!("SIGTERM raised when {at} polls had completed did not surface as a quit error (events: {:?})", o.events),
            ));
        }
    }
    // input: events decoded from the injected bytes, in order, none lost
    let all_input: Vec<u8> = o
        .injected
        .iter()
        .filter_map(|(i, at)| match i {
            Inject::Input(b) if *at != usize::MAX => Some(b.clone()),
            _ => None,
        })
        .flatten()
        .collect();
    let got: Vec<TerminalEvent> = o
        .events
        .iter()
        .filter_map(|(_, r)| match r {
            Ok(Some(ev)) if !matches!(ev, TerminalEvent::Wake | TerminalEvent::Resize(_) | TerminalEvent::Size(_) | TerminalEvent::DeviceAttrs(_) | TerminalEvent::CursorPosition(_)) => Some(ev.clone()),
            _ => None,
        })
        .collect();
    // graphics responses are consumed by the image handler, they are not owed to the application
    // ... and reports (cursor position, device attributes, sizes) are answers to the terminal object's own queries,
    // consumed by whoever asked
    let want: Vec<TerminalEvent> = expect_events(&all_input)
        .into_iter()
        .filter(|e| !matches!(e, TerminalEvent::KittyImage { .. } | TerminalEvent::Size(_) | TerminalEvent::DeviceAttrs(_) | TerminalEvent::CursorPosition(_)))
        .collect();
    let got: Vec<TerminalEvent> = got.into_iter().filter(|e| !matches!(e, TerminalEvent::KittyImage { .. })).collect();
    if complete_session {
        if got != want {
            p.push((
                "input-events".into(),
                format!("input {:?} should yield {:?} in this order, polls returned {:?}", crate::engine::util::esc(&all_input), want, got),
            ));
        }
    } else if !want.starts_with(&got) && !got.is_empty() {
        // cut short: what was delivered must still be a prefix
        p.push((
            "input-events".into(),
            format!("input {:?}: delivered {:?} is not a prefix of {:?}", crate::engine::util::esc(&all_input), got, want),
        ));
    }
    // spurious quit: a quit error without termination signal or hang-up
    let quit_cause = o.injected.iter().any(|(i, _)| matches!(i, Inject::Term | Inject::Hangup));
    if o.quit_seen && !quit_cause {
        p.push((
            "spurious-quit".into(),
            "poll returned the quit error although no termination signal was raised and the tty was not hung up".into(),
        ));
    }
    for (_, r) in &o.events {
        if let Err(e) = r {
            if e != "Quit" && !o.deadlock && !o.horizon_hit {
                p.push(("poll-error".into(), format!("poll returned an error: {e}")));
            }
        }
    }
    for r in &o.positions {
        match r {
            Ok((2, 4)) => {}
            Ok(other) => p.push(("position".into(), format!("the terminal reported the cursor at row 3, column 5 but position() returned {:?}", other))),
            Err(e) if e == "Quit" => {}
            Err(e) => {
                if !o.deadlock && !o.horizon_hit {
                    p.push(("position-error".into(), format!("position() failed: {e}")))
                }
            }
        }
    }
    // release
    if !o.termios_restored {
        p.push(("termios".into(), "line settings after release differ from those found when the tty was opened".into()));
    }
    if !o.hangup && !o.deadlock && !o.horizon_hit {
        let tail = &o.out[o.epilogue_from.min(o.out.len())..];
        let has = |needle: &[u8]| tail.windows(needle.len()).any(|w| w == needle);
        let missing: Vec<&str> = [
            ("\x1b[?25h", "show cursor"),
            ("\x1b[?1000l", "mouse report off"),
            ("\x1b[?1003l", "mouse motion off"),
            ("\x1b[?1006l", "mouse SGR off"),
        ]
        .iter()
        .filter(|(seq, _)| !has(seq.as_bytes()))
        .map(|(_, n)| *n)
        .collect();
        if !missing.is_empty() {
            p.push((
                "epilogue".into(),
                format!(
                    "the tty accepted writes until the end but the closing sequence is incomplete: missing {:?} (bytes after the application output: {:?})",
                    missing,
                    crate::engine::util::esc(tail)
                ),
            ));
        }
    }
    p
}

pub fn _unused(_: Position) {}

// ------------------------------------------------------------------ sessions

fn inp(s: &[u8]) -> Inject {
    Inject::Input(s.to_vec())
}

pub fn sessions_c16() -> Vec<Session> {
    use Act::*;
    let mut v = vec![];
    v.push(Session { name: "write-poll", acts: vec![Write(5), Poll(Some(0))], allowed: vec![], stall_selects: 0, probe: false, kitty: false });
    v.push(Session {
        name: "two-frames",
        acts: vec![Write(1), Flush, Write(5), Flush, Poll(Some(0)), Poll(Some(0))],
        allowed: vec![],
        stall_selects: 0,
        probe: false,
        kitty: false,
    });
    v.push(Session {
        name: "exec-mix",
        acts: vec![
            Exec(TerminalCommand::CursorTo(Position::new(1, 2))),
            Exec(TerminalCommand::Char('x')),
            Write(3),
            Poll(Some(0)),
        ],
        allowed: vec![],
        stall_selects: 0,
        probe: false,
        kitty: false,
    });
    v.push(Session { name: "big-write", acts: vec![Write(200 * 1024), Poll(Some(0)), Poll(Some(0))], allowed: vec![], stall_selects: 0, probe: false, kitty: false });
    v.push(Session {
        name: "drop-after-partial",
        acts: vec![Write(6), Flush, Write(4), Flush, Write(3), Poll(Some(0)), FramesDrop, Write(2), Poll(Some(0))],
        allowed: vec![],
        stall_selects: 0,
        probe: false,
        kitty: false,
    });
    v.push(Session {
        name: "drop-many",
        acts: vec![Write(2), Flush, Write(2), Flush, Write(2), Flush, Write(2), Flush, FramesDrop, Write(3), Poll(Some(0))],
        allowed: vec![],
        stall_selects: 0,
        probe: false,
        kitty: false,
    });
    let mut many = vec![];
    for _ in 0..34 {
        many.push(Write(1));
        many.push(Flush);
    }
    many.push(FramesDrop);
    many.push(Poll(Some(0)));
    v.push(Session { name: "drop-34-frames", acts: many, allowed: vec![], stall_selects: 0, probe: false, kitty: false });
    v.push(Session {
        name: "poll-finite",
        acts: vec![Write(5), Poll(Some(5)), Write(2), Poll(Some(5))],
        allowed: vec![],
        stall_selects: 0,
        probe: false,
        kitty: false,
    });
    v.push(Session {
        name: "poll-blocking",
        acts: vec![Write(3), Schedule(inp(b"a")), Poll(None), Write(2), Poll(Some(0))],
        allowed: vec![],
        stall_selects: 0,
        probe: false,
        kitty: false,
    });
    v.push(Session {
        name: "interleaved",
        acts: vec![
            Write(4),
            Poll(Some(0)),
            Exec(TerminalCommand::Char('y')),
            Flush,
            Write(2),
            Poll(Some(0)),
            FramesDrop,
            Poll(Some(0)),
        ],
        allowed: vec![],
        stall_selects: 0,
        probe: false,
        kitty: false,
    });
    {
        use RenderAction::*;
        let st = |ch: char, col: usize, action: RenderAction| RenderStep { ch, col, action };
        v.push(Session {
            name: "render-basic",
            acts: vec![
                Schedule(inp(b"x")),
                Schedule(inp(b"y")),
                RunRender(vec![st('a', 0, Wait), st('b', 1, WaitNoFrame), st('c', 2, Sleep0), st('d', 0, Quit)]),
            ],
            allowed: vec![],
            stall_selects: 0,
            probe: false,
            kitty: false,
        });
        // the tty does not accept anything while 36 frames are produced: the render loop drops
        // pending frames (more than 32 pending), then the tty opens up
        let mut steps: Vec<RenderStep> = (0..36).map(|i| st((b'a' + (i % 26) as u8) as char, i, Sleep0)).collect();
        steps.push(st('Y', 40, Wait));
        steps.push(st('Z', 41, Quit));
        v.push(Session {
            name: "render-drop-frames",
            acts: vec![Schedule(inp(b"q")), RunRender(steps)],
            allowed: vec![],
            stall_selects: 38,
            probe: false,
            kitty: false,
        });
    }
    v.push(Session {
        name: "output-with-input",
        acts: vec![Write(4), Arrive(inp(b"k")), Poll(Some(0)), Write(3), Poll(Some(0))],
        allowed: vec![(Inject::Wake, 1)], stall_selects: 0, probe: false, kitty: false });
    // output produced by a command handler that writes to the queue on the program's behalf (the kitty image
    // handler: transmission + placement) belongs to the program's frame like any other output: frames are
    // delimited by the program's flushes and polls only
    v.push(Session {
        name: "image-in-frame-then-drop",
        acts: vec![DrawImage, Write(6), FramesDrop, Write(2), Poll(Some(0)), Poll(Some(0))],
        allowed: vec![],
        stall_selects: 0,
        probe: true,
        kitty: true,
    });
    // the window size is tracked by escape sequences (no pixel size from the ioctl): a window-size signal makes the
    // terminal itself produce output (the size request), which must queue up behind the program's output
    v.push(Session {
        name: "size-request-behind-output",
        acts: vec![Write(8), Poll(Some(0)), Write(3), Poll(Some(0)), Poll(Some(0))],
        allowed: vec![(Inject::Winch, 1)],
        stall_selects: 0,
        probe: true,
        kitty: false,
    });
    // the sixel handler (chosen because the terminal lists sixel graphics in its device attributes) serves the second
    // draw of an image from its cache: that, too, is part of the frame the program is composing
    v.push(Session {
        name: "sixel-cached-image-in-frame-then-drop",
        acts: vec![DrawImage, Poll(Some(0)), Poll(Some(0)), DrawImage, Write(6), FramesDrop, Write(2), Poll(Some(0)), Poll(Some(0))],
        allowed: vec![],
        stall_selects: 0,
        probe: true,
        kitty: false,
    });
    v.push(Session {
        name: "batch-with-image",
        acts: vec![Write(2), ExecManyWithImage, Write(3), Poll(Some(0)), Poll(Some(0))],
        allowed: vec![],
        stall_selects: 0,
        probe: true,
        kitty: true,
    });
    v.push(Session {
        name: "image-behind-frame-then-drop",
        acts: vec![Write(3), Flush, DrawImage, Write(4), Flush, Write(2), FramesDrop, Poll(Some(0)), Poll(Some(0))],
        allowed: vec![],
        stall_selects: 0,
        probe: true,
        kitty: true,
    });
    v
}

pub fn sessions_c17() -> Vec<Session> {
    use Act::*;
    vec![
        Session { name: "wake-blocking", acts: vec![Schedule(inp(b"a")), Poll(None)], allowed: vec![(Inject::Wake, 2)], stall_selects: 0, probe: false, kitty: false },
        Session { name: "wake-output", acts: vec![Write(5), Poll(Some(0)), Poll(Some(5))], allowed: vec![(Inject::Wake, 2)], stall_selects: 0, probe: false, kitty: false },
        Session { name: "wake-idle", acts: vec![Poll(Some(0)), Poll(Some(0))], allowed: vec![(Inject::Wake, 1)], stall_selects: 0, probe: false, kitty: false },
        Session {
            name: "winch",
            acts: vec![Write(5), Poll(Some(0)), Poll(Some(5))],
            allowed: vec![(Inject::Winch, 1), (Inject::Wake, 1)], stall_selects: 0, probe: false, kitty: false },
        Session {
            name: "term",
            acts: vec![Write(5), Poll(Some(0)), Poll(Some(5)), Poll(Some(0))],
            allowed: vec![(Inject::Term, 1)], stall_selects: 0, probe: false, kitty: false },
        Session {
            name: "input-bytes",
            acts: vec![Write(4), Arrive(inp(b"\xc3")), Poll(Some(0)), Poll(Some(5)), Poll(Some(0))],
            allowed: vec![(inp(b"\xa9\x1b["), 1), (inp(b"A"), 1)], stall_selects: 0, probe: false, kitty: false },
        Session { name: "hangup", acts: vec![Write(5), Poll(Some(0)), Poll(Some(5))], allowed: vec![(Inject::Hangup, 1)], stall_selects: 0, probe: false, kitty: false },
        Session {
            name: "mixed",
            acts: vec![Write(3), Schedule(inp(b"q")), Poll(None), Poll(Some(0))],
            allowed: vec![(Inject::Wake, 1), (Inject::Winch, 1), (inp(b"z"), 1)], stall_selects: 0, probe: false, kitty: false },
        Session { name: "big-wake", acts: vec![Write(200 * 1024), Poll(Some(0)), Poll(Some(0))], allowed: vec![(Inject::Wake, 1)], stall_selects: 0, probe: false, kitty: false },
        Session {
            name: "stale-da1-at-release",
            acts: vec![
                Exec(TerminalCommand::DeviceAttrs),
                Arrive(inp(b"q")),
                Poll(Some(0)),
                Write(300),
                Poll(Some(0)),
            ],
            allowed: vec![],
            stall_selects: 0,
            probe: false,
            kitty: false,
        },
        Session {
            name: "escape-size-winch",
            acts: vec![Schedule(inp(b"a")), Poll(None), Poll(Some(5))],
            allowed: vec![(Inject::Winch, 1), (Inject::Wake, 1)],
            stall_selects: 0,
            probe: true,
            kitty: false,
        },
        // two window-size signals, the second at any point: the size the application ends up with is the window's
        Session {
            name: "escape-size-two-winches",
            acts: vec![Arrive(Inject::Winch), Poll(Some(0)), Poll(Some(0)), Poll(Some(5)), Poll(Some(0))],
            allowed: vec![(Inject::Winch, 1)],
            stall_selects: 0,
            probe: true,
            kitty: false,
        },
        Session {
            name: "escape-size-output",
            acts: vec![Write(5), Poll(Some(0)), Poll(Some(5))],
            allowed: vec![(Inject::Winch, 1)],
            stall_selects: 0,
            probe: true,
            kitty: false,
        },
        Session {
            name: "position-query",
            acts: vec![Write(4), Arrive(inp(b"k")), QueryPosition, Poll(Some(0)), Poll(Some(0))],
            allowed: vec![(Inject::Wake, 1)],
            stall_selects: 0,
            probe: false,
            kitty: false,
        },
        // several keys typed before the cursor position is asked for: position() sets them aside and puts them back
        // the terminal answers the queries of position() late: whatever position() set aside while it waited (here a
        // wake request that was pending when it started) is still delivered afterwards
        Session {
            name: "position-query-slow-terminal",
            acts: vec![Arrive(Inject::Wake), Schedule(inp(b"\x1b[3;5R")), Schedule(inp(b"\x1b[?62;c")), QueryPosition, Poll(Some(0)), Poll(Some(0))],
            allowed: vec![],
            stall_selects: 0,
            probe: false,
            kitty: false,
        },
        Session {
            name: "position-query-three-keys",
            acts: vec![Write(4), Arrive(inp(b"abc")), QueryPosition, Poll(Some(0)), Poll(Some(0)), Poll(Some(0)), Poll(Some(0))],
            allowed: vec![(inp(b"z"), 1)],
            stall_selects: 0,
            probe: false,
            kitty: false,
        },
        Session {
            name: "kitty-error-redraw",
            acts: vec![DrawImage, Poll(Some(0)), ImageError, Poll(Some(5)), Poll(Some(0))],
            allowed: vec![(Inject::Wake, 1)],
            stall_selects: 0,
            probe: true,
            kitty: true,
        },
        Session {
            name: "flush-then-release",
            acts: vec![Write(3), Flush, Write(2), Flush, Write(4), Poll(Some(0))],
            allowed: vec![],
            stall_selects: 0,
            probe: false,
            kitty: false,
        },
        Session {
            name: "wake-burst-127",
            acts: vec![Arrive(Inject::WakeBurst(127)), Poll(Some(5)), Poll(Some(0))],
            allowed: vec![],
            stall_selects: 0,
            probe: false,
            kitty: false,
        },
        Session {
            name: "wake-burst-128",
            acts: vec![Arrive(Inject::WakeBurst(128)), Poll(Some(5)), Poll(Some(0))],
            allowed: vec![],
            stall_selects: 0,
            probe: false,
            kitty: false,
        },
        Session {
            name: "wake-burst-256",
            acts: vec![Write(2), Arrive(Inject::WakeBurst(256)), Poll(None), Poll(Some(0))],
            allowed: vec![],
            stall_selects: 0,
            probe: false,
            kitty: false,
        },
        Session {
            name: "wake-burst-1024",
            acts: vec![Arrive(Inject::WakeBurst(200)), Arrive(Inject::WakeBurst(56)), Poll(Some(5)), Arrive(Inject::WakeBurst(64)), Poll(None)],
            allowed: vec![],
            stall_selects: 0,
            probe: false,
            kitty: false,
        },
        Session {
            name: "quit-with-pending-input",
            acts: vec![Arrive(inp(b"ab")), Poll(Some(0)), Poll(Some(0)), Poll(Some(0))],
            allowed: vec![(Inject::Term, 1)], stall_selects: 0, probe: false, kitty: false },
        // three wake requests: the second one may land between the moment the poll loop notices the first and the
        // moment it drains the wake pipe; the third one must still get through
        Session {
            name: "wake-three",
            acts: vec![Write(5), Poll(Some(0)), Poll(Some(5)), Poll(Some(0))],
            allowed: vec![(Inject::Wake, 3)], stall_selects: 0, probe: false, kitty: false },
        Session {
            name: "wake-three-idle",
            acts: vec![Arrive(Inject::Wake), Poll(Some(5)), Poll(Some(0)), Poll(Some(5))],
            allowed: vec![(Inject::Wake, 2)], stall_selects: 0, probe: false, kitty: false },
        // a termination signal and a window-size signal pending in one batch, in both orders and at every pair of points
        Session {
            name: "term-with-winch",
            acts: vec![Write(5), Poll(Some(0)), Poll(Some(5)), Poll(Some(0)), Poll(Some(0))],
            allowed: vec![(Inject::Term, 1), (Inject::Winch, 1)], stall_selects: 0, probe: false, kitty: false },
        Session {
            name: "winch-then-term-before-poll",
            acts: vec![Arrive(Inject::Winch), Arrive(Inject::Term), Poll(Some(5)), Poll(Some(0)), Poll(Some(0))],
            allowed: vec![(Inject::Wake, 1)], stall_selects: 0, probe: false, kitty: false },
        Session {
            name: "term-then-winch-before-poll",
            acts: vec![Arrive(Inject::Term), Arrive(Inject::Winch), Poll(None), Poll(Some(0)), Poll(Some(0))],
            allowed: vec![], stall_selects: 0, probe: false, kitty: false },
    ]
}

pub fn reference_events(input: &[u8]) -> Vec<TerminalEvent> {
    use surf_n_term::decoder::{Decoder, TTYEventDecoder};
    let mut d = TTYEventDecoder::new();
    let mut out = vec![];
    let _ = d.decode_into(std::io::Cursor::new(input), &mut out);
    out
}

// ------------------------------------------------------------------ exploration driver

#[derive(Debug, Clone, Copy, PartialEq, Eq)]
pub enum Focus {
    C16,
    C17,
}

pub struct Found {
    pub key: String,
    pub what: String,
    pub witness: Value,
}

#[derive(Default, Debug, Clone)]
pub struct ExploreStats {
    pub executions: u64,
    pub by_deviations: Vec<u64>,
    pub max_points: usize,
    pub capped: bool,
    pub distinct_outcomes: usize,
}

fn deviation_labels(trace: &[crate::engine::devdfs::ChoicePoint]) -> String {
    let mut v: Vec<String> = trace
        .iter()
        .filter(|c| c.chosen != 0)
        .map(|c| format!("{}#{}", c.label, c.chosen))
        .collect();
    v.sort();
    v.dedup();
    v.join("+")
}

pub fn problems_for(focus: Focus, o: &Outcome) -> Vec<(String, String)> {
    match focus {
        Focus::C16 => c16_problems(o),
        Focus::C17 => c17_problems(o, &reference_events),
    }
}

/// explore one (session, crash point) with at most `bound` deviations
pub fn explore_session(
    focus: Focus,
    session: &Session,
    upto: usize,
    bound: usize,
    budget: u64,
    found: &mut Vec<Found>,
    tick: &mut dyn FnMut(),
) -> Result<ExploreStats, String> {
    let mut outcomes: std::collections::HashSet<u64> = std::collections::HashSet::new();
    let mut err: Option<String> = None;
    let mut n = 0u64;
    let st = crate::engine::devdfs::explore(bound, budget, |c| {
        if err.is_some() {
            return false;
        }
        n += 1;
        if n % 500 == 0 {
            tick(); // liveness for the parent's stall detector
        }
        let ch = c.take();
        let o = match execute(session, upto, ch, false) {
            Ok(o) => o,
            Err(e) => {
                err = Some(e);
                return false;
            }
        };
        c.trace = o.trace.clone();
        outcomes.insert(crate::engine::util::hash64(&(&o.out, format!("{:?}", o.events), o.termios_restored)));
        let problems = problems_for(focus, &o);
        if problems.is_empty() {
            return true;
        }
        // determinism: the same schedule must fail the same way, twice
        let chosen: Vec<u16> = o.trace.iter().map(|p| p.chosen).collect();
        for _ in 0..2 {
            match execute(session, upto, Choices::replay(chosen.clone()), false) {
                Ok(o2) => {
                    let p2 = problems_for(focus, &o2);
                    let k1: Vec<&String> = problems.iter().map(|(k, _)| k).collect();
                    let k2: Vec<&String> = p2.iter().map(|(k, _)| k).collect();
                    if k1 != k2 || o2.out != o.out {
                        err = Some(format!(
                            "NONDETERMINISM: schedule {:?} of session {} gave {:?} then {:?}",
                            chosen, session.name, k1, k2
                        ));
                        return false;
                    }
                }
                Err(e) => {
                    err = Some(e);
                    return false;
                }
            }
        }
        let devs = deviation_labels(&o.trace);
        for (kind, what) in problems {
            found.push(Found {
                key: format!("{:?}:{}@{}", focus, kind, if devs.is_empty() { "default".to_string() } else { devs.clone() }),
                what: format!(
                    "session {} (first {} of {} actions{}) with deviations [{}]: {}",
                    session.name,
                    upto,
                    session.acts.len(),
                    if upto < session.acts.len() { ", then the terminal is dropped" } else { "" },
                    devs,
                    what
                ),
                witness: json!({"kind": "session", "focus": format!("{:?}", focus), "session": session.name, "upto": upto, "choices": chosen}),
            });
        }
        false
    });
    if let Some(e) = err {
        return Err(e);
    }
    Ok(ExploreStats {
        executions: st.executions,
        by_deviations: st.by_deviations,
        max_points: st.max_points,
        capped: st.capped,
        distinct_outcomes: outcomes.len(),
    })
}

pub fn replay_session(w: &Value) -> Result<(bool, String), String> {
    if w["logging"] == json!(true) {
        let mut w2 = w.clone();
        w2["logging"] = json!(false);
        return crate::engine::logging::with_logging(|| replay_session(&w2));
    }
    prepare_process();
    let focus = if w["focus"].as_str() == Some("C17") { Focus::C17 } else { Focus::C16 };
    let name = w["session"].as_str().ok_or("session")?;
    let all: Vec<Session> = sessions_c16().into_iter().chain(sessions_c17()).collect();
    let session = all.iter().find(|s| s.name == name).ok_or("unknown session")?;
    let upto = w["upto"].as_u64().ok_or("upto")? as usize;
    let choices: Vec<u16> = w["choices"].as_array().ok_or("choices")?.iter().filter_map(|v| v.as_u64().map(|x| x as u16)).collect();
    let o1 = execute(session, upto, Choices::replay(choices.clone()), true)?;
    let o2 = execute(session, upto, Choices::replay(choices.clone()), false)?;
    let p1 = problems_for(focus, &o1);
    let p2 = problems_for(focus, &o2);
    let mut d = format!("session {} upto {} choices {:?}\n", name, upto, choices);
    for l in &o1.log {
        d += l;
        d.push('\n');
    }
    d += &format!(
        "tty received {} bytes; events {:?}; injected {:?}; termios restored: {}\n",
        o1.out.len(),
        o1.events,
        o1.injected,
        o1.termios_restored
    );
    for (k, what) in &p1 {
        d += &format!("  {k}: {what}\n");
    }
    if p1.iter().map(|x| &x.0).collect::<Vec<_>>() != p2.iter().map(|x| &x.0).collect::<Vec<_>>() {
        return Err(format!("NONDETERMINISM on replay: {:?} vs {:?}", p1, p2));
    }
    Ok((!p1.is_empty(), d))
}

// ------------------------------------------------------------------ conformance on the real kernel

/// Run a session with NO environment installed: the real kernel answers, a harness thread plays
/// the peer (drains the master side at the given pace and answers the DA1 query). Samples the
/// real kernel's schedules; decides nothing about the properties' quantifiers, but shows that the
/// H2 seam is inert when unused and that the kernel model's oracle also holds on a real pty.
pub fn conformance_run(session: &Session, pace_us: u64) -> Result<Outcome, String> {
    let (master, slave) = open_pty()?;
    conformance_run_on(master, slave, session, pace_us)
}

/// Successive terminal objects in one process (no kernel model: real system calls). A first terminal is opened
/// on a pty whose other end is closed before the terminal is released (so that restoring its line settings
/// fails); then a second terminal is opened on a pty with the SAME device number (numbers are recycled) whose
/// line settings at open time are different, runs a short session and is released normally. The settings found
/// afterwards must be those found when the second terminal was opened. Returns (runs, problems).
pub fn successive_terminals_check() -> Result<(u64, Vec<(String, String)>), String> {
    prepare_process();
    let rdev_of = |fd: RawFd| -> u64 {
        unsafe {
            let mut st: libc::stat = std::mem::zeroed();
            if libc::fstat(fd, &mut st) == 0 {
                st.st_rdev as u64
            } else {
                0
            }
        }
    };
    let mut problems = vec![];
    let mut runs = 0u64;
    for variant in 0..3u32 {
        // first terminal, hung up before its release
        let (master_a, slave_a) = open_pty()?;
        let rdev_a = rdev_of(slave_a.as_raw_fd());
        {
            let mut first = SystemTerminal::new_from_fd(slave_a).map_err(|e| format!("first terminal: {e:?}"))?;
            drop(master_a);
            let _ = first.poll(Some(Duration::from_millis(0)));
            drop(first);
        }
        // second pty with the same device number: open until the number comes back
        let mut spare = vec![];
        let mut found = None;
        for _ in 0..64 {
            let (m, s) = open_pty()?;
            if rdev_of(s.as_raw_fd()) == rdev_a {
                found = Some((m, s));
                break;
            }
            spare.push((m, s));
        }
        drop(spare);
        let Some((master_b, slave_b)) = found else {
            // another process took the number: nothing can be concluded from this round
            continue;
        };
        // different line settings at open time
        unsafe {
            let mut t: libc::termios = std::mem::zeroed();
            if libc::tcgetattr(slave_b.as_raw_fd(), &mut t) != 0 {
                return Err("tcgetattr on the second pty failed".into());
            }
            match variant {
                0 => {
                    t.c_lflag &= !libc::ECHO;
                    t.c_cc[libc::VINTR] = 0x1d;
                }
                1 => {
                    t.c_lflag &= !(libc::ICANON | libc::ISIG);
                    t.c_cc[libc::VMIN] = 3;
                }
                _ => {
                    t.c_iflag |= libc::IXON;
                    t.c_oflag &= !libc::OPOST;
                    t.c_cc[libc::VEOF] = 0x1a;
                }
            }
            if libc::tcsetattr(slave_b.as_raw_fd(), libc::TCSANOW, &t) != 0 {
                return Err("tcsetattr on the second pty failed".into());
            }
        }
        let session = Session { name: "second-terminal", acts: vec![Act::Write(5), Act::Poll(Some(0))], allowed: vec![], stall_selects: 0, probe: false, kitty: false };
        let o = conformance_run_on(master_b, slave_b, &session, 0)?;
        runs += 1;
        if !o.termios_restored {
            problems.push((
                "termios:after-hung-up-terminal-on-same-device".to_string(),
                format!(
                    "a terminal was opened on a pty (device {rdev_a:#x}) whose other end was closed before its release; the next terminal, opened on a pty with the same device number but other line settings (variant {variant}), did not leave the settings it had found when it was released"
                ),
            ));
        }
    }
    Ok((runs, problems))
}

/// A real terminal object on a pty (no kernel model: real system calls) under the given environment; a harness
/// thread plays the terminal emulator: it drains the master side, answers the DA1 query and - when `truecolor_reply`
/// is set - answers the DECRQSS face query the way a true-colour terminal does. The commands are executed between
/// two marker writes, each followed by a `|`; returns the colour depth the terminal object reports and the bytes the pty received between
/// the markers.
pub fn commands_on_real_terminal(term_env: &str, colorterm: Option<&str>, truecolor_reply: bool, cmds: &[TerminalCommand]) -> Result<(surf_n_term::encoder::ColorDepth, Vec<u8>), String> {
    use std::sync::atomic::{AtomicBool, Ordering};
    use std::sync::{Arc, Mutex};
    std::env::set_var("TERM", term_env);
    match colorterm {
        Some(v) => std::env::set_var("COLORTERM", v),
        None => std::env::remove_var("COLORTERM"),
    }
    std::env::remove_var("SURFNTERM");
    let (master, slave) = open_pty()?;
    let stop = Arc::new(AtomicBool::new(false));
    let received: Arc<Mutex<Vec<u8>>> = Arc::new(Mutex::new(vec![]));
    let mfd = master.as_raw_fd();
    let peer = {
        let stop = stop.clone();
        let received = received.clone();
        std::thread::spawn(move || {
            let mut scanned = 0usize;
            let mut buf = vec![0u8; 65536];
            let da1: &[u8] = b"\x1b[c";
            let face_query: &[u8] = b"\x1bP$qm\x1b\\";
            loop {
                let mut p = libc::pollfd { fd: mfd, events: libc::POLLIN, revents: 0 };
                let r = unsafe { libc::poll(&mut p, 1, 10) };
                if r > 0 && (p.revents & libc::POLLIN) != 0 {
                    let n = unsafe { libc::read(mfd, buf.as_mut_ptr() as *mut libc::c_void, buf.len()) };
                    if n > 0 {
                        let mut g = received.lock().unwrap();
                        g.extend_from_slice(&buf[..n as usize]);
                        while scanned < g.len() {
                            let rest = &g[scanned..];
                            let reply: Option<(&[u8], usize)> = if rest.starts_with(da1) {
                                Some((b"\x1b[?62;c", da1.len()))
                            } else if truecolor_reply && rest.starts_with(face_query) {
                                Some((b"\x1bP1$r0;48;2;1;2;3m\x1b\\", face_query.len()))
                            } else if (da1.starts_with(rest) || face_query.starts_with(rest)) && rest.len() < face_query.len() {
                                break; // may be the beginning of a query: wait for more
                            } else {
                                None
                            };
                            match reply {
                                Some((bytes, skip)) => {
                                    unsafe { libc::write(mfd, bytes.as_ptr() as *const libc::c_void, bytes.len()) };
                                    scanned += skip;
                                }
                                None => scanned += 1,
                            }
                        }
                        continue;
                    }
                }
                if stop.load(Ordering::SeqCst) && r <= 0 {
                    break;
                }
                if r > 0 && (p.revents & (libc::POLLHUP | libc::POLLERR)) != 0 && (p.revents & libc::POLLIN) == 0 {
                    if stop.load(Ordering::SeqCst) {
                        break;
                    }
                    std::thread::sleep(Duration::from_millis(1));
                }
            }
        })
    };
    let finish = |e: String| -> String {
        stop.store(true, Ordering::SeqCst);
        e
    };
    let mut term = SystemTerminal::new_from_fd(slave).map_err(|e| finish(format!("{e:?}")))?;
    let depth = term.capabilities().depth;
    let wait_for = |term: &mut SystemTerminal, marker: &[u8]| -> Result<usize, String> {
        for _ in 0..2000 {
            let _ = term.poll(Some(Duration::from_millis(1)));
            let g = received.lock().unwrap();
            if let Some(at) = g.windows(marker.len()).rposition(|w| w == marker) {
                return Ok(at);
            }
        }
        Err(format!("marker {:?} never reached the pty", String::from_utf8_lossy(marker)))
    };
    let _ = term.write_all(b"<<BEGIN>>");
    let begin = wait_for(&mut term, b"<<BEGIN>>").map_err(&finish)? + 9;
    for cmd in cmds {
        term.execute(cmd.clone()).map_err(|e| finish(format!("execute failed: {e:?}")))?;
        let _ = term.write_all(b"|");
    }
    let _ = term.write_all(b"<<END>>");
    let end = wait_for(&mut term, b"<<END>>").map_err(&finish)?;
    drop(term);
    stop.store(true, Ordering::SeqCst);
    let _ = peer.join();
    drop(master);
    let g = received.lock().unwrap();
    Ok((depth, g[begin..end].to_vec()))
}

/// Arrival order with the real kernel answering `select` (no kernel model: the H2 seam hands the harness descriptor
/// lists, so what the library makes of a real `select` result - the tty readable AND writable in one round - is only
/// exercised here). 256 one-byte frames are queued, the peer types `a`, one poll runs, SIGWINCH is raised, polls
/// continue: the key was there first and must be delivered before the resize. Returns (runs, problems).
pub fn arrival_order_check() -> Result<(u64, Vec<(String, String)>), String> {
    use std::sync::atomic::{AtomicBool, Ordering};
    use std::sync::Arc;
    prepare_process();
    let mut problems = vec![];
    let mut runs = 0u64;
    for frames in [256usize, 40] {
        let (master, slave) = open_pty()?;
        let stop = Arc::new(AtomicBool::new(false));
        let mfd = master.as_raw_fd();
        let peer = {
            let stop = stop.clone();
            std::thread::spawn(move || {
                let mut buf = vec![0u8; 4096];
                let mut tail: Vec<u8> = vec![];
                loop {
                    let mut p = libc::pollfd { fd: mfd, events: libc::POLLIN, revents: 0 };
                    let r = unsafe { libc::poll(&mut p, 1, 10) };
                    if r > 0 && (p.revents & libc::POLLIN) != 0 {
                        let n = unsafe { libc::read(mfd, buf.as_mut_ptr() as *mut libc::c_void, buf.len()) };
                        if n > 0 {
                            tail.extend_from_slice(&buf[..n as usize]);
                            while let Some(pos) = tail.windows(3).position(|w| w == b"\x1b[c") {
                                tail.drain(..pos + 3);
                                let reply = b"\x1b[?62;c";
                                unsafe { libc::write(mfd, reply.as_ptr() as *const libc::c_void, reply.len()) };
                            }
                            let keep = tail.len().min(2);
                            tail.drain(..tail.len() - keep);
                            continue;
                        }
                    }
                    if stop.load(Ordering::SeqCst) {
                        break;
                    }
                    if r > 0 && (p.revents & (libc::POLLHUP | libc::POLLERR)) != 0 {
                        std::thread::sleep(Duration::from_millis(1));
                    }
                }
            })
        };
        let mut term = SystemTerminal::new_from_fd(slave).map_err(|e| format!("{e:?}"))?;
        while let Ok(Some(_)) = term.poll(Some(Duration::from_millis(20))) {}
        for _ in 0..frames {
            let _ = term.write_all(b"x");
            let _ = term.flush();
        }
        unsafe { libc::write(mfd, b"a".as_ptr() as *const libc::c_void, 1) };
        std::thread::sleep(Duration::from_millis(50));
        let mut events: Vec<TerminalEvent> = vec![];
        if let Ok(Some(e)) = term.poll(Some(Duration::from_millis(0))) {
            events.push(e);
        }
        unsafe { libc::raise(libc::SIGWINCH) };
        for _ in 0..4096 {
            if let Ok(Some(e)) = term.poll(Some(Duration::from_millis(0))) {
                events.push(e);
            }
            let key = events.iter().any(|e| matches!(e, TerminalEvent::Key(_)));
            let resize = events.iter().any(|e| matches!(e, TerminalEvent::Resize(_)));
            if key && resize {
                break;
            }
        }
        runs += 1;
        let order: Vec<&str> = events
            .iter()
            .filter_map(|e| match e {
                TerminalEvent::Key(_) => Some("key"),
                TerminalEvent::Resize(_) => Some("resize"),
                _ => None,
            })
            .collect();
        if order != ["key", "resize"] {
            problems.push((
                "arrival-order:key-then-winch".to_string(),
                format!("{frames} one-byte frames pending, the peer typed `a`, one poll, then SIGWINCH: events were delivered as {:?} (all: {:?})", order, events),
            ));
        }
        drop(term);
        stop.store(true, Ordering::SeqCst);
        let _ = peer.join();
        drop(master);
    }
    Ok((runs, problems))
}

/// Release with a debugging copy of the output that cannot be written (no kernel model: real system calls): the
/// terminal duplicates its output into `/dev/full` (every write to it fails with ENOSPC) or into `/dev/null`, a
/// little output is written, the terminal is released. Whatever the copy does, the line settings must be those found
/// at open time. Returns (runs, problems).
pub fn tee_release_check() -> Result<(u64, Vec<(String, String)>), String> {
    use std::sync::atomic::{AtomicBool, Ordering};
    use std::sync::Arc;
    prepare_process();
    let mut problems = vec![];
    let mut runs = 0u64;
    for (tee, amount) in [("/dev/full", 5usize), ("/dev/full", 20_000), ("/dev/null", 5)] {
        let (master, slave) = open_pty()?;
        let slave_dup = unsafe { libc::dup(slave.as_raw_fd()) };
        let saved = termios_of(slave_dup).ok_or("tcgetattr on the pty failed")?;
        let stop = Arc::new(AtomicBool::new(false));
        let mfd = master.as_raw_fd();
        let peer = {
            let stop = stop.clone();
            std::thread::spawn(move || {
                let mut buf = vec![0u8; 65536];
                let mut tail: Vec<u8> = vec![];
                loop {
                    let mut p = libc::pollfd { fd: mfd, events: libc::POLLIN, revents: 0 };
                    let r = unsafe { libc::poll(&mut p, 1, 10) };
                    if r > 0 && (p.revents & libc::POLLIN) != 0 {
                        let n = unsafe { libc::read(mfd, buf.as_mut_ptr() as *mut libc::c_void, buf.len()) };
                        if n > 0 {
                            tail.extend_from_slice(&buf[..n as usize]);
                            while let Some(pos) = tail.windows(3).position(|w| w == b"\x1b[c") {
                                tail.drain(..pos + 3);
                                let reply = b"\x1b[?62;c";
                                unsafe { libc::write(mfd, reply.as_ptr() as *const libc::c_void, reply.len()) };
                            }
                            let keep = tail.len().min(2);
                            tail.drain(..tail.len() - keep);
                            continue;
                        }
                    }
                    if stop.load(Ordering::SeqCst) {
                        break;
                    }
                    if r > 0 && (p.revents & (libc::POLLHUP | libc::POLLERR)) != 0 {
                        std::thread::sleep(Duration::from_millis(1));
                    }
                }
            })
        };
        {
            let mut term = SystemTerminal::new_from_fd(slave).map_err(|e| format!("{e:?}"))?;
            let _ = term.duplicate_output(tee);
            let mut counter = 0u32;
            let _ = term.write_all(&payload(&mut counter, amount));
            for _ in 0..50 {
                let _ = term.poll(Some(Duration::from_millis(1)));
                if term.frames_pending() == 0 {
                    break;
                }
            }
        }
        runs += 1;
        std::thread::sleep(Duration::from_millis(3));
        if termios_of(slave_dup).as_ref() != Some(&saved) {
            problems.push((
                "release:termios-with-output-copy".to_string(),
                format!("a terminal that duplicates its output into {tee} wrote {amount} bytes and was released: the line settings of the tty are not those found when it was opened"),
            ));
        }
        unsafe { libc::close(slave_dup) };
        stop.store(true, Ordering::SeqCst);
        let _ = peer.join();
        drop(master);
    }
    Ok((runs, problems))
}

/// Descriptor placements (no kernel model: real system calls). The caller of `new_from_fd` decides which
/// descriptor number the tty has; the numbers of the descriptors the terminal allocates afterwards (signal pipe,
/// waker pipe) depend on which numbers are free. All placements of a small family are run: the tty below / above
/// / between the terminal's own descriptors and beyond the first word of a descriptor set. In every placement
/// input written by the peer must be delivered as key events, pending output and the closing sequence must reach
/// the peer and the line settings must be restored. Returns (runs, problems).
pub fn descriptor_placement_check() -> Result<(u64, Vec<(String, String)>), String> {
    prepare_process();
    let mut problems: Vec<(String, String)> = vec![];
    let mut note = |problems: &mut Vec<(String, String)>, k: &str, w: String| {
        println!("PROBLEM {}", json!([k, w]));
        problems.push((k.to_string(), w));
    };
    let mut runs = 0u64;
    // (tty descriptor at least, number of free descriptor numbers left below it)
    let mut placements: Vec<(Option<i32>, usize)> = vec![(None, 0)];
    for holes in [usize::MAX, 0, 1, 2, 3, 4, 6] {
        placements.push((Some(40), holes));
    }
    placements.push((Some(200), usize::MAX));
    placements.push((Some(200), 2));
    placements.push((Some(700), usize::MAX));
    for (min_fd, holes) in placements {
        let (master, slave) = open_pty()?;
        let mut fillers: Vec<OwnedFd> = vec![];
        let slave = match min_fd {
            None => slave,
            Some(min) => {
                let fd = unsafe { libc::fcntl(slave.as_raw_fd(), libc::F_DUPFD_CLOEXEC, min) };
                if fd < 0 {
                    return Err(format!("F_DUPFD to {min} failed: {}", std::io::Error::last_os_error()));
                }
                drop(slave);
                if holes != usize::MAX {
                    // occupy every free number below the tty, then free `holes` of the lowest again
                    loop {
                        let f = unsafe { libc::open(b"/dev/null\0".as_ptr() as *const libc::c_char, libc::O_RDONLY | libc::O_CLOEXEC) };
                        if f < 0 {
                            return Err("opening a filler descriptor failed".into());
                        }
                        let o = unsafe { OwnedFd::from_raw_fd(f) };
                        if f > fd {
                            drop(o);
                            break;
                        }
                        fillers.push(o);
                    }
                    for _ in 0..holes.min(fillers.len()) {
                        fillers.remove(0);
                    }
                }
                unsafe { OwnedFd::from_raw_fd(fd) }
            }
        };
        let tty_no = slave.as_raw_fd();
        let session = Session {
            name: "descriptor-placement",
            acts: vec![Act::Write(5), Act::Arrive(Inject::Input(b"a".to_vec())), Act::Poll(Some(400)), Act::Write(3), Act::Arrive(Inject::Input(b"b".to_vec())), Act::Poll(Some(400))],
            allowed: vec![],
            stall_selects: 0,
            probe: false,
            kitty: false,
        };
        let what = format!("tty passed to new_from_fd as descriptor {tty_no} ({} free numbers left below it)", if holes == usize::MAX { "all".to_string() } else { holes.to_string() });
        println!("PLACEMENT-BEGIN {what}");
        let result = std::panic::catch_unwind(std::panic::AssertUnwindSafe(|| conformance_run_on(master, slave, &session, 0)));
        println!("PLACEMENT-END");
        drop(fillers);
        runs += 1;
        let o = match result {
            Ok(Ok(o)) => o,
            Ok(Err(e)) => {
                note(&mut problems, "placement:construct", format!("{what}: the terminal could not be opened: {e}"));
                continue;
            }
            Err(_) => {
                note(&mut problems, "placement:panic", format!("{what}: the session panicked"));
                continue;
            }
        };
        let keys: Vec<char> = o
            .events
            .iter()
            .filter_map(|(_, r)| match r {
                Ok(Some(TerminalEvent::Key(k))) => match k.name {
                    surf_n_term::KeyName::Char(c) => Some(c),
                    _ => Some('?'),
                },
                _ => None,
            })
            .collect();
        if keys != vec!['a', 'b'] {
            note(&mut problems, "placement:input-events", format!("{what}: the peer typed \"a\" and later \"b\", polls returned the keys {:?} (all results: {:?})", keys, o.events));
        }
        if let Some((_, Err(e))) = o.events.iter().find(|(_, r)| r.is_err()) {
            note(&mut problems, "placement:poll-error", format!("{what}: poll failed: {e}"));
        }
        let app: Vec<u8> = o.app_chunks.iter().flat_map(|c| c.bytes.clone()).collect();
        if !o.out.starts_with(&app) || app.len() != 8 {
            note(&mut problems, "placement:output", format!("{what}: 8 bytes were written and flushed by polls, the peer received {:?}", crate::engine::util::esc(&o.out)));
        }
        let tail = &o.out[app.len().min(o.out.len())..];
        let has = |needle: &[u8]| tail.windows(needle.len()).any(|w| w == needle);
        if !(has(b"\x1b[?25h") && has(b"\x1b[?1000l")) {
            note(&mut problems, "placement:epilogue", format!("{what}: the closing sequence did not reach the peer (after the application output: {:?})", crate::engine::util::esc(tail)));
        }
        if !o.termios_restored {
            note(&mut problems, "placement:termios", format!("{what}: line settings were not restored"));
        }
    }
    Ok((runs, problems))
}

pub fn conformance_run_on(master: OwnedFd, slave: OwnedFd, session: &Session, pace_us: u64) -> Result<Outcome, String> {
    use std::sync::atomic::{AtomicBool, Ordering};
    use std::sync::{Arc, Mutex};
    let slave_dup = unsafe { libc::dup(slave.as_raw_fd()) };
    let saved = termios_of(slave_dup).ok_or("tcgetattr on the pty failed")?;
    let stop = Arc::new(AtomicBool::new(false));
    let received: Arc<Mutex<Vec<u8>>> = Arc::new(Mutex::new(vec![]));
    let mfd = master.as_raw_fd();
    let peer = {
        let stop = stop.clone();
        let received = received.clone();
        std::thread::spawn(move || {
            let mut scanned = 0usize;
            let mut buf = vec![0u8; 65536];
            loop {
                let mut p = libc::pollfd { fd: mfd, events: libc::POLLIN, revents: 0 };
                let r = unsafe { libc::poll(&mut p, 1, 20) };
                if r > 0 && (p.revents & libc::POLLIN) != 0 {
                    let n = unsafe { libc::read(mfd, buf.as_mut_ptr() as *mut libc::c_void, if pace_us > 0 { 512 } else { buf.len() }) };
                    if n > 0 {
                        let mut g = received.lock().unwrap();
                        g.extend_from_slice(&buf[..n as usize]);
                        while scanned + 3 <= g.len() {
                            if &g[scanned..scanned + 3] == b"\x1b[c" {
                                let reply = b"\x1b[?62;c";
                                unsafe { libc::write(mfd, reply.as_ptr() as *const libc::c_void, reply.len()) };
                                scanned += 3;
                            } else {
                                scanned += 1;
                            }
                        }
                        drop(g);
                        if pace_us > 0 {
                            std::thread::sleep(Duration::from_micros(pace_us));
                        }
                        continue;
                    }
                }
                if stop.load(Ordering::SeqCst) && r <= 0 {
                    break;
                }
                if r > 0 && (p.revents & (libc::POLLHUP | libc::POLLERR)) != 0 && (p.revents & libc::POLLIN) == 0 {
                    if stop.load(Ordering::SeqCst) {
                        break;
                    }
                    std::thread::sleep(Duration::from_millis(1));
                }
            }
        })
    };
    let mut outcome = Outcome {
        out: vec![],
        app_chunks: vec![],
        events: vec![],
        injected: vec![],
        termios_restored: false,
        final_rows: 24,
        escape_size: false,
        deadlock: false,
        horizon_hit: false,
        hangup: false,
        quit_seen: false,
        log: vec![],
        trace: vec![],
        construct_error: None,
        acts_done: 0,
        epilogue_from: 0,
        crashed: false,
        render_last: None,
        render_result: None,
        positions: vec![],
    };
    let mut term = SystemTerminal::new_from_fd(slave).map_err(|e| format!("{e:?}"))?;
    let mut expected = Expected::default();
    let mut enc = TTYEncoder::new(TerminalCaps { depth: surf_n_term::encoder::ColorDepth::Gray, ..TerminalCaps::default() });
    let mut counter = 0u32;
    let mut polls = 0usize;
    let master_write = |bytes: &[u8]| unsafe {
        libc::write(mfd, bytes.as_ptr() as *const libc::c_void, bytes.len());
    };
    for act in &session.acts {
        outcome.acts_done += 1;
        match act {
            Act::Write(n) => {
                let b = payload(&mut counter, *n);
                let _ = term.write_all(&b);
                expected.append(&b);
            }
            Act::Exec(cmd) => {
                let mut b = vec![];
                let _ = enc.encode(&mut b, cmd.clone());
                let _ = term.execute(cmd.clone());
                expected.append(&b);
            }
            Act::Flush => {
                let _ = term.flush();
                expected.flush();
            }
            Act::Poll(t) => {
                expected.flush();
                let r = term.poll(t.map(Duration::from_millis));
                outcome.events.push((polls, r.map_err(|e| format!("{e:?}"))));
                polls += 1;
            }
            Act::FramesDrop => {
                // give the peer a moment so that "what has been transmitted" is observable
                std::thread::sleep(Duration::from_millis(5));
                let out_now = received.lock().unwrap().clone();
                // bytes may be in the pty buffer (transmitted, not yet read by the peer): a chunk
                // the peer has not seen yet may already have started, so nothing may be inferred
                // as droppable from the peer's view alone; mark only chunks after the kernel's
                // view, which we cannot see: be conservative and allow any not-yet-seen chunk
                expected.drop_frames(&out_now);
                term.frames_drop();
            }
            Act::Arrive(Inject::Input(b)) | Act::Schedule(Inject::Input(b)) => master_write(b),
            Act::Arrive(Inject::Wake) | Act::Schedule(Inject::Wake) => {
                let _ = term.waker().wake();
            }
            Act::Arrive(_) | Act::Schedule(_) | Act::RunRender(_) | Act::QueryPosition | Act::DrawImage | Act::ExecManyWithImage | Act::ImageError => {}
        }
    }
    for _ in 0..200 {
        expected.flush();
        let r = term.poll(Some(Duration::from_millis(2)));
        let none = matches!(r, Ok(None));
        outcome.events.push((polls, r.map_err(|e| format!("{e:?}"))));
        polls += 1;
        if none && term.frames_pending() == 0 {
            break;
        }
    }
    std::thread::sleep(Duration::from_millis(3));
    {
        let out_now = received.lock().unwrap().clone();
        expected.flush();
        expected.drop_frames(&out_now);
        outcome.epilogue_from = out_now.len();
    }
    drop(term);
    std::thread::sleep(Duration::from_millis(3));
    stop.store(true, Ordering::SeqCst);
    let _ = peer.join();
    outcome.termios_restored = termios_of(slave_dup).as_ref() == Some(&saved);
    unsafe { libc::close(slave_dup) };
    drop(master);
    outcome.out = received.lock().unwrap().clone();
    outcome.app_chunks = expected.chunks;
    Ok(outcome)
}

/// all C16 sessions without frame drops x three drain paces
pub fn conformance_pass() -> Result<(u64, Vec<(String, String)>), String> {
    prepare_process();
    let mut runs = 0u64;
    let mut problems = vec![];
    for s in sessions_c16() {
        if s.acts.iter().any(|a| matches!(a, Act::FramesDrop)) {
            continue; // what had started is not observable from outside the kernel
        }
        for pace in [0u64, 200, 2000] {
            if pace == 2000 && s.acts.iter().any(|a| matches!(a, Act::Write(n) if *n > 10_000)) {
                continue;
            }
            let o = conformance_run(&s, pace)?;
            runs += 1;
            for (k, what) in c16_problems(&o) {
                problems.push((format!("conformance:{k}"), format!("real pty, session {}, peer pace {} us: {}", s.name, pace, what)));
            }
            if !o.termios_restored {
                problems.push(("conformance:termios".into(), format!("real pty, session {}: termios not restored", s.name)));
            }
        }
    }
    Ok((runs, problems))
}


// ------------------------------------------------------------------ run_render sessions

/// Interpret the renderer's byte stream (the subset `run_render` emits at Gray depth: CUP, SGR,
/// ECH, DECSET/DECRST 2026, printable text) and judge it: synchronized-output brackets must be
/// properly nested and complete (no torn frame), and - when everything was delivered - row 0 of
/// the screen must show exactly what the last rendered frame drew.
pub fn render_stream_problems(app: &[u8], last: &[(usize, char)], complete: bool) -> Vec<(String, String)> {
    let mut p = vec![];
    let width = 80usize;
    let mut row0: Vec<char> = vec![' '; width];
    let mut cur: Option<(usize, usize)> = None;
    let mut in_frame = false;
    let mut i = 0;
    let n = app.len();
    while i < n {
        let b = app[i];
        if b == 0x1b {
            if i + 1 >= n {
                if complete {
                    p.push(("render:truncated".into(), "output ends inside an escape sequence".into()));
                }
                break;
            }
            if app[i + 1] != b'[' {
                i += 2;
                continue;
            }
            let mut j = i + 2;
            while j < n && !(0x40..=0x7e).contains(&app[j]) {
                j += 1;
            }
            if j >= n {
                if complete {
                    p.push(("render:truncated".into(), "output ends inside a control sequence".into()));
                }
                break;
            }
            let params = String::from_utf8_lossy(&app[i + 2..j]).to_string();
            match app[j] {
                b'H' => {
                    let mut it = params.split(';').map(|x| x.parse::<usize>().unwrap_or(1));
                    let r = it.next().unwrap_or(1).max(1) - 1;
                    let c = it.next().unwrap_or(1).max(1) - 1;
                    cur = Some((r, c));
                }
                b'X' => {
                    let k = params.parse::<usize>().unwrap_or(1).max(1);
                    if let Some((0, c)) = cur {
                        for x in c..(c + k).min(width) {
                            row0[x] = ' ';
                        }
                    }
                }
                b'h' | b'l' if params == "?2026" => {
                    let begin = app[j] == b'h';
                    if begin && in_frame {
                        p.push((
                            "render:torn-frame".into(),
                            format!("a frame begins at offset {i} while the previous one was never completed (frame torn or dropped after it had started)"),
                        ));
                    }
                    if !begin && !in_frame {
                        p.push(("render:torn-frame".into(), format!("end of frame at offset {i} without its beginning")));
                    }
                    in_frame = begin;
                }
                _ => {}
            }
            i = j + 1;
        } else {
            if b >= 0x20 {
                if let Some((r, c)) = cur {
                    if r == 0 && c < width {
                        row0[c] = b as char;
                    }
                    cur = Some((r, c + 1));
                }
            }
            i += 1;
        }
    }
    if complete {
        if in_frame {
            p.push(("render:torn-frame".into(), "the last frame was never completed although the tty kept accepting writes".into()));
        }
        let mut want: Vec<char> = vec![' '; width];
        for (c, ch) in last {
            want[*c] = *ch;
        }
        if row0 != want && p.is_empty() {
            let got: String = row0.iter().collect::<String>().trim_end().to_string();
            let exp: String = want.iter().collect::<String>().trim_end().to_string();
            p.push((
                "render:final-screen".into(),
                format!("after everything was delivered row 0 shows {:?}, the last rendered frame drew {:?}", got, exp),
            ));
        }
    }
    p
}
